"""C20 - Estimation results are read faithfully from NONMEM output.

spec -> code: spec/tables/NMTable.tla enumerates abstract table files (a $TABLE file with several tables and
repeated headers; run directories = parameter configuration x .ext tables with ordinary iterations and a
set of special rows per estimation step x .cov x .phi), runs the reader as a line automaton, proves it
equal to the reference ("the row NONMEM designates") and emits every file with the values, indices and
labels that must be reported.  This driver is the reference WRITER: it renders each abstract file in the
fixed-width formats of docs/NONMEM.rst (as seen in tests/testdata/nonmem/pheno_real.*), then compares
NONMEMTableFile / ExtTable / CovTable / PhiTable, parse_modelfit_results on the synthetic run directory and
the Results JSON round trip with the spec's expectations.
Auxiliary float assertions (DESIGN section 5): cor = D^-1 cov D^-1, coi = cov^-1 on the integer matrices.
"""
from __future__ import annotations

import json
import math
import random
import shutil
import tempfile
from pathlib import Path

from . import core

SPEC = core.SPEC / "tables"

BIGTOKEN = 99999
DROPPED = -77777
CODEBASE = 1000000000

TIERS = {
    "quick": dict(MaxGenTables=2, MaxGenRows=3, MaxTabItems=3, MaxTheta=2, OmegaKinds='"d2", "b2", "b2d1"', SigmaKinds='"d1", "b2"',
                  FixPats='"none", "th1", "om", "omblk1", "sg"', MaxSteps=2,
                  RowSets='"full", "nocov", "abort", "nm72", "covabort"', IterSets='"0-5-10", "0"', AllPhi="FALSE", AllIters="FALSE"),
    "thorough": dict(MaxGenTables=3, MaxGenRows=3, MaxTabItems=4, MaxTheta=4, OmegaKinds='"d1", "d2", "b2", "b2d1", "d1b2"', SigmaKinds='"d1", "d2", "b2"',
                     FixPats='"none", "th1", "thlast", "om", "omblk1", "sg"', MaxSteps=2,
                     RowSets='"full", "nocov", "abort", "nm72", "covabort"', IterSets='"0-5-10", "0"', AllPhi="FALSE", AllIters="TRUE"),
}


def _cfg(path, c):
    path.write_text(
        "CONSTANTS\n  Modes = {\"gen\", \"hdr\", \"log\", \"tab\", \"run\"}\n"
        + "".join(f"  {k} = {{{v}}}\n" if k in ("OmegaKinds", "SigmaKinds", "FixPats", "RowSets", "IterSets") else f"  {k} = {v}\n" for k, v in c.items())
        + "INIT Init\nNEXT Next\nINVARIANT AutomatonIsReference\nINVARIANT CovDominant\nINVARIANT CovTwoWays\nINVARIANT PhiTriOK\nINVARIANT Emit\nCHECK_DEADLOCK FALSE\n"
    )
    return path


# ----------------------------------------------------------------------------- the reference writer


def efmt(x, width=13, dec=5):
    """Fortran 1PEw.d : right justified, d decimals, two-digit exponent"""
    return f"{x:{width}.{dec}E}"


def objfmt(x):
    """OBJ column: plain decimal notation with 17 significant digits, right justified in 22 characters"""
    ax = abs(x)
    intdigits = len(str(int(ax)))
    if int(ax) == 0:
        body = f"{ax:.16f}"
    else:
        body = f"{ax:.{17 - intdigits}f}"
    return (("-" if x < 0 else " ") + body).rjust(22)


def real(v):
    return 1.0e10 if v == BIGTOKEN else float(v)


def file_label(p):
    return f"THETA{p['i']}" if p["kind"] == "THETA" else f"{p['kind']}({p['i']},{p['j']})"


def report_label(p):
    return f"THETA({p['i']})" if p["kind"] == "THETA" else f"{p['kind']}({p['i']},{p['j']})"


METHODS = {
    1: ("First Order Conditional Estimation with Interaction", "MINIMUM VALUE OF OBJECTIVE FUNCTION"),
    2: ("Importance Sampling (No Prior)", "FINAL VALUE OF OBJECTIVE FUNCTION"),
    3: ("Stochastic Approximation Expectation-Maximization (No Prior)", "FINAL VALUE OF LIKELIHOOD FUNCTION"),
    4: ("First Order (Evaluation)", "MINIMUM VALUE OF OBJECTIVE FUNCTION"),
}
DESIGN_OPT = "D-OPTIMALITY"


def plain(meta):
    """the title of the same table in the .phi / .cov / .cor / .coi file: no Goal Function part"""
    return dict(meta, goal=False)


def title(no, meta):
    """TABLE NO. line from the abstract metadata of NMTable.tla (Meta)"""
    meth, g = METHODS[meta["meth"]]
    t = f"TABLE NO. {no:5d}: {meth}: "
    if meta["design"]:
        t += f"{DESIGN_OPT}: "
    if meta["goal"]:
        t += f"Goal Function={g}: "
    return t + (f"Problem={meta['problem']} Subproblem={meta['sub']} Superproblem1={meta['sup1']} Iteration1={meta['it1']} "
                f"Superproblem2={meta['sup2']} Iteration2={meta['it2']}\n")


def check_meta(t, no, meta, what):
    """number and title metadata of a table that was read"""
    meth, g = METHODS[meta["meth"]]
    exp = {"number": no, "method": meth, "design_optimality": DESIGN_OPT if meta["design"] else None, "goal_function": g if meta["goal"] else None,
           "problem": meta["problem"], "subproblem": meta["sub"], "superproblem1": meta["sup1"], "iteration1": meta["it1"],
           "superproblem2": meta["sup2"], "iteration2": meta["it2"], "is_evaluation": meta["meth"] == 4}
    got = {k: getattr(t, k) for k in exp}
    want(got == exp, "title_metadata", f"{what}: title metadata {({k: v for k, v in got.items() if v != exp[k]})} read, written {({k: exp[k] for k, v in got.items() if v != exp[k]})}")


def check_hdr(case, d):
    """one title line of every shape on a small table file of every kind"""
    from pharmpy.model.external.nonmem.table import CovTable, ExtTable, NONMEMTableFile, PhiTable

    no, meta = case["no"], case["meta"]
    bodies = {
        ".ext": (ExtTable, header(["ITERATION", "THETA1", "OBJ"]) + f"{0:13d}" + efmt(1.0) + objfmt(2.0) + "\n"),
        ".phi": (PhiTable, header(["SUBJECT_NO", "ID", "ETA(1)", "ETC(1,1)", "OBJ"]) + f"{1:13d}{1:13d}" + efmt(1.0) + efmt(1.0) + objfmt(2.0) + "\n"),
        ".cov": (CovTable, header(["NAME", "THETA1"]) + " " + f"{'THETA1':<12}" + efmt(1.0) + "\n"),
        ".coi": (CovTable, header(["NAME", "THETA1"]) + " " + f"{'THETA1':<12}" + efmt(1.0) + "\n"),
    }
    for suffix, (cls, body) in bodies.items():
        path = d / ("run1" + suffix)
        path.write_text(title(no, meta) + body)
        tf = NONMEMTableFile(path)
        want(len(tf) == 1 and isinstance(tf[0], cls), "table_kind", f"{suffix}: {len(tf)} table(s) of type {type(tf[0]).__name__}")
        check_meta(tf[0], no, meta, suffix)
        want(tf.table_no(no) is tf[0], "table_no", f"{suffix}: table_no({no})")


def header(cols):
    return " " + "".join(f"{c:<13}" for c in cols[:-1]) + cols[-1] + "\n"


def write_ext(path, run):
    out = []
    cols = ["ITERATION"] + [file_label(p) for p in run["fileorder"]] + ["OBJ"]
    tables = [(tab["no"], meta, tab["rows"]) for tab, meta in zip(run["ext"], run["metas"])]
    if run["dtab"]["on"]:
        tables.append((run["dtab"]["no"], run["dtab"]["meta"], run["dtab"]["rows"]))
    for no, meta, rows in tables:
        out.append(title(no, meta))
        out.append(header(cols))
        for row in rows:
            it = -(CODEBASE + row["n"]) if row["special"] else row["n"]
            out.append(f"{it:13d}" + "".join(efmt(real(v)) for v in row["vals"]) + objfmt(float(row["obj"])) + "\n")
    path.write_text("".join(out))


def write_cov(path, run, matrix):
    labels = [file_label(p) for p in run["fileorder"]]
    out = [title(run["ext"][-1]["no"], plain(run["metas"][-1])), header(["NAME"] + labels)]
    for lab, row in zip(labels, matrix):
        out.append(" " + f"{lab:<12}" + "".join(efmt(float(v)) for v in row) + "\n")
    path.write_text("".join(out))


def write_phi(path, run):
    n = len(run["phi"][0]["rows"][0]["eta"])
    pre = "PHI" if run["phikind"] == "PHI" else "ETA"
    prc = "PHC" if run["phikind"] == "PHI" else "ETC"
    cols = ["SUBJECT_NO", "ID"] + [f"{pre}({i})" for i in range(1, n + 1)]
    cols += [f"{prc}({i},{j})" for i in range(1, n + 1) for j in range(1, i + 1)] + ["OBJ"]
    out = []
    tables = [(tab["no"], meta, phi["rows"], phi["flat"]) for tab, meta, phi in zip(run["ext"], run["metas"], run["phi"])]
    if run["dtab"]["on"]:  # the $DESIGN problem also writes a phi table (contributions to the design criterion)
        tables.append((run["dtab"]["no"], run["dtab"]["meta"], run["dtab"]["phirows"], run["dtab"]["phiflat"]))
    for no, meta, rows, flats in tables:
        out.append(title(no, plain(meta)))
        out.append(header(cols))
        for s, (row, flat) in enumerate(zip(rows, flats), start=1):
            out.append(f"{s:13d}{row['id']:13d}" + "".join(efmt(float(v)) for v in list(row["eta"]) + list(flat)) + objfmt(float(row["obj"])) + "\n")
    path.write_text("".join(out))


def write_lst(path, run):
    lines = ["Sun Oct  4 10:00:00 CEST 2026", "$PROBLEM synthetic", "", "1NONLINEAR MIXED EFFECTS MODEL PROGRAM (NONMEM) VERSION 7.4.4", " ORIGINALLY DEVELOPED BY STUART BEAL", ""]
    last = run["ext"][-1]
    for tab in run["ext"]:
        meth, goal = METHODS[tab["no"]]
        lines += ["1", f" #TBLN:{tab['no']:7d}", f" #METH: {meth}", "", " #TERM:"]
        if tab["rowset"] == "abort":
            lines += ["0MINIMIZATION TERMINATED", " DUE TO MAX. NO. OF FUNCTION EVALUATIONS EXCEEDED", " NO. OF FUNCTION EVALUATIONS USED:       10", " NO. OF SIG. DIGITS UNREPORTABLE"]
        else:
            lines += ["0MINIMIZATION SUCCESSFUL", " NO. OF FUNCTION EVALUATIONS USED:      111", " NO. OF SIG. DIGITS IN FINAL EST.:  3.8"]
        lines += ["", " #TERE:", " Elapsed estimation  time in seconds:     0.32"]
        if tab is last and 1 in tab["codes"]:
            lines += [" Elapsed covariance  time in seconds:     0.28"]
        lines += [" Elapsed postprocess time in seconds:     0.09", "1", "", f" #OBJT:**************       {goal}       ********************", "",
                  f" #OBJV:********************************************      {float(tab['final_ofv']):.3f}       **************************************************", ""]
    if run["dtab"]["on"]:
        lines += ["1", f" #TBLN:{run['dtab']['no']:7d}", f" #METH: {METHODS[4][0]}: {DESIGN_OPT}", "", " ESTIMATION STEP OMITTED:                 YES",
                  " DESIGN TYPE: D-OPTIMALITY, -LOG(DET(FIM))", "", " #TERM:", "", " ETABAR IS THE ARITHMETIC MEAN OF THE ETA-ESTIMATES,", "",
                  " #TERE:", " Elapsed opt. design time in seconds:     0.02", " Elapsed postprocess time in seconds:     0.00", "1", ""]
    lines += [" Elapsed finaloutput time in seconds:     0.02", " #CPUT: Total CPU Time in Seconds,        0.720", "Stop Time:", "Sun Oct  4 10:00:04 CEST 2026", ""]
    path.write_text("\n".join(lines))


def model_code(run):
    cfg = run["cfg"]
    th = [p for p in run["fileorder"] if p["kind"] == "THETA"]
    om = {(p["i"], p["j"]): p for p in run["fileorder"] if p["kind"] == "OMEGA"}
    sg = {(p["i"], p["j"]): p for p in run["fileorder"] if p["kind"] == "SIGMA"}
    neta = max(i for i, _ in om)
    neps = max(i for i, _ in sg)
    mu = run["phikind"] == "PHI"  # EM run: mu-referenced model, PHI(1) = MU_1 + ETA(1)
    y = " + ".join([("MU_1" if mu and p["i"] == 1 else f"THETA({p['i']})") for p in th] + [f"ETA({i})" for i in range(1, neta + 1)] + [f"EPS({i})" for i in range(1, neps + 1)])
    code = ["$PROBLEM synthetic run", "$INPUT ID TIME DV", "$DATA data.csv IGNORE=@", "$PRED"] + (["MU_1 = THETA(1)"] if mu else []) + [f"Y = {y}"]
    for p in th:
        name = {1: " ; TVCL"}.get(p["i"], "")
        # a fixed theta has the value the .ext file shows for it (50 + position in the file)
        code.append(f"$THETA {str(50 + p['i']) + ' FIX' if p['fix'] else '(-100,1.5,100)'}{name}")

    def matrix(rec, pars, n, com):
        blocks, cur = [], [1]
        for i in range(2, n + 1):
            if pars[(i, cur[0])]["used"]:
                cur.append(i)
            else:
                blocks.append(cur)
                cur = [i]
        blocks.append(cur)
        for b in blocks:
            fix = " FIX" if pars[(b[0], b[0])]["fix"] else ""
            if len(b) == 1:
                code.append(f"${rec} 0.5{fix}" + (com if b[0] == 1 else ""))
            else:
                code.append(f"${rec} BLOCK({len(b)}){fix}")
                for r, i in enumerate(b):
                    code.append(" " + " ".join("0.5" if j == i else "0.1" for j in b[: r + 1]) + (com if i == 1 else ""))

    matrix("OMEGA", om, neta, " ; IVCL")
    matrix("SIGMA", sg, neps, "")
    for k, tab in enumerate(run["ext"]):
        code.append("$ESTIMATION METHOD=1 INTER MAXEVAL=9999" if tab["no"] == 1 else "$ESTIMATION METHOD=IMP INTER NITER=5")
    if 1 in run["ext"][-1]["codes"]:
        code.append("$COVARIANCE")
    if "tabrec" in run:
        t = run["tabrec"]
        code.append("$TABLE " + " ".join(t["listed"]) + (" NOAPPEND" if t["noappend"] else "") + " NOPRINT ONEHEADER FILE=sdtab1")
    elif "sdtab" in run:
        code.append("$TABLE ID PRED RES NOAPPEND NOPRINT FILE=sdtab1")
    if run["dtab"]["on"]:  # a $DESIGN problem after the estimation problem (cf. tests/testdata/nonmem/pheno_design.mod)
        code += ["$PROBLEM DESIGN", "$DATA data.csv IGNORE=@ REWIND", "$INPUT ID TIME DV", "$MSFI run1.msf", "$DESIGN APPROX=FO FIMDIAG=1 GROUPSIZE=1 OFVTYPE=1"]
    return "\n".join(code) + "\n"


_MODELS: dict = {}


def get_model(run):
    from pharmpy.model.external.nonmem import parse_model

    code = model_code(run)
    if code not in _MODELS:
        _MODELS[code] = parse_model(code)
    return _MODELS[code]


def model_names(model, run):
    """the model's parameter for every NONMEM label, derived from the model itself: k-th theta,
    symbol at (i,j) of the eta / epsilon covariance matrix"""
    rvs = model.random_variables
    rvsyms = {s.name for s in rvs.free_symbols}
    thetas = [p.name for p in model.parameters if p.name not in rvsyms]
    om = rvs.etas.covariance_matrix
    sg = rvs.epsilons.covariance_matrix
    out = []
    for p in run["reportorder"]:
        if p["kind"] == "THETA":
            out.append(thetas[p["i"] - 1])
        else:
            m = om if p["kind"] == "OMEGA" else sg
            e = m[p["i"] - 1, p["j"] - 1]
            out.append(e.name if p["used"] else None)
    return out


# ----------------------------------------------------------------------------- comparisons


class Bad(Exception):
    def __init__(self, outcome, what):
        self.outcome, self.what = outcome, what


def close(a, b, rel=1e-12):
    a, b = float(a), float(b)
    return a == b or abs(a - b) <= rel * max(abs(a), abs(b))


def want(cond, outcome, what):
    if not cond:
        raise Bad(outcome, what)


def series_eq(ser, labels, values, outcome, what, rel=1e-12):
    want(list(ser.index) == list(labels), outcome, f"{what}: labels {list(ser.index)} != {list(labels)}")
    for lab, v in zip(labels, values):
        want(close(ser[lab], v, rel), outcome, f"{what}: {lab} = {ser[lab]!r}, written {v!r}")


def write_gen(path, tabs, cols):
    out = []
    for tab in tabs:
        out.append(f"TABLE NO.{tab['no']:3d}\n")
        hdr = " " + "".join(f"{c:<12}" for c in cols).rstrip() + "\n"
        out.append(hdr)
        for r, row in enumerate(tab["rows"], start=1):
            out.append("".join(efmt(float(v), 12, 4) for v in row) + "\n")
            if r in tab["rep"]:
                out.append(hdr)
    path.write_text("".join(out))


def check_gen(case, d):
    from pharmpy.model.external.nonmem.table import NONMEMTableFile

    cols = ["ID", "TIME", "IPRED"]
    path = d / "sdtab"
    write_gen(path, case["tabs"], cols)
    tf = NONMEMTableFile(path)
    want(len(tf) == len(case["tabs"]), "table_count", f"{len(tf)} tables read, {len(case['tabs'])} written")
    for t, tab in zip(tf, case["tabs"]):
        want(t.number == tab["no"], "table_number", f"table number {t.number} != {tab['no']}")
        df = t.data_frame
        want(list(df.columns) == cols, "header", f"columns {list(df.columns)} != {cols}")
        want(len(df) == tab["nrows"], "row_count", f"table {tab['no']}: {len(df)} rows read, {tab['nrows']} written (repeated headers after rows {tab['rep']})")
        for r, row in enumerate(tab["rows"]):
            for c, v in zip(cols, row):
                got = df[c].iloc[r]
                want(isinstance(got, (int, float)) or hasattr(got, "dtype") and got.dtype.kind in "fi", "value_type", f"value {got!r} is not numeric")
                want(close(got, v), "value", f"table {tab['no']} row {r + 1} {c} = {got!r}, written {v}")
        want(tf.table_no(tab["no"]) is t, "table_no", "table_no() does not find the table")
    return len(case["tabs"])


def check_tab(case, d):
    """$TABLE column layout: the values pharmpy reports under a label are the values written under that label"""
    from pharmpy.tools.external.nonmem.results import parse_modelfit_results

    tab = case["tab"]
    run = dict(case["base"], tabrec={"listed": tab["listed"], "noappend": tab["noappend"]})
    run.pop("sdtab", None)
    write_ext(d / "run1.ext", run)
    write_phi(d / "run1.phi", run)
    write_lst(d / "run1.lst", run)
    (d / "run1.mod").write_text(model_code(run))
    write_gen(d / "sdtab1", [{"no": 1, "rows": tab["rows"], "rep": []}], tab["layout"])
    res = parse_modelfit_results(get_model(run), d / "run1.mod")
    want(res is not None, "no_results", "parse_modelfit_results returned None")
    for attr, labels in (("predictions", ("PRED", "IPRED")), ("residuals", ("RES", "WRES", "CWRES"))):
        exp = [l for l in labels if l in tab["layout"]]
        df = getattr(res, attr)
        if not exp:
            want(df is None or len(df.columns) == 0, attr + "_unexpected", f"{attr} {None if df is None else list(df.columns)} reported, the table has none of {labels}")
            continue
        want(df is not None and sorted(df.columns) == sorted(exp), attr + "_columns",
             f"{attr} columns {None if df is None else list(df.columns)} != {exp} (table layout {tab['layout']})")
        want(len(df) == len(tab["rows"]), attr + "_rows", f"{len(df)} {attr} rows, {len(tab['rows'])} records written")
        for l in exp:
            for r, v in enumerate(tab["bylabel"][l]):
                want(close(df[l].iloc[r], v), attr, f"{l} of record {r + 1} = {df[l].iloc[r]!r}, the column labelled {l} has {v} ($TABLE {' '.join(tab['listed'])}{' NOAPPEND' if tab['noappend'] else ''}; file columns {tab['layout']})")


def check_ext_tables(run, path):
    from pharmpy.model.external.nonmem.table import ExtTable, NONMEMTableFile

    tf = NONMEMTableFile(path)
    labels = [report_label(p) for p in run["reportorder"]]
    dt = run["dtab"]
    want(len(tf) == len(run["ext"]) + (1 if dt["on"] else 0), "ext_table_count", f"{len(tf)} tables in .ext, {len(run['ext']) + (1 if dt['on'] else 0)} written")
    if dt["on"]:
        t = tf[len(run["ext"])]
        want(isinstance(t, ExtTable), "ext_type", "not an ExtTable")
        check_meta(t, dt["no"], dt["meta"], f".ext table {dt['no']} (design)")
        want(len(t.data_frame) == len(dt["rows"]), "ext_row_count", f"design table: {len(t.data_frame)} rows, {len(dt['rows'])} written")
    for t, tab, meta in zip(tf, run["ext"], run["metas"]):
        want(isinstance(t, ExtTable), "ext_type", "not an ExtTable")
        check_meta(t, tab["no"], meta, f".ext table {tab['no']}")
        df = t.data_frame
        want(list(df.columns) == ["ITERATION"] + labels + ["OBJ"], "ext_columns", f"columns {list(df.columns)}")
        want(len(df) == len(tab["rows"]), "ext_row_count", f"{len(df)} rows, {len(tab['rows'])} written")
        want(t.iterations == tab["iters"], "ext_iterations", f"iterations {t.iterations} != {tab['iters']}")

        def prop(name, exp, getter, thetas=True):
            labs = labels if thetas else [l for l in labels if not l.startswith("THETA")]
            try:
                got = getter()
            except KeyError:
                want(exp["err"] == "KeyError", name + "_keyerror", f"table {tab['no']} ({tab['rowset']}): {name} raised KeyError although its row is present")
                return
            want(exp["err"] == "", name + "_no_keyerror", f"table {tab['no']} ({tab['rowset']}): {name} returned a value although its row is absent")
            vals = [real(v) for v in exp["vals"] if v != DROPPED]
            series_eq(got, labs, vals, name, f"table {tab['no']} ({tab['rowset']}) {name}")

        prop("final_parameter_estimates", tab["final"], lambda: t.final_parameter_estimates)
        prop("standard_errors", tab["se"], lambda: t.standard_errors)
        prop("omega_sigma_stdcorr", tab["sdcorr"], lambda: t.omega_sigma_stdcorr, thetas=False)
        prop("omega_sigma_se_stdcorr", tab["sesdcorr"], lambda: t.omega_sigma_se_stdcorr, thetas=False)
        try:
            fx = t.fixed
            want(tab["fixed"]["err"] == "", "fixed_no_keyerror", "fixed returned a value although row -1000000006 is absent")
            want(list(fx.index) == labels and [bool(x) for x in fx] == [v == 1 for v in tab["fixed"]["vals"]], "fixed",
                 f"table {tab['no']} fixed flags {dict(fx)} != {dict(zip(labels, tab['fixed']['vals']))}")
        except KeyError:
            want(tab["fixed"]["err"] == "KeyError", "fixed_keyerror", "fixed raised KeyError although row -1000000006 is present")
        try:
            cn = t.condition_number
            want(tab["cond"]["err"] == "" and close(cn, tab["cond"]["v"]), "condition_number", f"condition number {cn} != {tab['cond']}")
        except KeyError:
            want(tab["cond"]["err"] == "KeyError", "condition_number_keyerror", "condition_number raised KeyError although row -1000000003 is present")
        want(close(t.final_ofv, tab["final_ofv"]), "final_ofv", f"table {tab['no']} ({tab['rowset']}) final_ofv {t.final_ofv} != {tab['final_ofv']}")
        try:
            io = t.initial_ofv
            want(tab["initial_ofv"]["err"] == "" and close(io, tab["initial_ofv"]["v"]), "initial_ofv", f"initial_ofv {io} != {tab['initial_ofv']}")
        except KeyError:
            want(tab["initial_ofv"]["err"] == "KeyError", "initial_ofv_keyerror", "initial_ofv raised KeyError")


def check_cov_table(run, path):
    from pharmpy.model.external.nonmem.table import CovTable, NONMEMTableFile

    tf = NONMEMTableFile(path)
    want(len(tf) == 1 and isinstance(tf[0], CovTable), "cov_table", "not a single CovTable")
    check_meta(tf[0], run["ext"][-1]["no"], plain(run["metas"][-1]), path.suffix)
    df = tf[0].data_frame
    labels = [report_label(run["reportorder"][k - 1]) for k in run["covidx"]]
    want(list(df.index) == labels and list(df.columns) == labels, "cov_labels", f".cov labels {list(df.index)} / {list(df.columns)} != {labels}")
    for a, la in enumerate(labels):
        for b, lb in enumerate(labels):
            want(close(df.loc[la, lb], run["cov"][a][b]), "cov_value", f".cov[{la},{lb}] = {df.loc[la, lb]}, written {run['cov'][a][b]}")


def check_phi_tables(run, path):
    from pharmpy.model.external.nonmem.table import NONMEMTableFile, PhiTable

    tf = NONMEMTableFile(path)
    dt = run["dtab"]
    want(len(tf) == len(run["phi"]) + (1 if dt["on"] else 0), "phi_table_count", f"{len(tf)} tables in .phi")
    pre = "PHI" if run["phikind"] == "PHI" else "ETA"
    if dt["on"]:
        check_meta(tf[len(run["phi"])], dt["no"], plain(dt["meta"]), f".phi table {dt['no']} (design)")
    for t, tab, meta, phi in zip(tf, run["ext"], run["metas"], run["phi"]):
        want(isinstance(t, PhiTable), "phi_table", "not a PhiTable")
        check_meta(t, tab["no"], plain(meta), f".phi table {tab['no']}")
        exp = phi["expected"]
        n = len(exp[0]["eta"])
        ids = [e["id"] for e in exp]
        etas = t.etas
        want(list(etas.index) == ids, "phi_ids", f"individuals {list(etas.index)} != {ids} (all-zero individuals are not reported)")
        want(list(etas.columns) == [f"{pre}({i})" for i in range(1, n + 1)], "phi_eta_columns", f"eta columns {list(etas.columns)}")
        iofv = t.iofv
        want(list(iofv.index) == ids, "phi_iofv_ids", f"iofv ids {list(iofv.index)}")
        etcs = t.etcs
        want(list(etcs.index) == ids, "phi_etc_ids", f"etc ids {list(etcs.index)}")
        for q, e in enumerate(exp):
            for i in range(n):
                want(close(etas.iloc[q, i], e["raw"][i]), "phi_eta", f"id {e['id']} {pre}({i + 1}) = {etas.iloc[q, i]}, written {e['raw'][i]}")
            want(close(iofv.iloc[q], e["obj"]), "phi_iofv", f"id {e['id']} OBJ {iofv.iloc[q]} != {e['obj']}")
            m = etcs.iloc[q]
            want(list(m.index) == [f"ETA({i})" for i in range(1, n + 1)], "phi_etc_labels", f"etc labels {list(m.index)}")
            for i in range(n):
                for j in range(n):
                    want(close(m.iloc[i, j], e["etc"][i][j]), "phi_etc", f"id {e['id']} ETC({i + 1},{j + 1}) = {m.iloc[i, j]}, written {e['etc'][i][j]}")


def check_results(run, d, mats, nothing_checked):
    import numpy as np
    import pandas as pd

    from pharmpy.tools.external.nonmem.results import parse_modelfit_results
    from pharmpy.workflows.results import ModelfitResults, read_results

    model = get_model(run)
    names = model_names(model, run)
    res = parse_modelfit_results(model, d / "run1.mod")
    want(isinstance(res, ModelfitResults), "no_results", f"parse_modelfit_results returned {res!r}")
    last = run["ext"][-1]
    kept = [k for k, f in enumerate(run["runfixed"]) if not f]
    knames = [names[k] for k in kept]
    want(all(n is not None for n in knames), "machinery", "an estimated parameter without a model name")
    aborted = last["rowset"] == "abort"
    if aborted:
        # no -1000000000 row: ExtTable documents the fallback to the last iteration, parse_modelfit_results reports a
        # failed run (NaN); the property only speaks about designated rows -> both admitted, labels still checked
        pe = res.parameter_estimates
        want(list(pe.index) == knames, "parameter_estimates", f"parameter_estimates labels {list(pe.index)} != {knames}")
        want(all(math.isnan(x) or close(x, real(last["final"]["vals"][k])) for x, k in zip(pe, kept)), "parameter_estimates",
             f"aborted run: parameter_estimates {dict(pe)} are neither NaN nor the last iteration")
        want(math.isnan(res.ofv) or close(res.ofv, last["final_ofv"]), "ofv", f"aborted run: ofv {res.ofv}")
    else:
        series_eq(res.parameter_estimates, knames, [real(last["final"]["vals"][k]) for k in kept], "parameter_estimates",
                  f"parameter_estimates (last step {last['rowset']})")
        want(close(res.ofv, last["final_ofv"]), "ofv", f"ofv {res.ofv} != {last['final_ofv']}")
    ses = res.standard_errors
    design = run["dtab"]["on"]
    if design:
        pass  # the expected standard errors of the design table: which table they are reported from is not judged
    elif run["has_se"]:
        want(ses is not None, "standard_errors_missing", "no standard errors although rows -1000000001/-1000000005 are present")
        series_eq(ses, knames, [real(last["se"]["vals"][k]) for k in kept], "standard_errors", "standard_errors")
        rse = res.relative_standard_errors
        series_eq(rse, knames, [real(last["se"]["vals"][k]) / real(last["final"]["vals"][k]) for k in kept], "relative_standard_errors", "relative_standard_errors")
        sdse = res.standard_errors_sdcorr
        exp = [real(last["se"]["vals"][k]) if run["reportorder"][k]["kind"] == "THETA" else real(last["sesdcorr"]["vals"][k]) for k in kept]
        series_eq(sdse, knames, exp, "standard_errors_sdcorr", "standard_errors_sdcorr")
    else:
        want(ses is None or bool(ses.isnull().all()), "standard_errors_unexpected", f"standard errors {None if ses is None else dict(ses)} reported although NONMEM wrote none")
    if last["sdcorr"]["err"] == "":
        exp = [real(last["final"]["vals"][k]) if run["reportorder"][k]["kind"] == "THETA" else real(last["sdcorr"]["vals"][k]) for k in kept]
        series_eq(res.parameter_estimates_sdcorr, knames, exp, "parameter_estimates_sdcorr", "parameter_estimates_sdcorr")
    aux = 0
    # covariance step
    if design:
        pass
    elif run["has_se"]:
        cnames = [names[k - 1] for k in run["covidx"]]
        cov = res.covariance_matrix
        src = "cov" if "cov" in mats else "cor" if "cor" in mats else "coi"
        want(src == run.get("covsrc", "cov"), "machinery", "source of the covariance matrix differs from the specification's CovSource")
        how = {"cov": "read from .cov", "cor": "no .cov file: derived from .cor and the standard errors (D cor D)", "coi": "no .cov / .cor file: derived from .coi (inverse)"}[src]
        want(cov is not None, "covariance_missing", f"no covariance matrix although the covariance step succeeded and {'/'.join('.' + m for m in mats)} exist")
        want(list(cov.index) == cnames and list(cov.columns) == cnames, "covariance_labels", f"covariance labels {list(cov.index)} != {cnames}")
        E = np.array(run["cov"], dtype=float)

        def tol_of(name):
            # exact for the integer .cov alone; printed precision when the quantity or .cov is read next to other files;
            # a quantity derived by inversion from printed values: 1e-3
            if mats == ["cov"]:
                return 1e-9
            if name in mats or "cov" in mats or (name, src) == ("cov", "cor"):
                return 2e-5
            return 1e-3

        if src == "cov":
            want(np.allclose(cov.values, E, rtol=1e-12, atol=0), "covariance_values", f"covariance matrix {cov.values.tolist()} != written {run['cov']}")
        else:
            t = tol_of("cov")
            want(np.allclose(cov.values, E, rtol=t, atol=t * float(np.abs(E).max())), "covariance_derived",
                 f"covariance matrix {np.round(cov.values, 6).tolist()} != {run['cov']} NONMEM computed ({how})")
            want(np.allclose(cov.values, cov.values.T, rtol=1e-9, atol=1e-12), "covariance_derived", f"covariance matrix not symmetric ({how})")
        cor, coi = res.correlation_matrix, res.precision_matrix
        want(cor is not None and coi is not None, "cor_coi_missing", "correlation / precision matrix missing")
        want(list(cor.index) == cnames and list(coi.index) == cnames and list(cor.columns) == cnames and list(coi.columns) == cnames, "cor_coi_labels", "labels of cor / coi")
        # auxiliary float relations (printed precision when read from the files)
        D = np.sqrt(np.diag(E))
        aux += 1
        tol = tol_of("cor")
        want(np.allclose(cor.values, E / np.outer(D, D), rtol=tol, atol=tol), "cor_relation", f"correlation matrix != D^-1 cov D^-1 (files {mats})")
        tol = tol_of("coi")
        want(np.allclose(coi.values, np.linalg.inv(E), rtol=tol, atol=tol * 1e-2), "coi_relation", f"precision matrix != cov^-1 (files {mats})")
        want(np.allclose(np.diag(cor.values), 1.0, atol=1e-12), "cor_diagonal", "diagonal of the correlation matrix is not 1")
        want(np.allclose(np.array([ses[n] for n in cnames]), D, rtol=1e-12), "se_relation", "standard errors != sqrt(diag(cov))")
    else:
        want(res.covariance_matrix is None, "covariance_unexpected", "a covariance matrix is reported although the covariance step did not complete")
    # $TABLE output (a TLC table with repeated headers) -> predictions / residuals
    if "sdtab" in run:
        tab = run["sdtab"]
        pred = res.predictions
        want(pred is not None and list(pred.columns) == ["PRED"], "predictions_columns", f"predictions {None if pred is None else list(pred.columns)}")
        want(len(pred) == tab["nrows"], "predictions_rows", f"{len(pred)} prediction rows, {tab['nrows']} records in the table file (repeated headers after rows {tab['rep']})")
        for r, row in enumerate(tab["rows"]):
            want(close(pred["PRED"].iloc[r], row[1]), "predictions", f"PRED of record {r + 1} = {pred['PRED'].iloc[r]!r}, written {row[1]}")
        resid = res.residuals
        if resid is not None:
            exp = [row[2] for row in tab["rows"] if row[2] != 0]
            want([float(x) for x in resid["RES"]] == [float(x) for x in exp], "residuals", f"RES {list(resid['RES'])} != non-zero residuals written {exp}")
    # individual estimates from the last .phi table
    phi = run["phi"][-1]["expected"]
    etan = list(model.random_variables.etas.names)
    ids = [e["id"] for e in phi]
    ie = res.individual_estimates
    want(ie is not None and list(ie.index) == ids and list(ie.columns) == etan, "individual_estimates_labels",
         f"individual_estimates index/columns {None if ie is None else (list(ie.index), list(ie.columns))} != {(ids, etan)}")
    iec = res.individual_estimates_covariance
    iofv = res.individual_ofv
    want(list(iec.index) == ids and list(iofv.index) == ids, "individual_ids", "ids of iec / iofv")
    for q, e in enumerate(phi):
        for i in range(len(etan)):
            if aborted and run["phikind"] == "PHI":
                continue  # MU_1 at NaN estimates: unspecified
            want(close(ie.iloc[q, i], e["eta"][i]), "individual_estimates",
                 f"id {e['id']} {etan[i]} = {ie.iloc[q, i]}, expected {e['eta'][i]} (= {run['phikind']}({i + 1}) {e['raw'][i]} - MU_{i + 1} at the final estimates)")
            for j in range(len(etan)):
                want(close(iec.iloc[q].iloc[i, j], e["etc"][i][j]), "individual_estimates_covariance", f"id {e['id']} ETC({i + 1},{j + 1}) = {iec.iloc[q].iloc[i, j]}")
        want(list(iec.iloc[q].index) == etan, "iec_labels", f"iec labels {list(iec.iloc[q].index)}")
        want(close(iofv.iloc[q], e["obj"]), "individual_ofv", f"id {e['id']} iofv {iofv.iloc[q]} != {e['obj']}")
    # JSON round trip
    back = read_results(res.to_json())
    want(type(back) is type(res), "json_type", f"read_results gives {type(back).__name__}")
    for field in ("parameter_estimates", "standard_errors", "relative_standard_errors", "parameter_estimates_sdcorr", "standard_errors_sdcorr",
                  "covariance_matrix", "correlation_matrix", "precision_matrix", "individual_estimates", "individual_ofv",
                  "ofv_iterations", "parameter_estimates_iterations", "minimization_successful_iterations", "evaluation"):
        a, b = getattr(res, field), getattr(back, field)
        if a is None or b is None:
            want(a is None and b is None, "json_" + field, f"{field}: {type(a).__name__} became {type(b).__name__}")
            continue
        try:
            if isinstance(a, pd.DataFrame):
                pd.testing.assert_frame_equal(a, b, check_dtype=False, check_index_type=False, check_column_type=False, rtol=1e-13, atol=5e-15, check_names=False)
            else:
                pd.testing.assert_series_equal(a, b, check_dtype=False, check_index_type=False, rtol=1e-13, atol=5e-15, check_names=False)
        except AssertionError as ex:
            raise Bad("json_" + field, f"{field} differs after to_json/read_results: {str(ex)[:200]}")
    for field in ("ofv", "minimization_successful", "covstep_successful", "function_evaluations", "significant_digits", "termination_cause", "runtime_total", "warnings"):
        a, b = getattr(res, field), getattr(back, field)
        same = (a == b) or (isinstance(a, float) and isinstance(b, float) and math.isnan(a) and math.isnan(b))
        want(same, "json_" + field, f"{field}: {a!r} became {b!r}")
    a, b = res.individual_estimates_covariance, back.individual_estimates_covariance
    want(list(a.index) == list(b.index), "json_iec", "iec index after round trip")
    for x, y in zip(a, b):
        try:
            pd.testing.assert_frame_equal(x, y, check_dtype=False, rtol=1e-13, atol=5e-15)
        except AssertionError as ex:
            raise Bad("json_iec", f"individual_estimates_covariance differs after round trip: {str(ex)[:200]}")
    return aux


LOG_MESSAGES = ["Broken table in ext-file run1.ext, table no. {i}", "MINIMIZATION TERMINATED\nDUE TO ROUNDING ERRORS (ERROR=134) [{i}]",
                "PARAMETER ESTIMATE IS NEAR ITS BOUNDARY ({i})", "  leading blanks, \"quotes\", unicode \u00e5\u00e4\u00f6 and a trailing blank {i} "]


def log_case(case):
    """a ModelfitResults whose log has the entries TLC lists (order, category, time stamp, message verbatim)
    next to numeric content, through to_json / read_results as a string and as a file"""
    import pandas as pd

    from pharmpy.workflows import Log
    from pharmpy.workflows.results import ModelfitResults, read_results

    log = Log()
    for e in case["entries"]:
        msg = LOG_MESSAGES[e["msg"] % len(LOG_MESSAGES)].format(i=e["msg"])
        log = log.log_error(msg) if e["cat"] == "ERROR" else log.log_warning(msg)
    want([(x.category, x.message) for x in log] == [(e["cat"], LOG_MESSAGES[e["msg"] % len(LOG_MESSAGES)].format(i=e["msg"])) for e in case["entries"]],
         "log_build", "the log does not hold the entries in the order they were logged")
    res = ModelfitResults(ofv=-12.5, parameter_estimates=pd.Series({"A": 1.0, "B": -2.0}, name="estimates"), minimization_successful=False, log=log)
    with tempfile.TemporaryDirectory(dir=str(core.WORK), prefix="c20log-") as tmp:
        f = Path(tmp) / "results.json"
        res.to_json(f)
        backs = {"string": read_results(res.to_json()), "file": read_results(f)}
    for how, back in backs.items():
        want(back.ofv == res.ofv and list(back.parameter_estimates) == [1.0, -2.0], "log_numeric", f"{how}: numeric content changed")
        got = [(x.category, x.message, x.time) for x in back.log]
        exp = [(x.category, x.message, x.time) for x in log]
        want(len(got) == len(exp), "log_length", f"{how}: {len(got)} log entries after the round trip, {len(exp)} before")
        for k, (g, e) in enumerate(zip(got, exp)):
            want(g == e, "log_entry", f"{how}: log entry {k} of {len(exp)} is {g[0]} {g[1]!r} ({g[2]}), was {e[0]} {e[1]!r} ({e[2]})")


def json_precision_case(case):
    """read_results(to_json(r)) == r for a value that is not a small integer (relative 1e-12)"""
    import pandas as pd

    from pharmpy.workflows.results import ModelfitResults, read_results

    x = case["num"] / case["den"] * 10.0 ** (-case["exp"])
    r = ModelfitResults(parameter_estimates=pd.Series({"A": x, "B": 1.0}, name="estimates"), ofv=x)
    b = read_results(r.to_json())
    want(close(b.ofv, x, 1e-12), "json_scalar_precision", f"ofv {x!r} became {b.ofv!r}")
    got = b.parameter_estimates["A"]
    want(close(got, x, 1e-12), "json_series_precision", f"a Series value {x!r} became {got!r} after to_json/read_results (15 decimal places are kept, not 15 significant digits)")


def apply_scale(case, s):
    """The covariance step of the abstract run in smaller units: standard errors x 10^-s, covariances x 10^-2s
    (the writer's choice of unit; the correlation matrix D^-1 cov D^-1 does not depend on it)."""
    import copy

    c = copy.deepcopy(case)
    f1, f2 = 10.0 ** (-s), 10.0 ** (-2 * s)

    def sc(v):
        return v if v == BIGTOKEN else v * f1

    for tab in c["ext"]:
        for row in tab["rows"]:
            if row["special"] and row["n"] == 1:
                row["vals"] = [sc(v) for v in row["vals"]]
        if tab["se"]["err"] == "":
            tab["se"]["vals"] = [sc(v) for v in tab["se"]["vals"]]
    c["covfile"] = [[v * f2 for v in row] for row in c["covfile"]]
    c["cov"] = [[v * f2 for v in row] for row in c["cov"]]
    return c


def run_case(arg):
    kind, case, seed = arg
    rng = random.Random(seed)
    d = Path(tempfile.mkdtemp(prefix="c20-", dir=str(core.WORK)))
    record = {"kind": kind, "stage": None, "outcome": None, "seed": seed, "case": case}
    if kind == "RUN":
        last = case["ext"][-1]
        record.update(cfg=case["cfg"], steps=len(case["ext"]), last_rowset=last["rowset"], rowsets=[t["rowset"] for t in case["ext"]],
                      phikind=case["phikind"], zero=case["zero"], zeta=case["zeta"], design=case["design"])
    aux = 0
    try:
        if kind == "GEN":
            record["stage"] = "table_file"
            check_gen(case, d)
        elif kind == "LOG":
            record["stage"] = "json_log"
            record["entries"] = case["n"]
            log_case(case)
        elif kind == "HDR":
            record["stage"] = "title_line"
            record.update(goal=case["meta"]["goal"], design=case["meta"]["design"])
            check_hdr(case, d)
        elif kind == "TAB":
            record["stage"] = "table_columns"
            record.update(noappend=case["tab"]["noappend"], listed=case["tab"]["listed"])
            check_tab(case, d)
        elif kind == "JSONP":
            record["stage"] = "json"
            record["small"] = case["exp"] >= 3
            json_precision_case(case)
        else:
            write_ext(d / "run1.ext", case)
            write_phi(d / "run1.phi", case)
            write_lst(d / "run1.lst", case)
            (d / "run1.mod").write_text(model_code(case))
            (d / "data.csv").write_text("ID,TIME,DV\n1,0,1\n3,0,2\n7,0,3\n")
            if "sdtab" in case:
                write_gen(d / "sdtab1", [dict(case["sdtab"], no=1)], ["ID", "PRED", "RES"])
            mats = sorted(case.get("mats", ["cov"]))
            if 1 in last["codes"]:
                import numpy as np

                # which matrix files are in the directory is part of the abstract run (NMTable.tla MatSets)
                record["mats"] = "+".join(mats)
                record["covsrc"] = case.get("covsrc", "cov")
                if mats == ["cov"] and rng.random() < 0.6:
                    record["scale"] = 5
                    case = apply_scale(case, 5)
                    last = case["ext"][-1]
                    write_ext(d / "run1.ext", case)
                if "cov" in mats:
                    write_cov(d / "run1.cov", case, case["covfile"])
                if "cor" in mats or "coi" in mats:  # .cor has the sd on the diagonal; zero rows for fixed parameters
                    F = np.array(case["covfile"], dtype=float)
                    nz = [k for k in range(len(F)) if F[k].any()]
                    sub = F[np.ix_(nz, nz)]
                    sd = np.sqrt(np.diag(sub))
                    cor = sub / np.outer(sd, sd)
                    np.fill_diagonal(cor, sd)
                    coi = np.linalg.inv(sub)
                    for nm, M in (("cor", cor), ("coi", coi)):
                        if nm not in mats:
                            continue
                        full = np.zeros_like(F)
                        full[np.ix_(nz, nz)] = M
                        write_cov(d / f"run1.{nm}", case, full.tolist())
            record["stage"] = "ext_table"
            check_ext_tables(case, d / "run1.ext")
            if 1 in last["codes"] and "cov" in mats:
                record["stage"] = "cov_table"
                check_cov_table(case, d / "run1.cov")
            record["stage"] = "phi_table"
            check_phi_tables(case, d / "run1.phi")
            record["stage"] = "results"
            aux = check_results(case, d, mats, None)
    except Bad as b:
        record["outcome"] = b.outcome
        return ("violation", record, b.what, aux)
    except core.MachineryError:
        raise
    except Exception as e:
        record["outcome"] = type(e).__name__
        import traceback

        tb = traceback.extract_tb(e.__traceback__)
        where = next((f"{Path(f.filename).name}:{f.lineno}" for f in reversed(tb) if "/pharmpy/" in f.filename), "")
        record["where"] = where.split(":")[0]
        return ("violation", record, f"{record['stage']}: {type(e).__name__}: {str(e)[:200]} ({where})", aux)
    finally:
        shutil.rmtree(d, ignore_errors=True)
    return ("ok", record, None, aux)


def main(tier: str, seed: int) -> int:
    v = core.Verdict("C20", tier, seed)
    v.assumptions = [
        "files are rendered by the driver's reference writer in NONMEM's default fixed-width formats (docs/NONMEM.rst, tests/testdata/nonmem/pheno_real.*): header ' ' + names left justified in 13, ITERATION/SUBJECT_NO/ID I13, values 1PE13.5, OBJ plain decimal in 22, $TABLE values 1PE12.4",
        "abstract values are small integers, so printed precision is exact; ITERATION codes and the 1.00000E+10 token are symbolic in the specification (32-bit TLC integers) and mapped by the writer",
        "the .lst file is a minimal template that only states NONMEM version, #TBLN/#TERM/#TERE tags and whether the covariance step ran (the .lst reader is not modelled)",
        "cor = D^-1 cov D^-1, coi = cov^-1 are auxiliary float assertions on the integer-valued matrices",
    ]
    d = core.scratch("c20")
    try:
        cfg = _cfg(d / "NMTable.cfg", TIERS[tier])
        res = core.run_tlc(SPEC / "NMTable.tla", cfg, workers=8, timeout=5000, coverage=False)
        core.require_ok(res, "NMTable.tla")
        if res.violated:
            raise core.MachineryError(f"NMTable.tla: design-level invariant {res.violated} violated:\n" + "\n".join(res.trace[-2:])[:3000])
        core.tlc_stats_into(v, res)
    finally:
        shutil.rmtree(d, ignore_errors=True)
    tabs = [c for tag, c in res.prints if tag == "TAB"]
    hdrs = [c for tag, c in res.prints if tag == "HDR"]
    logs = [c for tag, c in res.prints if tag == "LOG"]
    if {c["n"] for c in logs} != {0, 1, 10, 11, 14}:
        raise core.MachineryError(f"NMTable.tla emitted log sizes {sorted({c['n'] for c in logs})}")
    gens = [c for tag, c in res.prints if tag == "GEN"]
    runs = [c for tag, c in res.prints if tag == "RUN"]
    res.out, res.prints = "", []
    # vacuity: every kind of line / special row / outcome class must occur
    rowsets = {t["rowset"] for r in runs for t in r["ext"]}
    if not gens or not runs or rowsets != {"full", "nocov", "abort", "nm72", "covabort"} or not any(t["rep"] for g in gens for t in g["tabs"]) \
            or not any(len(r["ext"]) > 1 for r in runs) or not any(any(r["runfixed"]) for r in runs) or {r["phikind"] for r in runs} != {"ETA", "PHI"} or not any(r["zeta"] for r in runs) or not any(r["design"] for r in runs) \
            or not any(h["meta"]["goal"] for h in hdrs) or not any(not h["meta"]["goal"] and h["meta"]["design"] for h in hdrs) \
            or not any(t["noappend"] for t in tabs) or not any(not t["noappend"] and "DV" in t["listed"] for t in tabs):
        raise core.MachineryError(f"NMTable.tla emitted a vacuous case set: {len(gens)} table files, {len(runs)} runs, row sets {rowsets}")
    core.use_repo()
    import pharmpy.modeling  # noqa: F401
    import pharmpy.tools  # noqa: F401

    rng = random.Random(seed)
    n_emitted = len(runs)
    base = min((r for r in runs if len(r["ext"]) == 1 and r["ext"][0]["rowset"] == "nocov"),
               key=lambda r: (r["phikind"] != "ETA", json.dumps(r["cfg"], sort_keys=True)))
    if tier == "quick":
        # every class (parameter configuration x special rows of the last step) once, the member
        # chosen by VERIF_SEED, plus every (phi variant x iterations x first-step rows) combination and a random rest
        rng.shuffle(runs)
        picked, seen = [], set()
        for r in runs:
            keys = [("cfg", json.dumps(r["cfg"], sort_keys=True), r["ext"][-1]["rowset"]),
                    ("design", r["design"], r["cfg"]["om"], r["cfg"]["fix"], len(r["ext"]), r["phikind"], r["zero"]),
                    ("phi", r["phikind"], r["zero"], r["zeta"], r["ext"][-1]["rowset"], r["cfg"]["om"]),
                    ("steps", tuple(t["rowset"] for t in r["ext"]), tuple(r["ext"][0]["iters"]))]
            if r["has_se"] and not r["design"]:  # which matrix files are present x structure of the matrix
                keys.append(("mats", tuple(r.get("mats", [])), r["cfg"]["om"], r["cfg"]["fix"]))
            if any(k not in seen for k in keys):
                seen.update(keys)
                picked.append(r)
        rest = [r for r in runs if not any(r is p for p in picked)]
        runs = picked + rest[:60]
    singles = [g["tabs"][0] for g in gens if len(g["tabs"]) == 1]
    for r in runs:  # the $TABLE file of the run directory is one of TLC's single-table files
        r["sdtab"] = rng.choice(singles)
    work = [("GEN", c, rng.randrange(1 << 30)) for c in gens] + [("RUN", c, rng.randrange(1 << 30)) for c in runs]
    # $TABLE layouts: read through a fixed small run directory (one step, no covariance step)
    n_tabs = len(tabs)
    if tier == "quick":  # every layout with <= 2 listed items, a seeded sample of the longer ones
        rng.shuffle(tabs)
        short = [t for t in tabs if len(t["listed"]) <= 4]
        tabs = short + [t for t in tabs if len(t["listed"]) > 4][:40]
    work += [("TAB", {"tab": t, "base": base}, 0) for t in tabs]
    work += [("HDR", h, 0) for h in hdrs]
    work += [("LOG", c, 0) for c in logs]
    for k, c, _ in work:
        if "cfg" in c:
            get_model(c)  # parse each distinct control stream once, in the parent
        elif k == "TAB":
            get_model(dict(c["base"], tabrec={"listed": c["tab"]["listed"], "noappend": c["tab"]["noappend"]}))
    work += [("JSONP", {"num": n, "den": 7, "exp": e}, 0) for n in (1, 3) for e in (0, 1, 3, 6, 9)]
    rng.shuffle(work)
    results = core.pmap(run_case, work, procs=16, chunk=16)
    aux = 0
    for status, record, what, a in results:
        aux += a
        if status == "violation":
            v.violation(record, what)
    v.add_coverage(
        table_files=len(gens),
        table_layouts=len(tabs),
        title_lines=len(hdrs),
        result_logs=len(logs),
        table_layouts_enumerated_by_tlc=n_tabs,
        run_directories=len(runs),
        run_directories_enumerated_by_tlc=n_emitted,
        distinct_control_streams=len(_MODELS),
        evaluations=len(work),
        distinct_nontrivial=len(runs),
        traces_validated_against_impl=len(work),
        aux_numeric_checked=aux,
        tlc_constants=TIERS[tier],
        rule="a case = one abstract file (or run directory) enumerated by TLC within the constants; non-trivial = a run directory (.ext + .phi + .cov + .lst + model); "
        "thorough: all are rendered and read back; quick: all table files, and of the run directories one member (chosen by VERIF_SEED) of every class "
        "parameter configuration x special rows of the last step, of every phi variant x omega kind x last rows, of every row-set sequence x iteration set, plus 60 random ones",
        samples=[{"cfg": r["cfg"], "rowsets": [t["rowset"] for t in r["ext"]], "final_last": r["ext"][-1]["final"]["vals"]} for r in runs[:2]] + [gens[len(gens) // 2]],
        exhaustive=len(runs) == n_emitted and len(tabs) == n_tabs,
    )
    return v.finish(min_traces=200)


def replay(path: str) -> int:
    core.use_repo()
    import pharmpy.modeling  # noqa: F401

    data = json.loads(open(path).read())
    rec = data["case"]
    out = run_case((rec["kind"], rec["case"], rec["seed"]))
    print(f"recorded: {data['what']}")
    if out[0] == "violation":
        print(f"reproduced: outcome={out[1]['outcome']}: {out[2]}")
        return 1
    print("not reproduced: the case passes now")
    return 0
