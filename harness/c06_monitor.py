"""C06 monitor: projections of real pharmpy objects (digests, well-formedness bits), the session
recorder that turns calls on real objects into Transform-trace events, corpus / transformed base
models and the per-signature argument generators for pharmpy.modeling.__all__.

Nothing here judges: digests and bits are *projections*; TLC (TransformTrace.tla) decides."""
from __future__ import annotations

import contextlib
import copy
import hashlib
import inspect
import io
import itertools
import os
import signal
import types

from . import core

WF_BITS = ["bounds", "names", "symbols", "code"]

CORPUS = {
    "pheno": "tests/testdata/nonmem/pheno_real.mod",
    "mox2": "tests/testdata/nonmem/models/mox2.mod",
}
# transformed start models: (corpus key, [(function, kwargs)])
TRANSFORMED = {
    "pheno+fo+p1": ("pheno", [("set_first_order_absorption", {}), ("add_peripheral_compartment", {})]),
    "mox2+joint+comb": ("mox2", [("create_joint_distribution", {}), ("set_combined_error_model", {})]),
    "pheno+generic": ("pheno", [("convert_model", {"to_format": "generic"})]),
    "mox2+tr2+cov": ("mox2", [("set_transit_compartments", {"n": 2}), ("add_covariate_effect", {"parameter": "CL", "covariate": "WT", "effect": "exp"})]),
    "pheno+mm+iov": ("pheno", [("set_michaelis_menten_elimination", {}), ("add_iov", {"occ": "FA1"})]),
    "mox2+admid+tad": ("mox2", [("add_admid", {}), ("add_time_after_dose", {})]),
    "pheno+zoi": ("pheno", [("add_population_parameter", {"name": "POP_KIN", "init": 0.5, "lower": 0.0}),
                            ("set_zero_order_input", {"compartment": "CENTRAL", "expression": "POP_KIN"})]),
    # syn_events with the CMT column as text: the NONMEM writer has to convert it before renumbering compartments
    "syn_events+textcmt": ("syn_events", [("_text_columns", {"columns": ["CMT"]})]),
}


# Synthetic start models covering the less common kinds of data columns, so that the data-touching functions reach
# their branches: NM-TRAN DATE + clock TIME, ADDL/II/SS, RATE, CMT, EVID 3/4, a categorical covariate, DROPped columns,
# and a $DES model whose zero-order input is given directly by a THETA.  Written to a scratch directory by the parent.
SYNTHETIC = {
    "syn_date": ("""$PROBLEM date/time data
$INPUT ID DATE=DROP TIME AMT DV SEX JUNK=DROP
$DATA syn_date.csv IGNORE=@
$SUBROUTINES ADVAN1 TRANS2
$PK
CL = THETA(1)*EXP(ETA(1))
V = THETA(2)*EXP(ETA(2))
IF (SEX.EQ.1) V = V*THETA(3)
S1 = V
$ERROR
Y = F + F*EPS(1)
$THETA (0,0.5) ; POP_CL
$THETA (0,10) ; POP_V
$THETA (0,1.2) ; SEX_V
$OMEGA 0.1
$OMEGA 0.1
$SIGMA 0.02
$ESTIMATION METHOD=1 INTER
""", "syn_date.csv", """ID,DATE,TIME,AMT,DV,SEX,JUNK
1,10/01/2020,08:00,100,0,0,9
1,10/01/2020,10:30,0,7.5,0,9
1,10/02/2020,08:00,0,3.1,0,9
2,11/15/2020,09:15,100,0,1,9
2,11/15/2020,12:15,0,6.9,1,9
2,11/16/2020,09:45,0,2.8,1,9
3,01/05/2021,07:00,150,0,1,9
3,01/05/2021,09:00,0,9.9,1,9
3,01/06/2021,07:30,0,4.2,1,9
"""),
    "syn_events": ("""$PROBLEM events: RATE ADDL II SS CMT EVID
$INPUT ID TIME AMT RATE ADDL II SS CMT EVID DV WGT SEX OLD=DROP
$DATA syn_events.csv IGNORE=@
$SUBROUTINES ADVAN2 TRANS2
$PK
CL = THETA(1)*EXP(ETA(1))*(WGT/70)
V = THETA(2)*EXP(ETA(2))
KA = THETA(3)
IF (SEX.EQ.2) CL = CL*THETA(4)
S2 = V
$ERROR
IPRED = F
Y = IPRED + IPRED*EPS(1) + EPS(2)
$THETA (0,2) ; POP_CL
$THETA (0,30) ; POP_V
$THETA (0,1.5) ; POP_KA
$THETA (0,0.8) ; SEX_CL
$OMEGA 0.09
$OMEGA 0.09
$SIGMA 0.04
$SIGMA 0.1
$ESTIMATION METHOD=1 INTER
""", "syn_events.csv", """ID,TIME,AMT,RATE,ADDL,II,SS,CMT,EVID,DV,WGT,SEX,OLD
1,0,100,0,2,12,0,1,1,0,70,1,5
1,1,0,0,0,0,0,2,0,2.1,70,1,5
1,6,0,0,0,0,0,2,0,3.4,70,1,5
1,30,0,0,0,0,0,2,0,1.9,70,1,5
1,48,0,0,0,0,0,2,3,0,70,1,5
1,48,50,25,0,0,0,2,1,0,70,1,5
1,50,0,0,0,0,0,2,0,2.2,70,1,5
2,0,100,0,0,12,1,1,1,0,82,2,5
2,2,0,0,0,0,0,2,0,2.9,82,2,5
2,8,0,0,0,0,0,2,0,2.0,82,2,5
2,24,80,40,0,0,0,2,4,0,82,2,5
2,26,0,0,0,0,0,2,0,3.3,82,2,5
3,0,120,60,1,24,0,2,1,0,55,2,5
3,3,0,0,0,0,0,2,0,4.1,55,2,5
3,27,0,0,0,0,0,2,0,3.8,55,2,5
"""),
    "syn_des": ("""$PROBLEM turnover model with production rate directly from THETA
$INPUT ID TIME AMT WGT APGR DV
$DATA syn_des.csv IGNORE=@
$SUBROUTINES ADVAN13 TOL=9
$MODEL COMPARTMENT=(CENTRAL DEFDOSE)
$PK
CL = THETA(1)*EXP(ETA(1))
V = THETA(2)*EXP(ETA(2))
S1 = V
$DES
DADT(1) = THETA(3) - CL/V*A(1)
$ERROR
Y = F + F*EPS(1)
$THETA (0,0.005) ; POP_CL
$THETA (0,1.5) ; POP_V
$THETA (0,0.3) ; POP_KIN
$OMEGA 0.1
$OMEGA 0.1
$SIGMA 0.02
$ESTIMATION METHOD=1 INTER
""", "syn_des.csv", None),
}
SYNTHETIC["syn_funcs"] = ("""$PROBLEM every function the NM-TRAN expression reader produces
$INPUT ID TIME DV WGT
$DATA syn_funcs.csv IGNORE=@
$PRED
FEXP = EXP(THETA(1))
FPEXP = PEXP(THETA(1))
FLOG = LOG(WGT)
FPLOG = PLOG(WGT)
FLOG10 = LOG10(WGT)
FPLOG10 = PLOG10(WGT)
FSQRT = SQRT(WGT)
FPSQRT = PSQRT(WGT)
FSIN = SIN(TIME)
FCOS = COS(TIME)
FTAN = TAN(TIME/10)
FASIN = ASIN(THETA(2))
FACOS = ACOS(THETA(2))
FATAN = ATAN(THETA(2))
FABS = ABS(THETA(1) - 3)
FINT = INT(WGT/7)
FMOD = MOD(WGT, 3)
FGAMLN = GAMLN(DV + 1)
FPHI = PHI(THETA(2))
FPDZ = PDZ(WGT)
FPZR = PZR(THETA(1))
FPNP = PNP(THETA(1))
FPHE = PHE(THETA(1))
FPNG = PNG(THETA(1))
IF (WGT.GT.60.AND.TIME.LE.2) THEN
  FIF = 1
ELSE
  FIF = WGT**2
ENDIF
IPRED = THETA(1)*EXP(ETA(1)) + FIF*0
Y = IPRED + EPS(1)
$THETA (0,1) ; POP_A
$THETA (0,0.5,1) ; POP_B
$OMEGA 0.1
$SIGMA 0.1
$ESTIMATION METHOD=1 INTER
""", "syn_funcs.csv", """ID,TIME,DV,WGT
1,0,2,70
1,1,3,70
1,3,1,70
2,0,0,55
2,1,4,55
2,2.5,2,55
""")
SYNTHETIC["syn_cov"] = ("""$PROBLEM degenerate covariates: constant for most, inverse, all equal, binary
$INPUT ID TIME AMT WGT APGR DV NCOMED FREE CONST BIN
$DATA syn_cov.csv IGNORE=@
$SUBROUTINES ADVAN1 TRANS2
$PK
CL = THETA(1)*EXP(ETA(1))
V = THETA(2)*EXP(ETA(2))
S1 = V
$ERROR
Y = F + F*EPS(1)
$THETA (0,0.005) ; POP_CL
$THETA (0,1.5) ; POP_V
$OMEGA 0.1
$OMEGA 0.1
$SIGMA 0.02
$ESTIMATION METHOD=1 INTER
""", "syn_cov.csv", "cov")
SYN_DIR = None  # set by the parent (write_synthetic) before forking; children of C12 get it through VERIF_SYN_DIR


def write_synthetic(d):
    """Write the synthetic control streams and data files to directory d (once, in the parent)."""
    global SYN_DIR
    d.mkdir(parents=True, exist_ok=True)
    for key, (code, dname, data) in SYNTHETIC.items():
        (d / f"{key}.mod").write_text(code)
        if data is None or data == "cov":
            import pandas as pd

            src = pd.read_csv(core.REPO / "tests/testdata/nonmem/pheno.dta", sep=r"\s+", engine="python")
            src = src[["ID", "TIME", "AMT", "WGT", "APGR", "DV"]].head(60 if data is None else 200)
            if data == "cov":
                ids = sorted(src["ID"].unique())
                ncomed = {i: (0 if k % 3 else 1 + k % 3) for k, i in enumerate(ids)}  # 0 for two thirds of the individuals
                src["NCOMED"] = src["ID"].map(ncomed).astype(float)
                src["FREE"] = 3.0 - src["NCOMED"]          # median equals the maximum
                src["CONST"] = 1.0                          # the same for everybody
                src["BIN"] = (src["ID"] % 2).astype(float)  # binary
            src.to_csv(d / dname, index=False)
        else:
            (d / dname).write_text(data)
    SYN_DIR = d
    os.environ["VERIF_SYN_DIR"] = str(d)
    return d


def _sha(*parts) -> str:
    h = hashlib.sha256()
    for p in parts:
        if isinstance(p, bytes):
            h.update(p)
        else:
            h.update(str(p).encode("utf8", "replace"))
        h.update(b"\x00")
    return h.hexdigest()[:12]


# ----------------------------------------------------------------------------- digests


def frame_digests(df):
    """(digest of the whole frame, {column: digest}): sha256 over the bytes of every column, the dtypes,
    the column labels and the index."""
    if df is None:
        return "none", {}
    import numpy as np
    import pandas as pd

    if isinstance(df, pd.Series):
        df = df.to_frame()
    h = hashlib.sha256()
    cols = {}
    idx = df.index
    h.update(repr((type(idx).__name__, str(idx.dtype), tuple(idx.names), len(idx))).encode())
    try:
        if isinstance(idx, pd.RangeIndex):
            h.update(repr((idx.start, idx.stop, idx.step)).encode())
        elif idx.dtype == object:
            h.update(repr(idx.tolist()).encode())
        else:
            h.update(np.ascontiguousarray(idx.to_numpy()).tobytes())
    except Exception:
        h.update(repr(idx.tolist()).encode())
    for i, name in enumerate(df.columns):
        arr = df.iloc[:, i]._values if hasattr(df.iloc[:, i], "_values") else df.iloc[:, i].to_numpy()
        hc = hashlib.sha256()
        hc.update(repr((str(name), str(getattr(arr, "dtype", "?")))).encode())
        if isinstance(arr, np.ndarray) and arr.dtype.kind not in "OUS":
            hc.update(np.ascontiguousarray(arr).tobytes())
        else:
            hc.update(repr(list(arr)).encode())
        d = hc.hexdigest()[:12]
        key = str(name) if str(name) not in cols else f"{name}#{i}"
        cols[key] = d
        h.update(d.encode())
    return h.hexdigest()[:12], cols


def digest_df(df) -> str:
    return frame_digests(df)[0]


def column_digests(df) -> dict:
    return frame_digests(df)[1]


def _s(e) -> str:
    """Text of an expression / matrix through symengine (sympy's printer is 50x slower)."""
    inner = getattr(e, "_expr", None)
    if inner is None:
        inner = getattr(e, "_m", None)
    return str(inner if inner is not None else e)


def _params_proj(ps):
    return [(p.name, repr(p.init), repr(p.lower), repr(p.upper), p.fix) for p in ps]


def _rvs_proj(rvs):
    out = []
    for d in rvs:
        out.append((type(d).__name__, tuple(d.names), d.level, _s(d.mean), _s(d.variance)))
    return (out, repr(getattr(rvs, "_eta_levels", None)), repr(getattr(rvs, "_epsilon_levels", None)))


def _comp_proj(c):
    if type(c).__name__ == "Output":
        return ("Output",)
    doses = tuple((type(d).__name__, d.admid, _s(d.amount), _s(getattr(d, "rate", None)), _s(getattr(d, "duration", None))) for d in c.doses)
    return (c.name, _s(c.amount), doses, _s(c.input), _s(c.lag_time), _s(c.bioavailability))


def _stmt_proj(s):
    if type(s).__name__ == "CompartmentalSystem":
        g = s._g
        nodes = [_comp_proj(c) for c in g.nodes]
        edges = [(getattr(u, "name", "Output"), getattr(v, "name", "Output"), _s(r)) for u, v, r in g.edges.data("rate")]
        return ("ODE", _s(s.t), nodes, edges)
    return (_s(s.symbol), _s(s.expression))


def _statements_proj(sts):
    return [_stmt_proj(s) for s in sts]


def _datainfo_proj(di):
    return repr(di.to_dict())


_LAST_COLS: dict = {}


def model_parts(m) -> dict:
    """Everything observable about a model, part by part (the digest is the hash of all parts)."""
    parts = {}
    parts["dataset"], cols = frame_digests(m._dataset)
    _LAST_COLS[id(m)] = cols
    parts["datainfo"] = _sha(_datainfo_proj(m.datainfo))
    parts["parameters"] = _sha(_params_proj(m.parameters))
    parts["random_variables"] = _sha(_rvs_proj(m.random_variables))
    parts["statements"] = _sha(_statements_proj(m.statements))
    parts["execution_steps"] = _sha(repr(m.execution_steps.to_dict()))
    parts["dependent_variables"] = _sha(repr(dict(m.dependent_variables)), repr(dict(m.observation_transformation)))
    iie = m.initial_individual_estimates
    parts["initial_individual_estimates"] = digest_df(iie) if iie is not None else "none"
    parts["meta"] = _sha(m.name, m.description, m.value_type, type(m).__name__)
    try:
        parts["code"] = _sha(m.code)
    except Exception as e:  # code is a property; a failure here is part of the observable state
        parts["code"] = "raised:" + type(e).__name__
    internals = m.internals
    if internals is not None and hasattr(internals, "control_stream"):
        # the NONMEM side: the record objects behind model.code plus the remembered "old" components
        try:
            cs = internals.control_stream
            recs = [(type(r).__name__, str(r)) for r in cs.records]
            old = [
                _sha(_params_proj(internals.old_parameters)) if internals.old_parameters is not None else None,
                _sha(_statements_proj(internals.old_statements)) if internals.old_statements is not None else None,
                _sha(_rvs_proj(internals.old_random_variables)) if internals.old_random_variables is not None else None,
                repr(internals.compartment_map),
                repr(internals.name_map) if hasattr(internals, "name_map") else None,
            ]
            parts["internals"] = _sha(recs, old)
        except Exception as e:
            parts["internals"] = "raised:" + type(e).__name__
    else:
        parts["internals"] = _sha(repr(internals))
    return parts


def parts_of(obj) -> dict:
    from pharmpy.model import Model

    import pandas as pd

    if isinstance(obj, Model):
        return model_parts(obj)
    if isinstance(obj, (pd.DataFrame, pd.Series)):
        return {"frame": digest_df(obj)}
    tn = type(obj).__name__
    try:
        if tn == "Parameters":
            return {"content": _sha(_params_proj(obj))}
        if tn == "RandomVariables":
            return {"content": _sha(_rvs_proj(obj))}
        if tn == "Statements":
            return {"content": _sha(_statements_proj(obj))}
        if tn in ("CompartmentalSystem", "Assignment"):
            return {"content": _sha(_stmt_proj(obj))}
        if tn == "Compartment":
            return {"content": _sha(_comp_proj(obj))}
        if tn in ("DataInfo", "ColumnInfo", "ExecutionSteps", "EstimationStep", "SimulationStep", "Parameter"):
            return {"content": _sha(repr(obj.to_dict()))}
    except Exception as e:
        return {"content": "raised:" + type(e).__name__}
    return {"content": _sha(tn, repr(obj))}


def digest_of(parts: dict) -> str:
    return _sha(sorted(parts.items()))


# ----------------------------------------------------------------------------- well-formedness bits


def ode_symbols(cs) -> set:
    """Names of all symbols the compartmental system uses, collected from the graph itself (rates of the flows, and of every
    compartment the dose amounts / rates / durations, zero-order input, lag time and bioavailability) -- not through
    CompartmentalSystem.free_symbols / Compartment.free_symbols, which are code under test."""
    exprs = [r for _, _, r in cs._g.edges.data("rate")]
    for c in cs._g.nodes:
        if type(c).__name__ != "Compartment":
            continue
        exprs += [c.input, c.lag_time, c.bioavailability]
        for d in c._doses:
            for a in ("amount", "rate", "duration"):
                e = getattr(d, a, None)
                if e is not None:
                    exprs.append(e)
    used = set()
    for e in exprs:
        try:
            used |= {str(x) for x in e.free_symbols}
        except Exception:
            pass
    return used


def wf_bits(m, code_ok: bool | None = None, detail: dict | None = None) -> list:
    """The bits of the property statement that hold for model m (independent of pharmpy's own validation):
    bounds  : lower <= init <= upper for every parameter
    names   : parameter names, random variable names, column names and compartment names are unique,
              no name is both a parameter and a random variable
    symbols : every symbol on a right hand side (and in the compartmental system) is a parameter, a random
              variable, a data column, the time variable or defined by an earlier statement
    code    : the generated code can be produced (passed in: observed through get_model_code)"""
    import math

    bits = []
    ok = True
    for p in m.parameters:
        try:
            lo, up, init = float(p.lower), float(p.upper), float(p.init)
        except Exception:
            ok = False
            break
        if math.isnan(init) or not (lo <= init <= up):
            ok = False
            break
    if ok:
        bits.append("bounds")
    pn = m.parameters.names
    rn = m.random_variables.names
    cn = m.datainfo.names
    ode = m.statements.ode_system
    comp = ode.compartment_names if ode is not None else []
    if (
        len(set(pn)) == len(pn)
        and len(set(rn)) == len(rn)
        and len(set(cn)) == len(cn)
        and len(set(comp)) == len(comp)
        and not (set(pn) & set(rn))
    ):
        bits.append("names")
    defined = set(pn) | set(rn) | set(cn)
    if ode is not None:
        defined.add(str(ode.t))
    defined |= {"t", "NaN"}
    ok = True
    for s in m.statements:
        if type(s).__name__ == "CompartmentalSystem":
            used = ode_symbols(s) - {str(a) for a in s.amounts} - {getattr(a, "name", "") for a in s.amounts}
            if not used <= defined:
                ok = False
                if detail is not None:
                    detail["undefined"] = sorted(used - defined)
                    detail["where"] = "ode_system"
                break
            for a in s.amounts:
                defined.add(str(a))
                defined.add(a.name if hasattr(a, "name") else str(a))
            continue
        used = {str(x) for x in s.expression.free_symbols}
        missing = used - defined
        if missing:
            ok = False
            if detail is not None:
                detail["undefined"] = sorted(missing)
                detail["where"] = "assignment"
            break
        sym = s.symbol
        defined.add(str(sym))
        try:
            if sym.is_function():
                defined.add(sym.name)
                for a in sym.args:
                    defined.add(str(a))
        except Exception:
            pass
    if ok:
        bits.append("symbols")
    if code_ok is None:
        try:
            from pharmpy.modeling import get_model_code

            with contextlib.redirect_stdout(io.StringIO()):
                get_model_code(m)
            code_ok = True
        except Exception:
            code_ok = False
    if code_ok:
        bits.append("code")
    return bits


# ----------------------------------------------------------------------------- session recorder


class CallTimeout(BaseException):
    pass


def _alarm(signum, frame):
    raise CallTimeout()


def _hash_text(obj) -> str:
    if getattr(type(obj), "__hash__", None) is None:
        return "unhashable"
    try:
        return str(hash(obj))
    except Exception:
        return "raised"


TRACKED_TYPES = (
    "Model", "Parameters", "RandomVariables", "Statements", "CompartmentalSystem", "Assignment", "Compartment",
    "DataInfo", "ColumnInfo", "ExecutionSteps", "EstimationStep", "SimulationStep", "Parameter",
)


def is_tracked(obj) -> bool:
    from pharmpy.model import Model

    return isinstance(obj, Model) or type(obj).__name__ in TRACKED_TYPES


def _is_mutable_suspect(o) -> bool:
    from pharmpy.model import Model
    import pandas as pd

    return isinstance(o, (Model, pd.DataFrame, pd.Series))


class Session:
    """One object store = one trace for TransformTrace.tla.  Every operation performed on the objects goes
    through this recorder and becomes an event carrying the digests of all store objects afterwards."""

    def __init__(self, meta: dict):
        self.meta = dict(meta)
        self.events: list[dict] = []
        self.objs: list = []  # index = oid - 1 (strong references: ids stay valid)
        self.parts: list[dict] = []  # last projected parts per object
        self.info: list[dict] = []  # per event: annotations for the case record (not sent to TLC)
        self.timeouts = 0
        self._dig: list[str] = []
        self.colsig: dict = {}
        self.coldiff: dict = {}

    # -- store
    def oid(self, obj):
        for i, o in enumerate(self.objs):
            if o is obj:
                return i + 1
        return 0

    def _post(self, full=False, cheap=False):
        """Project the store objects again; returns (digests, {oid: changed part names})."""
        changed = {}
        post = []
        for i, o in enumerate(self.objs):
            if i < len(self.parts) and not full and (cheap or not _is_mutable_suspect(o)):
                post.append(self._dig[i])  # components (and everything on == / hash events) are re-projected at the audit
                continue
            p = parts_of(o)
            if i < len(self.parts):
                diff = sorted(k for k in set(p) | set(self.parts[i]) if p.get(k) != self.parts[i].get(k))
                if diff:
                    changed[i + 1] = diff
                    if "dataset" in diff:
                        old, new = self.colsig.get(i, {}), _LAST_COLS.get(id(o), {})
                        self.coldiff[i + 1] = {"added": sorted(set(new) - set(old)), "removed": sorted(set(old) - set(new)),
                                               "modified": sorted(c for c in set(old) & set(new) if old[c] != new[c])}
                self.parts[i] = p
            else:
                self.parts.append(p)
            if "dataset" in p:
                self.colsig[i] = _LAST_COLS.pop(id(o), {})
            dg = digest_of(p)
            if i < len(self._dig):
                self._dig[i] = dg
            else:
                self._dig.append(dg)
            post.append(dg)
        return post, changed

    def _emit(self, ev: dict, full=False, **info):
        post, changed = self._post(full, cheap=(ev["ev"] in ("obs", "load") and not full))
        ev["post"] = post
        self.events.append(ev)
        info["changed"] = changed
        if changed and self.coldiff:
            info["coldiff"] = {k: v for k, v in self.coldiff.items() if k in changed}
            self.coldiff = {}
        self.info.append(info)
        return changed

    def load(self, obj, label: str, wf=None):
        k = self.oid(obj)
        if k:
            return k
        self.objs.append(obj)
        from pharmpy.model import Model

        if wf is None:
            wf = wf_bits(obj) if isinstance(obj, Model) else list(WF_BITS)
        self._emit({"ev": "load", "wf": wf}, label=label, type=type(obj).__name__)
        return len(self.objs)

    def call(self, fname: str, fn, args: tuple, kwargs: dict, timeout: int = 30, describe=None, on=None):
        """Call fn(*args, **kwargs); the tracked objects among the arguments (or `on`: the store objects whose
        parts are passed) must be in the store."""
        arg_ids = []
        for a in itertools.chain(args, kwargs.values(), on or ()):
            k = self.oid(a)
            if k and k not in arg_ids:
                arg_ids.append(k)
        if not arg_ids:
            raise core.MachineryError(f"{fname}: no store object among the arguments")
        out, res, exc = None, None, None
        # CPU-time limit (robust against a loaded machine) plus a generous wall-clock limit against blocking calls
        old = signal.signal(signal.SIGALRM, _alarm)
        oldv = signal.signal(signal.SIGVTALRM, _alarm)
        signal.setitimer(signal.ITIMER_VIRTUAL, timeout)
        signal.alarm(timeout * 20)
        try:
            with contextlib.redirect_stdout(io.StringIO()), contextlib.redirect_stderr(io.StringIO()):
                res = fn(*args, **kwargs)
                if isinstance(res, (types.GeneratorType, itertools.islice)) or (hasattr(res, "__next__") and not is_tracked(res)):
                    res = list(itertools.islice(res, 2))
            out = "returned"
        except CallTimeout:
            out = "timeout"
        except Exception as e:  # any exception: the frame has to hold all the same
            out, exc = "raised", e
        finally:
            signal.setitimer(signal.ITIMER_VIRTUAL, 0)
            signal.alarm(0)
            signal.signal(signal.SIGALRM, old)
            signal.signal(signal.SIGVTALRM, oldv)
        if out == "timeout":
            # an interrupted call is not an observation of the API: re-project silently, judge nothing
            self.timeouts += 1
            self._post()
            return "timeout", None
        ev = {"ev": "call", "f": fname, "args": arg_ids, "out": out, "res": 0, "wf": []}
        info = {"function": fname, "kwargs": describe or {}, "exception": type(exc).__name__ if exc else None,
                "message": str(exc)[:160] if exc else None}
        from pharmpy.model import Model

        results = []
        if out == "returned":
            # a returned model (or the models inside a returned tuple / list) enters the store
            cands = [res] if isinstance(res, Model) else [x for x in res if isinstance(x, Model)][:1] if isinstance(res, (tuple, list)) else []
            if cands:
                r = cands[0]
                k = self.oid(r)
                if k:
                    ev["res"] = k
                else:
                    self.objs.append(r)
                    ev["res"] = len(self.objs)
                    det: dict = {}
                    ev["wf"] = wf_bits(r, detail=det)
                    info.update(det)
                results.append(r)
                info["result_type"] = "Model"
            else:
                ev["out"] = "value"
                info["result_type"] = type(res).__name__
        self._emit(ev, **info)
        return ev["out"], (results[0] if results else res)

    def copies(self, obj):
        o = self.oid(obj)
        for how, fn in (("copy", copy.copy), ("deepcopy", copy.deepcopy)):
            try:
                c = fn(obj)
            except Exception as e:
                self._emit({"ev": "copy", "o": o, "res": 0}, how=how, exception=type(e).__name__)
                continue
            k = self.oid(c)
            if not k:
                self.objs.append(c)
                k = len(self.objs)
            self._emit({"ev": "copy", "o": o, "res": k}, how=how, type=type(obj).__name__)
            if k != o:
                self.observe(obj, c)
                self.observe(c, obj)

    def observe(self, a, b, why: str = ""):
        ia, ib = self.oid(a), self.oid(b)
        exc = None
        try:
            r = a == b
            eq = "true" if r is True else "false" if r is False else ("true" if bool(r) else "false")
        except Exception as e:
            eq, exc = "raised", e
        ev = {"ev": "obs", "a": ia, "b": ib, "eq": eq, "ha": _hash_text(a), "hb": _hash_text(b)}
        culprit = None
        if eq == "true" and ev["ha"] != ev["hb"]:
            culprit = culprit_of(a, b)  # annotation for the case record only
        self._emit(ev, why=why, culprit=culprit, types=[type(a).__name__, type(b).__name__], exception=type(exc).__name__ if exc else None,
                   message=str(exc)[:160] if exc else None)
        return eq

    def audit(self):
        """Final event: every object of the store (components included) is projected again."""
        if self.objs:
            self._emit({"ev": "obs", "a": 1, "b": 1, "eq": "true" if self._safe_eq(self.objs[0]) else "false",
                        "ha": _hash_text(self.objs[0]), "hb": _hash_text(self.objs[0])}, full=True, why="audit",
                       types=[type(self.objs[0]).__name__] * 2)

    @staticmethod
    def _safe_eq(o):
        try:
            return bool(o == o)
        except Exception:
            return False

    def trace(self):
        return {"events": self.events}


def culprit_of(a, b) -> str:
    """Annotation for the case record of an equal-but-unequal-hash pair: the innermost component pair that is
    itself equal with unequal hashes (so that a finding is keyed on the class that causes it)."""
    from pharmpy.model import Model

    def bad(x, y):
        try:
            return (x == y) is True and hash(x) != hash(y)
        except Exception:
            return False

    if isinstance(a, Model) and isinstance(b, Model):
        for name in ("parameters", "random_variables", "statements", "execution_steps", "datainfo",
                     "dependent_variables", "observation_transformation"):
            x, y = getattr(a, name), getattr(b, name)
            if bad(x, y):
                return culprit_of(x, y) if name in ("statements", "datainfo") else type(x).__name__
        da, db = a._dataset, b._dataset
        if (da is None) != (db is None) or (da is not None and digest_df(da) != digest_df(db)):
            return "Model.dataset"
        return "Model"
    if type(a).__name__ == "DataInfo":
        if len(a) == len(b):
            for x, y in zip(a, b):
                if bad(x, y):
                    return "ColumnInfo"
        return "DataInfo"
    if type(a).__name__ == "Statements":
        if len(a) == len(b):
            for x, y in zip(a, b):
                if bad(x, y):
                    return type(x).__name__
        return "Statements"
    return type(a).__name__


# ----------------------------------------------------------------------------- base models


_READ_CACHE: dict = {}


def read_corpus(key: str):
    """A fresh, independent model object (nothing shared with earlier reads)."""
    from pharmpy.modeling import read_model

    return read_model(core.REPO / CORPUS[key])


def build_base(key: str):
    import pharmpy.modeling as pm

    if key in CORPUS:
        return read_corpus(key)
    if key in SYNTHETIC:
        from pharmpy.modeling import read_model

        d = SYN_DIR or (os.environ.get("VERIF_SYN_DIR") and __import__("pathlib").Path(os.environ["VERIF_SYN_DIR"]))
        if not d:
            raise core.MachineryError("synthetic corpus was not written")
        return read_model(d / f"{key}.mod")
    ckey, chain = TRANSFORMED[key]
    m = build_base(ckey) if ckey in SYNTHETIC else read_corpus(ckey)
    for fname, kw in chain:
        m = _text_columns(m, **kw) if fname == "_text_columns" else getattr(pm, fname)(m, **kw)
    return m


def _text_columns(m, columns):
    """A user-supplied dataset in which integer-coded columns are text (as after reading a csv with dtype=str):
    `set_dataset(model, df, datatype='nonmem')`.  Opens the dtype-conversion branches of the code writers."""
    import pharmpy.modeling as pm

    df = m.dataset.copy()
    for c in columns:
        df[c] = df[c].astype(int).astype(str)
    return pm.set_dataset(m, df, datatype="nonmem")


# ----------------------------------------------------------------------------- argument generators


class Info:
    """Names the generators draw from (all taken from the model itself)."""

    def __init__(self, m):
        import pharmpy.modeling as pm

        self.m = m
        ps = m.parameters
        rvp = set(m.random_variables.parameter_names)
        self.thetas = [p.name for p in ps if p.name not in rvp]
        self.omegas = [p.name for p in ps if p.name in rvp]
        try:
            self.ips = list(pm.get_individual_parameters(m))
        except Exception:
            self.ips = []
        if not self.ips:
            self.ips = [str(s.symbol) for s in m.statements if hasattr(s, "symbol")][:2]
        self.etas = list(m.random_variables.etas.names)
        self.eps = list(m.random_variables.epsilons.names)
        cols = m.datainfo.names
        self.cols = cols
        pref = [c for c in ("WGT", "WT", "APGR", "AGE", "SEX", "CLCR") if c in cols]
        self.covs = pref or [c for c in cols if c not in ("ID", "TIME", "DV", "AMT")][:2] or cols[:1]
        self.catcov = next((c for c in ("APGR", "SEX", "DGRP") if c in cols), self.covs[0])
        self.occ = next((c for c in ("FA1", "VISI", "OCC") if c in cols), self.covs[0])
        ode = m.statements.ode_system
        self.comps = ode.compartment_names if ode is not None else []
        try:
            self.central = ode.central_compartment.name if ode is not None else "CENTRAL"
        except Exception:
            self.central = self.comps[-1] if self.comps else "CENTRAL"
        self.dropped = [c.name for c in m.datainfo if c.drop]

    def th(self, i=0):
        return self.thetas[min(i, len(self.thetas) - 1)] if self.thetas else "THETA_1"

    def ip(self, i=0):
        return self.ips[min(i, len(self.ips) - 1)] if self.ips else "CL"

    def eta(self, i=0):
        return self.etas[min(i, len(self.etas) - 1)] if self.etas else "ETA_1"

    def init(self, name):
        try:
            return float(self.m.parameters[name].init)
        except Exception:
            return 1.0

    # result-like inputs, built from the model itself
    def pe(self):
        import pandas as pd

        return pd.Series(self.m.parameters.inits, dtype=float)

    def ie(self):
        import pandas as pd

        ids = sorted(set(self.m.dataset[self.m.datainfo.id_column.name])) if self.m.dataset is not None else [1, 2]
        return pd.DataFrame(0.01, index=pd.Index(ids, name="ID"), columns=self.etas)

    def iec(self):
        import numpy as np
        import pandas as pd

        ie = self.ie()
        cov = pd.DataFrame(np.eye(len(self.etas)) * 0.01, index=self.etas, columns=self.etas)
        return pd.Series([cov] * len(ie.index), index=ie.index)

    def cov(self):
        import numpy as np
        import pandas as pd

        names = [p.name for p in self.m.parameters if not p.fix]
        return pd.DataFrame(np.eye(len(names)) * 1e-4, index=names, columns=names)

    def cor(self):
        import numpy as np
        import pandas as pd

        names = [p.name for p in self.m.parameters if not p.fix]
        return pd.DataFrame(np.eye(len(names)), index=names, columns=names)


SKIP = {
    # plots: need altair rendering / results tables, excluded by the task (no plotting back ends)
    **{n: "plot function (rendering back end)" for n in (
        "plot_abs_cwres_vs_ipred", "plot_cwres_vs_idv", "plot_dv_vs_ipred", "plot_dv_vs_pred", "plot_eta_distributions",
        "plot_individual_predictions", "plot_iofv_vs_iofv", "plot_transformed_eta_distributions", "plot_vpc")},
    # no Model (or model component) among the parameters: outside the quantifier "functions f taking a Model"
    **{n: "no model argument" for n in (
        "calculate_corr_from_cov", "calculate_corr_from_prec", "calculate_cov_from_corrse", "calculate_cov_from_prec",
        "calculate_prec_from_corrse", "calculate_prec_from_cov", "calculate_se_from_cov", "calculate_se_from_prec",
        "create_basic_pk_model", "create_config_template", "create_rng", "get_config_path", "load_example_model",
        "read_model", "read_model_from_string")},
}


def arg_variants(fname: str, I: Info, tmp) -> list:
    """kwargs variants for pharmpy.modeling.<fname>(model, **kwargs) (documented literals, names of the model)."""
    th, ip, eta, cov = I.th(), I.ip(), I.eta(), I.covs[0]
    t0 = I.init(th)
    lo = float(I.m.parameters[th].lower) if th in I.m.parameters.names else 0.0
    G = {
        "add_allometry": [{"allometric_variable": cov}, {"allometric_variable": cov, "reference_value": 3.5, "fixed": False}],
        "add_bioavailability": [{}, {"logit_transform": True}],
        "add_covariate_effect": [
            {"parameter": ip, "covariate": cov, "effect": "exp"},
            {"parameter": I.ip(1), "covariate": I.catcov, "effect": "cat"},
            {"parameter": ip, "covariate": cov, "effect": "pow", "operation": "+"},
            {"parameter": ip, "covariate": cov, "effect": "piece_lin"},
            {"parameter": ip, "covariate": cov, "effect": "lin"},
        ],
        "add_derivative": [{}, {"with_respect_to": eta}],
        "add_effect_compartment": [{"expr": "linear"}, {"expr": "emax"}],
        "add_estimation_step": [{"method": "IMP"}, {"method": "FOCE", "idx": 0}],
        "add_iiv": [{"list_of_parameters": [ip], "expression": "exp"},
                    {"list_of_parameters": I.ips[-1:], "expression": "add", "operation": "+"}],
        "add_individual_parameter": [{"name": "QQ"}],
        "add_iov": [{"occ": I.occ}, {"occ": I.occ, "list_of_parameters": [ip], "distribution": "same-as-iiv"}],
        "add_indirect_effect": [{"expr": "linear"}, {"expr": "emax", "prod": False}],
        "add_metabolite": [{}, {"presystemic": True}],
        "add_parameter_uncertainty_step": [{"parameter_uncertainty_method": "SANDWICH"}, {"parameter_uncertainty_method": "RMAT"}],
        "add_population_parameter": [{"name": "POP_NEW", "init": 1.0}, {"name": "POP_NEW2", "init": 1.0, "lower": 0.0, "upper": 2.0, "fix": True},
                                     {"name": "POP_BAD", "init": 5.0, "lower": 0.0, "upper": 2.0}, {"name": th, "init": 1.0}],
        "add_predictions": [{"pred": ["PRED"]}, {"pred": ["IPRED", "CIPREDI"]}],
        "add_residuals": [{"res": ["CWRES"]}, {"res": ["RES", "WRES"]}],
        "append_estimation_step_options": [{"tool_options": {"SADDLE_RESET": 1}, "idx": 0}],
        "bin_observations": [{"method": "equal_width", "nbins": 4}, {"method": "equal_number", "nbins": 3}],
        "bump_model_number": [{}, {"path": tmp}],
        "calculate_aic": [{"likelihood": 100.0}],
        "calculate_bic": [{"likelihood": 100.0}, {"likelihood": 100.0, "type": "iiv"}],
        "calculate_eta_shrinkage": [{"parameter_estimates": I.pe(), "individual_estimates": I.ie()}],
        "calculate_individual_parameter_statistics": [{"expr_or_exprs": ip, "parameter_estimates": I.pe(), "covariance_matrix": I.cov(), "seed": 1}],
        "calculate_individual_shrinkage": [{"parameter_estimates": I.pe(), "individual_estimates_covariance": I.iec()}],
        "calculate_parameters_from_ucp": "special",
        "calculate_pk_parameters_statistics": [{"parameter_estimates": I.pe(), "covariance_matrix": I.cov(), "seed": 1}],
        "check_dataset": [{}, {"dataframe": True}],
        "check_high_correlations": [{"cor": I.cor()}],
        "check_parameters_near_bounds": [{"values": I.pe()}],
        "convert_model": [{"to_format": "generic"}, {"to_format": "nlmixr"}, {"to_format": "rxode"}, {"to_format": "nonmem"}],
        "create_joint_distribution": [{}, {"rvs": I.etas[:2]}, {"individual_estimates": I.ie()}],
        "create_symbol": [{"stem": "TEMP"}, {"stem": ip, "force_numbering": True}],
        "deidentify_data": "special",
        "drop_columns": [{"column_names": [cov]}, {"column_names": cov, "mark": True}],
        "evaluate_expression": [{"expression": ip}, {"expression": ip, "parameter_estimates": I.pe()}],
        "expand_additional_doses": [{}, {"flag": True}],
        "filter_dataset": [{"expr": f"{cov} > 0"}, {"expr": "ID < 10"}],
        "fix_or_unfix_parameters": [{"parameters": {th: True}}, {"parameters": {th: False, I.th(1): True}}],
        "fix_parameters": [{"parameter_names": [th]}, {"parameter_names": th}, {"parameter_names": ["NOPE"], "strict": False}],
        "fix_parameters_to": [{"inits": {th: t0 * 1.1}}, {"inits": {th: lo - 1.0}}],
        "get_dv_symbol": [{}, {"dv": 1}],
        "get_individual_parameters": [{}, {"level": "iiv"}],
        "get_initial_conditions": [{}, {"dosing": True}],
        "get_model_covariates": [{}, {"strings": True}],
        "get_observations": [{}, {"keep_index": True}],
        "get_parameter_rv": [{"parameter": ip}],
        "get_pk_parameters": [{}, {"kind": "absorption"}],
        "get_rv_parameters": [{"rv": eta}],
        "get_unit_of": [{"variable": cov}, {"variable": ip}],
        "greekify_model": [{}, {"named_subscripts": True}],
        "has_covariate_effect": [{"parameter": ip, "covariate": cov}],
        "has_random_effect": [{"parameter": ip}, {"parameter": ip, "level": "iov"}],
        "is_real": [{"expr": ip}],
        "omit_data": "special",
        "resample_data": "special",
        "read_dataset_from_datainfo": "special",
        "rename_symbols": [{"new_names": {ip: ip + "X"}}, {"new_names": {th: "NEWTHETA"}}, {"new_names": {eta: "ETA_NEW"}}],
        "remove_covariate_effect": [{"parameter": ip, "covariate": cov}],
        "remove_derivative": [{}, {"with_respect_to": eta}],
        "remove_estimation_step": [{"idx": 0}],
        "remove_iiv": [{}, {"to_remove": [eta]}, {"to_remove": ip}],
        "remove_iov": [{}],
        "remove_loq_data": [{"lloq": 10}, {"lloq": 10, "keep": 1}],
        "remove_peripheral_compartment": [{}],
        "remove_predictions": [{}, {"to_remove": ["PRED"]}],
        "remove_residuals": [{}, {"to_remove": ["CWRES"]}],
        "sample_individual_estimates": [{"individual_estimates": I.ie(), "individual_estimates_covariance": I.iec(), "samples_per_id": 2, "seed": 1}],
        "sample_parameters_from_covariance_matrix": [{"parameter_estimates": I.pe(), "covariance_matrix": I.cov(), "n": 2, "seed": 1}],
        "sample_parameters_uniformly": [{"parameter_estimates": I.pe(), "n": 2, "seed": 1}],
        "set_additive_error_model": [{}, {"data_trans": "log(Y)"}],
        "set_baseline_effect": [{}, {"expr": "const"}],
        "set_combined_error_model": [{}, {"data_trans": "log(Y)"}],
        "set_covariates": [{"covariates": [cov]}],
        "set_dataset": "special",
        "set_description": [{"new_description": "another description"}],
        "set_direct_effect": [{"expr": "linear"}, {"expr": "sigmoid"}],
        "set_dtbs_error_model": [{}, {"fix_to_log": True}],
        "set_dvid": [{"name": I.occ}],
        "set_estimation_step": [{"method": "IMP", "idx": 0}, {"method": "FOCE", "idx": 0, "interaction": True}],
        "set_evaluation_step": [{}],
        "set_iiv_on_ruv": [{}, {"same_eta": False}],
        "set_initial_condition": [{"compartment": I.central, "expression": 10}],
        "set_initial_estimates": [{"inits": {th: t0 * 1.05}}, {"inits": {th: lo - 1.0}},
                                  {"inits": {th: lo - 1.0}, "move_est_close_to_bounds": True}, {"inits": {"NOPE": 1.0}, "strict": False}],
        "set_lloq_data": [{"value": 0, "lloq": 10}],
        "set_lower_bounds": [{"bounds": {th: min(t0 / 2, t0 - 1)}}, {"bounds": {th: t0 + 1.0}}],
        "set_name": [{"new_name": "renamed"}],
        "set_ode_solver": [{"solver": "LSODA"}],
        "set_peripheral_compartments": [{"n": 1}, {"n": 2}, {"n": 0}],
        "set_power_on_ruv": [{}, {"zero_protection": True}],
        "set_proportional_error_model": [{}, {"data_trans": "log(Y)"}, {"zero_protection": False}],
        "set_reference_values": [{"refs": {cov: 70}}],
        "set_simulation": [{}, {"n": 2, "seed": 1}],
        "set_time_varying_error_model": [{"cutoff": 1.0}],
        "set_tmdd": [{"type": "qss"}, {"type": "full"}, {"type": "mmapp"}],
        "set_transit_compartments": [{"n": 2}, {"n": 1, "keep_depot": False}, {"n": 0}],
        "set_upper_bounds": [{"bounds": {th: t0 * 2 + 1}}, {"bounds": {th: t0 - 1.0}}],
        "set_zero_order_input": [{"compartment": I.central, "expression": 10}],
        "simplify_expression": [{"expr": f"{ip}*1 + 0"}],
        "split_joint_distribution": [{}, {"rvs": [eta]}],
        "transform_blq": [{"lloq": 10}, {"method": "m3", "lloq": 10}, {"method": "m1", "lloq": 10}],
        "transform_etas_boxcox": [{}, {"list_of_etas": [eta]}],
        "transform_etas_john_draper": [{}, {"list_of_etas": [eta]}],
        "transform_etas_tdist": [{}, {"list_of_etas": [eta]}],
        "unfix_parameters": [{"parameter_names": [th]}, {"parameter_names": th}],
        "unfix_parameters_to": [{"inits": {th: t0 * 1.1}}],
        "update_initial_individual_estimates": [{"individual_estimates": I.ie()}],
        "write_csv": [{"path": os.path.join(tmp, "out.csv"), "force": True}],
        "write_model": [{"path": os.path.join(tmp, "out.mod"), "force": True}],
        "unconstrain_parameters": [{"parameter_names": [th]}],
        "undrop_columns": [{"column_names": (I.dropped or [cov])[:1]}],
        "calculate_aic_": [],
    }
    v = G.get(fname)
    if v is None:
        return [{}]
    if fname == "add_covariate_effect" and "NCOMED" in I.cols:
        # degenerate covariates (median = minimum, median = maximum, all equal, binary) x every documented effect
        v = [{"parameter": ip, "covariate": c, "effect": e} for c in ("NCOMED", "FREE", "CONST", "BIN")
             for e in ("exp", "lin", "pow", "piece_lin", "cat", "cat2")]
        v += [{"parameter": I.ip(1), "covariate": "NCOMED", "effect": "exp", "operation": "+"}]
    return v


def special_call(fname: str, pm, m, I: Info, variant: int):
    """(args, kwargs, description) for functions whose model-related argument is not called `model`."""
    if fname == "calculate_parameters_from_ucp":
        scale = pm.calculate_ucp_scale(m)
        ucps = {p.name: 0.1 for p in m.parameters if not p.fix}
        return (m, scale, ucps), {}, {"ucps": "0.1 each"}
    if fname == "deidentify_data":
        return (m.dataset,), {}, {"df": "model.dataset"}
    if fname == "omit_data":
        return ((m, "ID") if variant == 0 else (m.dataset, "ID")), {}, {"group": "ID", "arg": "model" if variant == 0 else "model.dataset"}
    if fname == "resample_data":
        return ((m, "ID") if variant == 0 else (m.dataset, "ID")), {"resamples": 1, "replace": True}, {"group": "ID", "arg": "model" if variant == 0 else "model.dataset"}
    if fname == "read_dataset_from_datainfo":
        return (m.datainfo,), {}, {"datainfo": "model.datainfo"}
    if fname == "set_dataset":
        if variant == 0:
            return (m, m.dataset.iloc[:20].copy()), {}, {"path_or_df": "first 20 rows (copy)"}
        if variant == 1:
            return (m, m.dataset), {}, {"path_or_df": "model.dataset itself"}
        return (m, str(I.m.datainfo.path)), {"datatype": "nonmem"}, {"path_or_df": "datainfo.path", "datatype": "nonmem"}
    raise KeyError(fname)


SPECIAL_VARIANTS = {"calculate_parameters_from_ucp": 1, "deidentify_data": 1, "omit_data": 2, "resample_data": 2,
                    "read_dataset_from_datainfo": 1, "set_dataset": 3}


def describe_kwargs(kw: dict) -> dict:
    out = {}
    for k, v in kw.items():
        if isinstance(v, (str, int, float, bool, type(None))):
            out[k] = v
        elif isinstance(v, (list, tuple)) and all(isinstance(x, (str, int, float)) for x in v):
            out[k] = list(v)
        elif isinstance(v, dict) and all(isinstance(x, (str, int, float, bool)) for x in v.values()):
            out[k] = {str(a): b for a, b in v.items()}
        else:
            out[k] = type(v).__name__
    return out


def takes_model(fn) -> bool:
    try:
        sig = inspect.signature(fn)
    except (TypeError, ValueError):
        return False
    return any(n in ("model", "dataset_or_model") for n in sig.parameters)
