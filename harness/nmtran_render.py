"""AST (spec/nmtran/Expr.tla, NMTran.tla JSON shapes) -> NM-TRAN control stream text.

Rendering only: minimal parentheses according to the Fortran precedence table recorded in
Expr.tla (PrecedenceTable), random but meaning-preserving layout (case, blanks, operator
spellings, function synonyms, comments, blank lines, continuation lines).  No evaluation here.

    render_code(stmts, rng)            -> list of lines of abbreviated code
    render_pred_model(case, rng)       -> control stream text of a $PRED model
    render_advan_model(case, rng, datapath, input_cols) -> control stream of a $PK/$ERROR model
    render_theta_item / render_omega_record / render_param_model
"""
from __future__ import annotations

import random
from fractions import Fraction

# level, as in Expr.tla PrecedenceTable
L_OR, L_AND, L_NOT, L_REL, L_ADD, L_MUL, L_POW, L_ATOM = 1, 2, 3, 4, 5, 6, 7, 9

REL_SPELL = {
    "EQ": [".EQ.", "=="], "NE": [".NE.", "/="], "LT": [".LT.", "<"],
    "LE": [".LE.", "<="], "GT": [".GT.", ">"], "GE": [".GE.", ">="],
}
FN_SPELL = {
    "EXP": ["EXP", "DEXP"], "LOG": ["LOG", "DLOG", "ALOG"], "SQRT": ["SQRT", "DSQRT"],
    "ABS": ["ABS", "DABS"], "INT": ["INT", "DINT"], "MOD": ["MOD", "DMOD"],
    "PEXP": ["PEXP"], "PLOG": ["PLOG"], "PSQRT": ["PSQRT"],
}


class Style:
    """Layout knobs; plain=True gives canonical upper-case, single-blank text."""

    def __init__(self, rng: random.Random | None, plain=False, faithful=False):
        self.rng = rng or random.Random(0)
        self.plain = plain or rng is None
        self.faithful = faithful  # never drop parentheses that only associativity of + and * makes redundant

    def chance(self, p):
        return (not self.plain) and self.rng.random() < p

    def pick(self, xs):
        return xs[0] if self.plain else self.rng.choice(xs)

    def sp(self):
        return "" if self.plain else self.rng.choice(["", "", " ", " ", "  "])

    def kw(self, word):
        if self.chance(0.15):
            return word.lower()
        return word

    def name(self, v):
        if self.chance(0.1):
            return v.lower()
        return v


def _has_var(e):
    if e["k"] == "var":
        return True
    return any(_has_var(e[x]) for x in ("a", "b") if x in e)


class _PlainNums:
    """a Style proxy under which integer literals are spelled as plain integers"""

    def __init__(self, st):
        self._st = st
        self.plain_ints = True

    def __getattr__(self, k):
        return getattr(self._st, k)


def num_text(n: int, d: int, st: Style, followed_by_dot=False) -> str:
    """Decimal spelling of the non-negative literal n/d (d must divide a power of ten)."""
    q = Fraction(n, d)
    assert q >= 0
    if q.denominator == 1:
        i = q.numerator
        if getattr(st, "plain_ints", False):
            return str(i)
        forms = [str(i), str(i), f"{i}.0", f"{i}.0E0", f"{i}D0"]
        if not followed_by_dot:
            forms.append(f"{i}.")
        return st.pick(forms)
    # exact finite decimal
    k = 0
    x = q
    while x.denominator != 1:
        x *= 10
        k += 1
        if k > 12:
            raise ValueError(f"{q} has no finite decimal expansion")
    digits = str(x.numerator).rjust(k + 1, "0")
    whole, frac = digits[:-k], digits[-k:]
    plain = f"{whole}.{frac}"
    forms = [plain, plain]
    if whole == "0":
        forms.append(f".{frac}")
    forms.append(f"{x.numerator}E-{k}")
    forms.append(f"{x.numerator}.0D-{k}")
    return st.pick(forms)


def _wrap(txt_lvl, need, st: Style):
    txt, lvl = txt_lvl
    if lvl < need or (lvl < L_ATOM and lvl >= L_ADD and st.chance(0.06)):
        return f"({st.sp()}{txt}{st.sp()})"
    return txt


def render_expr(e, st: Style, dot_follows=False):
    """-> (text, level)"""
    k = e["k"]
    if k == "num":
        return num_text(e["n"], e["d"], st, followed_by_dot=dot_follows), L_ATOM
    if k == "var":
        v = e["v"]
        if "(" in v:  # THETA(1), ETA(2), EPS(1), A(1)
            head, idx = v[:-1].split("(")
            if head == "EPS" and st.chance(0.2):
                head = "ERR"
            return f"{st.name(head)}{st.sp()}({st.sp()}{idx}{st.sp()})", L_ATOM
        return st.name(v), L_ATOM
    if k == "neg":
        a = _wrap(render_expr(e["a"], st, dot_follows), L_MUL, st)
        gap = "" if e.get("tight", True) else " "
        return f"-{gap}{a}", L_ADD
    if k in ("add", "sub"):
        l = _wrap(render_expr(e["a"], st), L_ADD, st)
        rneed = L_MUL
        if k == "add" and e["b"]["k"] in ("add", "sub") and not st.faithful and st.chance(0.3):
            rneed = L_ADD  # A+(B-C) = A+B-C over the rationals
        rt = render_expr(e["b"], st, dot_follows)
        if rt[0].startswith("-"):
            rneed = L_ATOM  # never two operators in a row
        r = _wrap(rt, rneed, st)
        return f"{l}{st.sp()}{'+' if k == 'add' else '-'}{st.sp()}{r}", L_ADD
    if k in ("mul", "div"):
        l = _wrap(render_expr(e["a"], st), L_MUL, st)
        rneed = L_POW
        if k == "mul" and e["b"]["k"] == "mul" and not st.faithful and st.chance(0.3):
            rneed = L_MUL
        # an integer literal divisor is written as a plain integer (x/3.0 would be read as x*0.333333333333333)
        rst = _PlainNums(st) if (k == "div" and not _has_var(e["b"])) else st
        r = _wrap(render_expr(e["b"], rst, dot_follows), rneed, st)
        op = "*" if k == "mul" else "/"
        s1, s2 = st.sp(), st.sp()
        if op == "*" and (l.endswith("*") or r.startswith("*")):
            s1 = s2 = " "
        return f"{l}{s1}{op}{s2}{r}", L_MUL
    if k == "pow":
        l = _wrap(render_expr(e["a"], st), L_POW + 1, st)
        r = _wrap(render_expr(e["b"], st, dot_follows), L_POW, st)
        return f"{l}{st.sp()}**{st.sp()}{r}", L_POW
    if k == "fn":
        f = st.kw(st.pick(FN_SPELL[e["f"]]))
        # integer literals inside EXP/LOG (and in literal-only arguments) are written as plain integers: EXP(2.0),
        # EXP(ETA(1)+3.0) are folded to floats (e^3.0*exp(ETA(1))) by the reader's symbolic engine, which the
        # rational function model cannot follow (DESIGN 3.3; the float re-check would demote them one by one)
        ast = _PlainNums(st) if (e["f"] in ("EXP", "PEXP", "LOG", "PLOG") or not _has_var(e["a"])) else st
        args = [render_expr(e["a"], ast)[0]]
        if e["f"] == "MOD":
            args.append(render_expr(e["b"], st)[0])
        inner = f"{st.sp()},{st.sp()}".join(args)
        return f"{f}{st.sp()}({st.sp()}{inner}{st.sp()})", L_ATOM
    raise ValueError(f"unknown expression node {k}")


def render_cond(c, st: Style):
    k = c["k"]
    if k == "rel":
        op = st.pick(REL_SPELL[c["op"]])
        dotted = op.startswith(".")
        l = render_expr(c["a"], st, dot_follows=dotted)[0]
        r = render_expr(c["b"], st, dot_follows=True)[0]
        if dotted and st.chance(0.15) and not l[-1].isdigit():
            op = op.lower()
        s = st.sp()
        if r.startswith(".") and dotted and not s:
            s = " "
        if not dotted and op in ("/=", "==", "<", ">", "<=", ">="):
            s = s or ""
        return f"{l}{s}{op}{s}{r}", L_REL
    if k == "not":
        t = render_cond(c["a"], st)
        a = t[0] if t[1] >= L_REL else f"({t[0]})"
        return f"{st.kw('.NOT.')} {a}", L_NOT
    if k in ("and", "or"):
        lvl = L_AND if k == "and" else L_OR
        lt, rt = render_cond(c["a"], st), render_cond(c["b"], st)
        l = lt[0] if lt[1] >= lvl else f"({lt[0]})"
        r = rt[0] if rt[1] >= lvl + 1 else f"({rt[0]})"
        op = ".AND." if k == "and" else ".OR."
        if not l[-1].isdigit():  # the reader's lexer takes  1.or  as a number followed by a name
            op = st.kw(op)
        return f"{l}{st.sp()}{op}{st.sp()}{r}", lvl
    raise ValueError(f"unknown condition node {k}")


COMMENTS = ["; typical value", ";", "; x = 1", "; IF (A.GT.B) THEN", ";; note", "; ELSE"]


def _finish(line, st: Style):
    if st.chance(0.08) and "**" not in line and len(line) > 14:
        # continuation line: break after a binary + or * that is not inside a dotted operator
        for i in range(len(line) - 2, 6, -1):
            if line[i] in "+*" and line[i - 1] not in "*+-/(E.D" and line[i + 1] not in "*+-":
                line = line[: i + 1] + " &\n        " + line[i + 1:]
                break
    if st.chance(0.12):
        line += " " + st.rng.choice(COMMENTS)
    return line


def render_code(stmts, st: Style, indent=0):
    out = []
    pad = " " * indent if not st.plain else ""
    for s in stmts:
        if st.chance(0.05):
            out.append("")
        if st.chance(0.04):
            out.append(pad + st.rng.choice(COMMENTS))
        k = s["k"]
        if k == "asg":
            out.append(_finish(f"{pad}{st.name(s['v'])}{st.sp()}={st.sp()}{render_expr(s['e'], st)[0]}", st))
        elif k == "lif":
            c = render_cond(s["c"], st)[0]
            out.append(_finish(
                f"{pad}{st.kw('IF')}{st.sp()}({st.sp()}{c}{st.sp()}) {st.name(s['v'])}{st.sp()}={st.sp()}{render_expr(s['e'], st)[0]}", st))
        elif k == "blk":
            step = 0 if st.plain else st.rng.choice([0, 2, 2, 4])
            for i, arm in enumerate(s["arms"]):
                c = render_cond(arm["c"], st)[0]
                if i == 0:
                    head = st.kw("IF")
                else:
                    head = st.kw(st.pick(["ELSE IF", "ELSEIF"]))
                line = f"{pad}{head}{st.sp()}({st.sp()}{c}{st.sp()}){st.sp() or ' '}{st.kw('THEN')}"
                if st.chance(0.08):
                    line += " ; arm"
                out.append(line)
                out.extend(render_code(arm["body"], st, indent + step))
            if s["haselse"]:
                out.append(f"{pad}{st.kw('ELSE')}")
                out.extend(render_code(s["els"], st, indent + step))
            out.append(f"{pad}{st.kw(st.pick(['ENDIF', 'END IF']))}")
        else:
            raise ValueError(f"unknown statement {k}")
    return out


# --------------------------------------------------------------------------- whole control streams

PHENO_INPUT = "ID TIME AMT WGT APGR DV"


def _theta_lines(n):
    return "\n".join(f"$THETA (0,{1 + i}.5)" for i in range(n))


def render_pred_model(case, st: Style, datapath="pheno.dta"):
    code = "\n".join(render_code(case["prog"], st))
    return (
        f"$PROBLEM C01 case {case['id']}\n"
        f"$INPUT {PHENO_INPUT}\n"
        f"$DATA {datapath} IGNORE=@\n"
        f"$PRED\n{code}\n"
        f"{_theta_lines(case.get('ntheta', 3))}\n"
        f"$OMEGA 0.1 0.2\n"
        f"$SIGMA 0.1\n"
        f"$ESTIMATION METHOD=1 INTER MAXEVALS=9999\n"
    )


def render_advan_model(case, st: Style, datapath, input_cols):
    pk = "\n".join(render_code(case["prog"], st))
    err = "\n".join(render_code(case["err"], st))
    sub = st.pick(["$SUBROUTINES", "$SUBROUTINE", "$SUBS"])
    trans = f" TRANS{case['trans']}"
    if case["trans"] == 1 and case.get("omit_trans1"):
        trans = ""
    extra = ""
    if case.get("comps"):
        if case["advan"] in (6, 8, 9, 13):
            trans += " TOL=" + st.pick(["9", "6"])
        items = []
        for c in case["comps"]:
            opts = []
            if c["defdose"]:
                opts.append(st.pick(["DEFDOSE", "DEFDOSE", "DEFD"]))
            if c["defobs"]:
                opts.append(st.pick(["DEFOBSERVATION", "DEFOBS", "DEFOBS"]))
            if c["nodose"]:
                opts.append("NODOSE")
            if st.chance(0.4):
                st.rng.shuffle(opts)
            kw = st.pick(["COMP", "COMPARTMENT", "COMP"])
            eq = st.pick(["=", "=", " = "])
            items.append(f"{kw}{eq}({c['name']}{''.join(' ' + o for o in opts)})")
        sep = "\n       " if st.chance(0.4) else " "
        extra = "$MODEL " + sep.join(items) + "\n"
    des = ""
    if case.get("des"):
        des = "$DES\n" + "\n".join(render_code(case["des"], st)) + "\n"
    return (
        f"$PROBLEM C01 advan case {case['id']}\n"
        f"$INPUT {input_cols}\n"
        f"$DATA {datapath} IGNORE=@\n"
        f"{sub} ADVAN{case['advan']}{trans}\n"
        f"{extra}"
        f"$PK\n{pk}\n"
        f"{des}"
        f"$ERROR\n{err}\n"
        f"{_theta_lines(case.get('ntheta', 8))}\n"
        f"$OMEGA 0.1 0.2\n"
        f"$SIGMA 0.1\n"
        f"$ESTIMATION METHOD=1 INTER MAXEVALS=9999\n"
    )


# --------------------------------------------------------------------------- $THETA / $OMEGA / $SIGMA


def _dec(n, d, st: Style):
    q = Fraction(n, d)
    if q < 0:
        return "-" + num_text(-q.numerator, q.denominator, Style(None))
    return num_text(q.numerator, q.denominator, Style(None))


def _bound(b, st, which):
    t = b["t"]
    if t == "num":
        return _dec(b["n"], b["d"], st)
    if t == "ninf":
        return st.pick(["-INF", "-INF", "-1000000"])
    if t == "inf":
        return st.pick(["INF", "INF", "1000000"])
    return ""


def render_theta_item(it, st: Style):
    """One $THETA item in one of the legal spellings carried by it['form'] (1|2|3|4)."""
    fixw = st.pick(["FIX", "FIXED", "FIX"])
    form = it["form"]
    init = _bound(it["init"], st, "init")
    if form == 1:
        txt = init + (f" {fixw}" if it["fix"] else "")
    else:
        low, up = it["low"], it["up"]
        parts = []
        if form == 4:
            parts = [_bound(low, st, "low"), "", _bound(up, st, "up")]
        else:
            if low["t"] != "none":
                parts.append(_bound(low, st, "low"))
            parts.append(init)
            if up["t"] != "none":
                parts.append(_bound(up, st, "up"))
        sep = st.pick([",", ", ", " , "]) if form != 4 else ","
        inside = sep.join(parts)
        if it["fix"] and form == 2:
            inside += f" {fixw}"
        txt = f"({inside})"
        if it["fix"] and form == 3:
            txt += f" {fixw}"
    if it["n"] > 1:
        txt += f"x{it['n']}"
    return txt


def render_theta_records(items, st: Style):
    """Distribute the items over one or more $THETA records / lines; optional trailing comments."""
    lines, cur = [], []
    for it in items:
        txt = render_theta_item(it, st)
        c = it.get("comment")
        if c is not None:
            cur.append(txt + " ; " + c)
            lines.append("  ".join(cur))
            cur = []
        else:
            cur.append(txt)
            if st.chance(0.6) or it["n"] > 1:
                lines.append("  ".join(cur))
                cur = []
    if cur:
        lines.append("  ".join(cur))
    out, first = [], True
    for ln in lines:
        if first or st.chance(0.4):
            out.append("$THETA " + ln)
            first = False
        else:
            out.append(" " + ln)
    return "\n".join(out)


def render_omega_record(rec, name, st: Style):
    t = rec["type"]
    if t == "diag":
        items = []
        for it in rec["items"]:
            v = _dec(it["n"], it["d"], st)
            opts = []
            if it["sd"]:
                opts.append(st.pick(["SD", "STANDARD"]))
            if it["fix"]:
                opts.append(st.pick(["FIX", "FIXED"]))
            if it["rep"] > 1:
                items.append(f"({v}{''.join(' ' + o for o in opts)})x{it['rep']}")
            elif opts and st.chance(0.3):
                items.append(f"({v} {' '.join(opts)})")
            else:
                items.append(v + "".join(" " + o for o in opts))
        head = f"${name}"
        if rec.get("diagonal_kw"):
            head += f" DIAGONAL({sum(i['rep'] for i in rec['items'])})"
        sep = "\n " if st.chance(0.3) else " "
        return head + " " + sep.join(items)
    if t == "block":
        opts = []
        if rec["chol"]:
            opts.append("CHOLESKY")
        else:
            if rec["sd"]:
                opts.append(st.pick(["STANDARD", "SD"]))
            elif st.chance(0.2):
                opts.append("VARIANCE")
            if rec["corr"]:
                opts.append(st.pick(["CORRELATION", "CORR"]))
            elif st.chance(0.2):
                opts.append("COVARIANCE")
        if rec["fix"]:
            opts.append(st.pick(["FIX", "FIXED"]))
        before = [o for o in opts if st.chance(0.5)]
        after = [o for o in opts if o not in before]
        head = f"${name} " + "".join(o + " " for o in before) + f"BLOCK({rec['size']})" + "".join(" " + o for o in after)
        vals = [_dec(v["n"], v["d"], st) for v in rec["vals"]]
        rows, p = [], 0
        for i in range(1, rec["size"] + 1):
            rows.append(" ".join(vals[p:p + i]))
            p += i
        if st.chance(0.5):
            return head + "\n " + "\n ".join(rows)
        return head + " " + " ".join(rows)
    if t == "same":
        size = rec.get("size", 0)
        blk = f"BLOCK({size})" if size and not rec.get("bare") else "BLOCK"
        same = "SAME" if rec["times"] == 1 and not rec.get("explicit_times") else f"SAME({rec['times']})"
        return f"${name} {blk} {same}"
    raise ValueError(t)


def render_param_model(case, st: Style, datapath="pheno.dta"):
    th = render_theta_records(case["thetas"], st)
    om = "\n".join(render_omega_record(r, "OMEGA", st) for r in case["omegas"])
    sg = "\n".join(render_omega_record(r, "SIGMA", st) for r in case["sigmas"])
    return (
        f"$PROBLEM C01 parameter case {case['id']}\n"
        f"$INPUT ID TIME DV\n"
        f"$DATA {datapath} IGNORE=@\n"
        f"$PRED\nY = THETA(1) + ETA(1) + EPS(1)\n"
        f"{th}\n{om}\n{sg}\n"
        f"$ESTIMATION METHOD=1 INTER\n"
    )
