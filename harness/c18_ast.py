"""C18 helper: abstract MFL statements (JSON ASTs shared with spec/mfl/MFL.tla), the AST -> text renderer and the
projection of pharmpy objects to plain JSON.  Nothing in here decides anything: the expansions, unions,
differences ... that a case must show are computed by TLC from the same ASTs.

Statement AST (uniform per kind so that TLC can hold statements of one kind in a set):
  mode kinds   {"k": ABSORPTION|ELIMINATION|LAGTIME|DIRECTEFFECT|EFFECTCOMP|METABOLITE,
                "form": one|list|wild, "v": [tokens]}
  count kinds  {"k": TRANSITS|PERIPHERALS, "form": one|list|range, "v": [ints] (range: [lo, hi]),
                "f2": none|one|list|wild, "v2": [tokens]}
  INDIRECTEFFECT {"k", "form": one|list|wild, "v": [modes], "f2": one|wild, "v2": [PRODUCTION|DEGRADATION]}
  COVARIATE    {"k", "opt": bool, "pform": one|list|ref, "p": [names], "cform": .., "c": [names],
                "eform": one|list|wild, "e": [effects], "op": none|*|+}
  LET          {"k", "name": X, "form": one|list, "v": [names]}
  ALLOMETRY    {"k", "cov": name, "ref": none|"70"|"75.5"}
An *item* is a short sequence of statements (a LET travels with the COVARIATE that refers to it).
"""
from __future__ import annotations

import random

ABS = ["FO", "ZO", "SEQ-ZO-FO", "INST"]
ELIM = ["FO", "ZO", "MM", "MIX-FO-MM"]
LAG = ["ON", "OFF"]
PD = ["LINEAR", "EMAX", "SIGMOID"]
PROD = ["DEGRADATION", "PRODUCTION"]
MET = ["PSC", "BASIC"]
DEPOT = ["DEPOT", "NODEPOT"]
PERMODE = ["DRUG", "MET"]
MODES = {"ABSORPTION": ABS, "ELIMINATION": ELIM, "LAGTIME": LAG, "DIRECTEFFECT": PD, "EFFECTCOMP": PD, "METABOLITE": MET}
FPS = ["LIN", "CAT", "CAT2", "PIECE_LIN", "EXP", "POW"]
PARAMS = ["CL", "V", "MAT"]
COVS = ["WGT", "AGE", "SEX"]


def mode(k, form, v=()):
    return {"k": k, "form": form, "v": list(v)}


def count(k, form, v, f2="none", v2=()):
    return {"k": k, "form": form, "v": list(v), "f2": f2, "v2": list(v2)}


def cov(opt, p, c, e, op="none", pform=None, cform=None, eform=None):
    p, c, e = list(p), list(c), list(e)
    return {
        "k": "COVARIATE", "opt": opt,
        "pform": pform or ("one" if len(p) == 1 else "list"), "p": p,
        "cform": cform or ("one" if len(c) == 1 else "list"), "c": c,
        "eform": eform or ("one" if len(e) == 1 else "list"), "e": e, "op": op,
    }


def let(name, v):
    v = list(v)
    return {"k": "LET", "name": name, "form": "one" if len(v) == 1 else "list", "v": v}


def allom(covname, ref="none"):
    return {"k": "ALLOMETRY", "cov": covname, "ref": ref}


def base_items():
    """The deterministic alphabet: every feature kind, singles / lists / ranges / wildcards / second arguments / LET.
    Returns (names, items); the names are used for the seed-independent core groups."""
    names, it = [], []

    def A(name, *s):
        names.append(name)
        it.append(list(s))

    A("abs_fo", mode("ABSORPTION", "one", ["FO"]))
    A("abs_inst", mode("ABSORPTION", "one", ["INST"]))
    A("abs_fo_zo", mode("ABSORPTION", "list", ["FO", "ZO"]))
    A("abs_zo_seq_inst", mode("ABSORPTION", "list", ["ZO", "SEQ-ZO-FO", "INST"]))
    A("abs_wild", mode("ABSORPTION", "wild"))
    A("elim_mm", mode("ELIMINATION", "one", ["MM"]))
    A("elim_fo_mm", mode("ELIMINATION", "list", ["FO", "MM"]))
    A("elim_zo_mix_fo", mode("ELIMINATION", "list", ["ZO", "MIX-FO-MM", "FO"]))
    A("elim_wild", mode("ELIMINATION", "wild"))
    A("lag_on", mode("LAGTIME", "one", ["ON"]))
    A("lag_off", mode("LAGTIME", "one", ["OFF"]))
    A("lag_on_off", mode("LAGTIME", "list", ["ON", "OFF"]))
    A("lag_wild", mode("LAGTIME", "wild"))
    A("tr_1", count("TRANSITS", "one", [1]))
    A("tr_0", count("TRANSITS", "one", [0]))
    A("tr_13_nodepot", count("TRANSITS", "list", [1, 3], "one", ["NODEPOT"]))
    A("tr_0_2_wild", count("TRANSITS", "range", [0, 2], "wild"))
    A("tr_21_both", count("TRANSITS", "list", [2, 1], "list", ["DEPOT", "NODEPOT"]))
    A("tr_2_nodepot", count("TRANSITS", "one", [2], "one", ["NODEPOT"]))
    A("tr_1_3", count("TRANSITS", "range", [1, 3]))
    A("tr_2_depot", count("TRANSITS", "one", [2], "one", ["DEPOT"]))
    A("per_1", count("PERIPHERALS", "one", [1]))
    A("per_0", count("PERIPHERALS", "one", [0]))
    A("per_0_2", count("PERIPHERALS", "range", [0, 2]))
    A("per_21", count("PERIPHERALS", "list", [2, 1]))
    A("per_123", count("PERIPHERALS", "list", [1, 2, 3]))
    A("per_1_met", count("PERIPHERALS", "one", [1], "one", ["MET"]))
    A("per_1_2_wild", count("PERIPHERALS", "range", [1, 2], "wild"))
    A("per_02_both", count("PERIPHERALS", "list", [0, 2], "list", ["DRUG", "MET"]))
    A("per_0_1_drug", count("PERIPHERALS", "range", [0, 1], "one", ["DRUG"]))
    A("de_lin", mode("DIRECTEFFECT", "one", ["LINEAR"]))
    A("de_emax_sig", mode("DIRECTEFFECT", "list", ["EMAX", "SIGMOID"]))
    A("de_wild", mode("DIRECTEFFECT", "wild"))
    A("ec_emax", mode("EFFECTCOMP", "one", ["EMAX"]))
    A("ec_lin_emax", mode("EFFECTCOMP", "list", ["LINEAR", "EMAX"]))
    A("ec_wild", mode("EFFECTCOMP", "wild"))
    A("ind_lin_prod", count("INDIRECTEFFECT", "one", ["LINEAR"], "one", ["PRODUCTION"]))
    A("ind_lin_emax_wild", count("INDIRECTEFFECT", "list", ["LINEAR", "EMAX"], "wild"))
    A("ind_wild_deg", count("INDIRECTEFFECT", "wild", [], "one", ["DEGRADATION"]))
    A("ind_wild_wild", count("INDIRECTEFFECT", "wild", [], "wild"))
    A("ind_emax_sig_deg", count("INDIRECTEFFECT", "list", ["EMAX", "SIGMOID"], "one", ["DEGRADATION"]))
    A("met_psc", mode("METABOLITE", "one", ["PSC"]))
    A("met_basic", mode("METABOLITE", "one", ["BASIC"]))
    A("met_basic_psc", mode("METABOLITE", "list", ["BASIC", "PSC"]))
    A("met_wild", mode("METABOLITE", "wild"))
    A("cov_cl_wgt_exp", cov(False, ["CL"], ["WGT"], ["EXP"]))
    A("cov_clv_wgt_explin_plus", cov(False, ["CL", "V"], ["WGT"], ["EXP", "LIN"], "+"))
    A("covopt_cl_wgt_exp", cov(True, ["CL"], ["WGT"], ["EXP"]))
    A("covopt_clv_wgtage_wild", cov(True, ["CL", "V"], ["WGT", "AGE"], [], eform="wild"))
    A("cov_refx_wgt_pow", let("X", ["CL", "MAT"]), cov(False, ["X"], ["WGT"], ["POW"], pform="ref"))
    A("covopt_v_refy_cat", let("Y", ["SEX"]), cov(True, ["V"], ["Y"], ["CAT"], cform="ref"))
    A("cov_v_age_piece", cov(False, ["V"], ["AGE"], ["PIECE_LIN"], "*"))
    A("covopt_mat_agesex_cat2lin_plus", cov(True, ["MAT"], ["AGE", "SEX"], ["CAT2", "LIN"], "+"))
    A("cov_cl_wgt_wild", cov(False, ["CL"], ["WGT"], [], eform="wild"))  # refused: mandatory effects must be explicit
    A("allom_wgt", allom("WGT"))
    A("allom_wgt_70", allom("WGT", "70"))
    A("allom_wt_755", allom("WT", "75.5"))
    return names, it


# seed-independent focus groups of the quick tier: every known defect class of the algebra is met by one of them
CORE_GROUPS = [
    ["abs_fo", "abs_fo_zo", "abs_wild", "lag_wild"],
    ["tr_1", "tr_2_nodepot", "tr_2_depot", "tr_0_2_wild"],
    ["per_1", "per_123", "per_1_2_wild", "per_1_met"],
    ["met_psc", "met_basic_psc", "met_wild", "per_02_both"],
    ["de_lin", "de_emax_sig", "de_wild", "ec_lin_emax"],
    ["ind_lin_prod", "ind_lin_emax_wild", "ind_emax_sig_deg", "ind_wild_deg"],
    ["cov_cl_wgt_exp", "covopt_cl_wgt_exp", "cov_clv_wgt_explin_plus", "cov_refx_wgt_pow"],
    ["allom_wgt_70", "allom_wt_755", "elim_mm", "lag_on"],
    ["elim_fo_mm", "elim_wild", "tr_13_nodepot", "allom_wgt"],
]


def pk_statement(rng: random.Random, k: str, nmax: int = 3):
    """A wildcard-free PK statement for the composite search spaces the enumeration algorithms are run on."""
    if k in MODES:
        n = rng.randint(1, min(nmax, len(MODES[k])))
        v = rng.sample(MODES[k], n)
        return mode(k, "one" if n == 1 else "list", v)
    if k == "TRANSITS":
        r = rng.random()
        if r < 0.4:
            form, v = "one", [rng.randint(0, 3)]
        elif r < 0.7:
            form, v = "list", rng.sample(range(0, 4), 2)
        else:
            lo = rng.randint(0, 1)
            form, v = "range", [lo, lo + 1]
        r = rng.random()
        f2, v2 = ("none", []) if r < 0.5 else ("one", ["NODEPOT"]) if r < 0.75 else ("list", ["DEPOT", "NODEPOT"])
        return count(k, form, v, f2, v2)
    r = rng.random()
    if r < 0.3:
        return count(k, "one", [rng.randint(1, 2)])
    if r < 0.6:
        lo = rng.randint(0, 1)
        return count(k, "range", [lo, lo + rng.randint(1, 2)])
    if r < 0.8:
        return count(k, "list", [1, 2, 3])
    return count(k, "list", rng.sample(range(0, 4), rng.randint(2, 3)))


def composite_item(rng: random.Random):
    kinds = rng.sample(["ABSORPTION", "ELIMINATION", "LAGTIME", "TRANSITS", "PERIPHERALS"], rng.randint(2, 4))
    order = ["ABSORPTION", "ELIMINATION", "TRANSITS", "PERIPHERALS", "LAGTIME"]
    if rng.random() < 0.5:
        kinds.sort(key=order.index)
    return [pk_statement(rng, k) for k in kinds]


# composite spaces that are always part of the run (documented example; the peripheral-order defects)
FIXED_COMPOSITES = [
    [mode("ABSORPTION", "one", ["ZO"]), mode("ELIMINATION", "one", ["MM"]), count("PERIPHERALS", "one", [1])],
    [mode("ABSORPTION", "list", ["FO", "ZO"]), count("PERIPHERALS", "list", [1, 2, 3])],
    [mode("ELIMINATION", "list", ["FO", "MM"]), count("PERIPHERALS", "list", [2, 1])],
    [mode("ABSORPTION", "list", ["FO", "ZO", "SEQ-ZO-FO"]), count("TRANSITS", "list", [0, 1], "list", ["DEPOT", "NODEPOT"]),
     mode("LAGTIME", "list", ["OFF", "ON"])],
    [mode("ABSORPTION", "list", ["INST", "FO"]), mode("LAGTIME", "one", ["ON"]), count("PERIPHERALS", "range", [0, 1])],
    [mode("ABSORPTION", "one", ["FO"]), count("PERIPHERALS", "range", [1, 2])],
]


def random_item(rng: random.Random):
    k = rng.choice(["ABSORPTION", "ELIMINATION", "LAGTIME", "TRANSITS", "TRANSITS", "PERIPHERALS", "PERIPHERALS",
                    "DIRECTEFFECT", "EFFECTCOMP", "INDIRECTEFFECT", "METABOLITE", "COVARIATE", "COVARIATE"])
    if k in MODES:
        r = rng.random()
        if r < 0.15:
            return [mode(k, "wild")]
        n = 1 if r < 0.5 else rng.randint(2, len(MODES[k]))
        v = rng.sample(MODES[k], n)
        return [mode(k, "one" if n == 1 and rng.random() < 0.8 else "list", v)]
    if k in ("TRANSITS", "PERIPHERALS"):
        r = rng.random()
        if r < 0.35:
            form, v = "one", [rng.randint(0, 3)]
        elif r < 0.65:
            lo = rng.randint(0, 2)
            form, v = "range", [lo, rng.randint(lo, 3)]
        else:
            form, v = "list", rng.sample(range(0, 5), rng.randint(1, 3))
        alt = DEPOT if k == "TRANSITS" else PERMODE
        r = rng.random()
        if r < 0.4:
            f2, v2 = "none", []
        elif r < 0.7:
            f2, v2 = "one", [rng.choice(alt)]
        elif r < 0.85:
            f2, v2 = "list", rng.sample(alt, rng.randint(1, 2))
        else:
            f2, v2 = "wild", []
        return [count(k, form, v, f2, v2)]
    if k == "INDIRECTEFFECT":
        r = rng.random()
        if r < 0.25:
            form, v = "wild", []
        else:
            n = rng.randint(1, 3)
            form, v = ("one" if n == 1 else "list"), rng.sample(PD, n)
        if rng.random() < 0.3:
            f2, v2 = "wild", []
        else:
            f2, v2 = "one", [rng.choice(PROD)]
        return [count(k, form, v, f2, v2)]
    # COVARIATE
    opt = rng.random() < 0.5
    p = rng.sample(PARAMS, rng.randint(1, 2))
    c = rng.sample(COVS, rng.randint(1, 2))
    if opt and rng.random() < 0.2:
        e, eform = [], "wild"
    else:
        e, eform = rng.sample(FPS, rng.randint(1, 2)), None
    op = rng.choice(["none", "none", "*", "+"])
    out = []
    pform = cform = None
    if rng.random() < 0.2:
        out.append(let("PX", p))
        p, pform = ["PX"], "ref"
    elif rng.random() < 0.2:
        out.append(let("CX", c))
        c, cform = ["CX"], "ref"
    out.append(cov(opt, p, c, e, op, pform=pform, cform=cform, eform=eform))
    return out


CATEGORY_OF_KIND = {"LET": "COVARIATE"}


def item_kinds(item):
    return sorted({CATEGORY_OF_KIND.get(s["k"], s["k"]) for s in item})


# ------------------------------------------------------------------------------------------------ rendering


def _tok(t, rng):
    if rng is not None and rng.random() < 0.25:
        return t.lower()
    return t


def _arr(vals, form, rng):
    sep = ", " if rng is not None and rng.random() < 0.3 else ","
    vals = [str(x) for x in vals]
    if form == "wild":
        return "*"
    if form == "range":
        return f"{vals[0]}..{vals[1]}"
    if form == "one":
        return vals[0]
    return "[" + sep.join(vals) + "]"


def render_stmt(s, rng=None):
    k = s["k"]
    name = _tok(k, rng)
    T = lambda xs: [_tok(x, rng) for x in xs]
    if k in MODES:
        return f"{name}({_arr(T(s['v']), s['form'], rng)})"
    if k in ("TRANSITS", "PERIPHERALS", "INDIRECTEFFECT"):
        first = _arr(s["v"] if k != "INDIRECTEFFECT" else T(s["v"]), s["form"], rng)
        if s["f2"] == "none":
            return f"{name}({first})"
        return f"{name}({first},{_arr(T(s['v2']), s['f2'], rng)})"
    if k == "COVARIATE":
        def nm(form, v):
            return "@" + v[0] if form == "ref" else _arr(T(v), form, rng)

        args = [nm(s["pform"], s["p"]), nm(s["cform"], s["c"]), _arr(T(s["e"]), s["eform"], rng)]
        if s["op"] != "none":
            args.append(s["op"])
        return f"{name}{'?' if s['opt'] else ''}({','.join(args)})"
    if k == "LET":
        return f"{name}({s['name']},{_arr(T(s['v']), s['form'], rng)})"
    if k == "ALLOMETRY":
        return f"{name}({s['cov']})" if s["ref"] == "none" else f"{name}({s['cov']},{s['ref']})"
    raise ValueError(k)


def render(stmts, rng=None):
    """AST list -> MFL text.  With rng: random letter case, blanks after commas and `;` / newline separators."""
    parts = [render_stmt(s, rng) for s in stmts]
    if rng is None:
        return ";".join(parts)
    out = parts[0] if parts else ""
    for p in parts[1:]:
        out += rng.choice([";", ";", "\n", " ; "]) + p
    return out


# ------------------------------------------------------------------------------------------------ projections

CATS = ["ABSORPTION", "ELIMINATION", "TRANSITS", "PERDRUG", "PERMET", "LAGTIME", "DIRECT", "EFFECTCOMP", "INDIRECT",
        "METABOLITE", "COVARIATE"]


def key_to_cat_opt(key):
    """funcs key of pharmpy -> (category, option as JSON-able value) in the vocabulary of MFL.tla."""
    k = key[0]
    if k in ("ABSORPTION", "ELIMINATION", "LAGTIME", "DIRECT", "EFFECTCOMP", "METABOLITE"):
        return k, key[1]
    if k == "TRANSITS":
        return k, [int(key[1]), key[2]]
    if k == "PERIPHERALS":
        if len(key) == 2:
            return "PERDRUG", int(key[1])
        return "PERMET", int(key[1])
    if k == "INDIRECT":
        return k, [key[1], key[2]]
    if k == "COVARIATE":
        return k, [key[1], key[2], str(key[3]).upper(), key[4], key[5]]
    return k, [str(x) for x in key[1:]]


def norm_opt(o):
    return tuple(o) if isinstance(o, list) else o


def project_funcs(keys):
    out = {c: set() for c in CATS}
    for key in keys:
        c, o = key_to_cat_opt(key)
        out.setdefault(c, set()).add(norm_opt(o))
    return out


def spec_sets(rec):
    """TLC's record category -> list of options  ==>  category -> set of hashable options."""
    out = {}
    for c in CATS:
        xs = rec.get(c, [])
        out[c] = {norm_opt(x) for x in (xs if isinstance(xs, list) else [])}
    return out


def show(sets):
    return {c: sorted(map(lambda x: list(x) if isinstance(x, tuple) else x, v), key=str) for c, v in sets.items() if v}
