"""C04, $OMEGA / $SIGMA part of the driver (see c04_params.py): rendering of Omega.tla layouts, the
independent item splitter for the spelling frame, replay of the edit steps through the public API."""
from __future__ import annotations

import json
import re

from . import core
from .c04_params import (
    close,
    fr,
    is_subseq,
    num,
    proj_rvs,
    proj_thetas,
    same_params,
    same_rvs,
    split_records,
    tokens,
)

_BASE = dict(MaxRecs=2, MaxEtas=4, MaxEdits=1, MaxDiagItems=2, Sizes="{1, 2}", Scales='{"VC", "SC", "VR", "SR", "CH"}',
             DiagSd="{TRUE, FALSE}", DiagReps="{2}", NameOpts="{TRUE, FALSE}", HdrOpts="{FALSE}", AllowSame="TRUE",
             BlockRep="{FALSE}", Structural="TRUE", RichPos=1, TailFix="{FALSE}", TailSizes="{2}", MaxTailItems=1,
             NEditVals=1, NSlices=1, FixPos='{"hdr", "first", "firstpar", "prefix", "last"}')
OMEGA_PROFILES = {
    # all layouts of <= 2 records, the first from the full alphabets, one edit
    "A": dict(_BASE, NSlices=6),
    # the rich record second; two edits; DIAGONAL(n) headers; sliced by seed
    "B": dict(_BASE, RichPos=2, MaxEdits=2, NameOpts="{FALSE}", HdrOpts="{TRUE, FALSE}", TailFix="{TRUE, FALSE}", TailSizes="{1, 2}", MaxTailItems=2, NSlices=140),
    # $SIGMA records: value / fix edits only
    "S": dict(_BASE, Structural="FALSE", MaxEtas=3, NSlices=4),
    "TA": dict(_BASE, MaxRecs=2, MaxEtas=5, Sizes="{1, 2, 3}", BlockRep="{TRUE, FALSE}", HdrOpts="{TRUE, FALSE}",
               DiagReps="{2, 3}", NEditVals=2, TailFix="{TRUE, FALSE}", TailSizes="{1, 2}", NSlices=2),
    "TB": dict(_BASE, RichPos=2, MaxRecs=3, MaxEtas=5, MaxEdits=2, Sizes="{1, 2, 3}", TailSizes="{1, 2}", MaxTailItems=2, NSlices=40),
    "TC": dict(_BASE, MaxEdits=3, Scales='{"VC", "SR"}', DiagSd="{FALSE}", NameOpts="{FALSE}", NSlices=16),
    "TS": dict(_BASE, Structural="FALSE", MaxEtas=4, MaxEdits=2, Sizes="{1, 2, 3}", NSlices=4),
}
OMEGA_INVARIANTS = ["EtaNamesUnique", "BlocksValid", "ParamNamesUnique", "ScaleRoundTrip", "EmitCase"]
OMEGA_ACTIONS = ["NewDiag", "AddDiagItem", "NewBlock", "StartEdit", ("DoSetInit", "SetInit"), ("DoFix", "DoUnfix", "SetFix")]
OMEGA_STRUCT_ACTIONS = [("DoAddEta", "AddEta"), ("DoRemoveEta", "RemoveEta"), ("DoJoin", "Join"), ("DoSplit", "Split")]

SCALE_WORDS = {"VC": "", "SC": " SD", "VR": " VARIANCE CORRELATION", "SR": " SD CORR", "CH": " CHOLESKY"}


# ----------------------------------------------------------------------------- rendering


def diag_item_text(it) -> str:
    s = num(it["v"])
    if it["fix"]:
        s += " FIX"
    if it["sd"]:
        s += " SD"
    if it["par"]:
        s = f"({s})"
    if it["rep"] > 1:
        s += f"x{it['rep']}"
    if it["name"]:
        s += f" ; {it['name']}"
    return s


def block_header_text(rec) -> str:
    if rec["kind"] == "SAME":
        return ("BLOCK" if rec["bare"] else f"BLOCK({rec['size']})") + " SAME"
    return f"BLOCK({rec['size']})" + (" FIX" if rec["fix"] and rec.get("fixpos", "hdr") == "hdr" else "") + SCALE_WORDS[rec["scale"]]


def block_value_texts(rec):
    """one text per spelled value of the lower triangle (name comment attached to the diagonal ones)"""
    out = []
    k = 0
    for i in range(1, rec["size"] + 1):
        for j in range(1, i + 1):
            s = num(rec["vals"][k])
            fp = rec.get("fixpos", "hdr") if rec["fix"] else "hdr"
            if k == 0 and fp in ("first", "firstpar", "prefix"):
                s = {"first": f"{s} FIX", "firstpar": f"({s} FIX)", "prefix": f"(FIXED {s})"}[fp]
            if k == len(rec["vals"]) - 1 and fp == "last":
                s = f"{s} FIX"
            if i == j and rec["names"][i - 1]:
                s += f" ; {rec['names'][i - 1]}"
            out.append(s)
            k += 1
    return out


def records_text(recs, name="$OMEGA") -> str:
    out = []
    for rec in recs:
        if rec["kind"] == "DIAG":
            line = name
            if rec["hdr"]:
                line += f" DIAGONAL({sum(it['rep'] for it in rec['items'])})"
            for it in rec["items"]:
                line += " " + diag_item_text(it)
                if it["name"]:
                    line += "\n"
            if not line.endswith("\n"):
                line += "\n"
            out.append(line)
        elif rec["kind"] == "SAME":
            out.append(f"{name} {block_header_text(rec)}\n")
        else:
            vals = block_value_texts(rec)
            lines = [f"{name} {block_header_text(rec)}"]
            k = 0
            for i in range(1, rec["size"] + 1):
                row = vals[k : k + i]
                k += i
                if rec["rep"] and i == 3:
                    row = [f"({row[0]})x2", row[2]]
                lines.append(" " + " ".join(row))
            out.append("\n".join(lines) + "\n")
    return "".join(out)


OMEGA_MODEL = """$PROBLEM C04 omega layouts
$DATA pheno.dta IGNORE=@
$INPUT ID TIME AMT WGT APGR DV
$SUBROUTINE ADVAN1 TRANS2
$PK
{pk}CL=THETA(1)
V=THETA(2)
S1=V
$ERROR
{err}
$THETA (0,1) ; TVCL
$THETA (0,2) ; TVV
{omegas}{sigmas}$ESTIMATION METHOD=1 INTERACTION
"""


def model_text(case) -> str:
    n = case["netas"]
    if case["structural"]:
        pk = "".join(f"E{k}=ETA({k})\n" for k in range(1, n + 1))
        return OMEGA_MODEL.format(pk=pk, err="Y=F+F*EPS(1)", omegas=records_text(case["recs"]), sigmas="$SIGMA 0.3\n")
    err = "Y=F" + "".join(f"+EPS({k})" for k in range(1, n + 1))
    return OMEGA_MODEL.format(pk="E1=ETA(1)\n", err=err, omegas="$OMEGA 0.3\n", sigmas=records_text(case["recs"], "$SIGMA"))


def layout_text(case) -> str:
    return records_text(case["recs"], "$OMEGA" if case["structural"] else "$SIGMA")


# ----------------------------------------------------------------------------- spelling items

_WORD = re.compile(r"^[A-Za-z]+$")


def items_of(code: str, prefix: str):
    """Independent (regex) splitter of the $OMEGA / $SIGMA records of `code` into header and value items."""
    items = []
    for _, body in split_records(code, (prefix,)):
        toks = tokens(body)
        i = 0
        header = []
        while i < len(toks):
            t = toks[i]
            if _WORD.match(t) and not re.fullmatch(r"[xX]", t):
                header.append(t)
                i += 1
                if i + 2 < len(toks) and toks[i] == "(" and toks[i + 1].isdigit() and toks[i + 2] == ")" and t.upper()[:3] in ("BLO", "DIA", "SAM"):
                    header += toks[i : i + 3]
                    i += 3
            elif t.startswith(";") and header:
                i += 1
            else:
                break
        if header:
            items.append(tuple(header))
        first = True
        while i < len(toks):
            t = toks[i]
            if t == "(":
                j = i
                while j < len(toks) and toks[j] != ")":
                    j += 1
                cur = toks[i : j + 1]
                i = j + 1
                if i < len(toks) and re.fullmatch(r"[xX]\d+", toks[i]):
                    cur.append(toks[i])
                    i += 1
                items.append(cur)
            elif t.startswith(";"):
                if not first:
                    items[-1] = list(items[-1]) + [t]
                i += 1
            elif _WORD.match(t) and not first:
                items[-1] = list(items[-1]) + [t]
                i += 1
            else:
                items.append([t])
                i += 1
            first = False
    return [tuple(x) for x in items]


def spellings(case):
    out = {}
    for r, rec in enumerate(case["recs"], start=1):
        if rec["kind"] == "DIAG":
            if rec["hdr"]:
                out[(r, 0)] = tuple(tokens(f"DIAGONAL({sum(it['rep'] for it in rec['items'])})"))
            for it in rec["items"]:
                out[tuple(it["id"])] = tuple(tokens(diag_item_text(it)))
        else:
            out[(r, 0)] = tuple(tokens(block_header_text(rec)))
            if rec["kind"] == "BLOCK":
                vals = block_value_texts(rec)
                for k, s in enumerate(vals, start=1):
                    out[(r, k)] = tuple(tokens(s))
                if rec["rep"]:
                    out[(r, 4)] = tuple(tokens(f"({vals[3]})x2"))
                    out[(r, 5)] = None  # expressed by the repeat
    return out


# ----------------------------------------------------------------------------- spec meaning vs real model


def blocks_match_spec(actual, expect):
    """actual: proj_rvs entries of the etas (or epsilons); expect: TLC's blocks.  Order-free over blocks and over the
    etas inside a block (name keyed); a covariance [0,0] / a name "?" is not constrained."""
    if len(actual) != len(expect):
        return f"{len(actual)} distributions, specification has {len(expect)}"
    by = {frozenset(a["etas"]): a for a in actual}
    for e in expect:
        a = by.get(frozenset(e["etas"]))
        if a is None:
            return f"no distribution over {e['etas']}"
        if a["level"] != e["level"]:
            return f"{e['etas']}: level {a['level']} != {e['level']}"
        n = len(a["etas"])
        pos = {nm: i for i, nm in enumerate(a["etas"])}

        def entry(x, y):
            i, j = max(pos[x], pos[y]), min(pos[x], pos[y])
            return a["entries"][i * (i + 1) // 2 + j]

        for i, x in enumerate(e["etas"]):
            for j, y in enumerate(e["etas"][: i + 1]):
                ent = entry(x, y)
                want = e["m"][i][j]
                if want[1] != 0 and not close(ent[1], float(fr(want))):
                    return f"cov({x},{y}) = {ent[1]} != {float(fr(want))}"
                if ent[4] != e["fix"]:
                    return f"cov({x},{y}) fix = {ent[4]} != {e['fix']}"
                wn = e["pn"][i][j]
                if wn != "?" and ent[0] != wn:
                    return f"parameter of cov({x},{y}) is named {ent[0]!r}, expected {wn!r}"
                lo_ok = close(ent[2], 0.0) if i == j else ent[2] == float("-inf")
                if not lo_ok or ent[3] != float("inf"):
                    return f"bounds of cov({x},{y}) are ({ent[2]}, {ent[3]})"
        if len(a["etas"]) != n:
            return "size"
    return None


def _dist(m, eta):
    for d in m.random_variables:
        if eta in d.names:
            return d
    raise KeyError(eta)


def _apply(m, e, prefix):
    from pharmpy.modeling import (
        add_iiv,
        create_joint_distribution,
        fix_parameters,
        remove_iiv,
        set_initial_estimates,
        split_joint_distribution,
        unfix_parameters,
    )

    def nm(x):
        return x.replace("ETA_", "EPS_") if prefix == "SIG" else x

    op = e["op"]
    if op == "SetInit":
        d = _dist(m, nm(e["a"]))
        names = list(d.names)
        if len(names) == 1:
            sym = d.variance
        else:
            sym = d.variance[names.index(nm(e["a"])), names.index(nm(e["b"]))]
        return set_initial_estimates(m, {sym.name: float(fr(e["v"]))})
    if op in ("Fix", "Unfix"):
        d = _dist(m, nm(e["etas"][0]))
        pn = list(d.parameter_names)
        return fix_parameters(m, pn) if op == "Fix" else unfix_parameters(m, pn)
    if op == "AddEta":
        return add_iiv(m, e["target"], "exp")
    if op == "RemoveEta":
        if prefix == "SIG":  # no function removes an epsilon: take it out of the statements and drop what is unused
            from pharmpy.basic import Expr
            from pharmpy.modeling import remove_unused_parameters_and_rvs

            st = m.statements.subs({Expr.symbol(nm(e["eta"])): Expr.integer(0)})
            return remove_unused_parameters_and_rvs(m.replace(statements=st))
        return remove_iiv(m, [e["eta"]])
    if op == "Join":
        return create_joint_distribution(m, list(e["etas"]))
    if op == "Split":
        return split_joint_distribution(m, [e["eta"]])
    raise core.MachineryError(f"unknown omega edit {op}")


def _feats(case):
    recs = case["recs"]
    return {
        "kinds": [r["kind"] for r in recs],
        "has_same": any(r["kind"] == "SAME" for r in recs),
        "has_repeat": any(it["rep"] > 1 for r in recs for it in r["items"]),
        "sigma": not case["structural"],
    }


def replay_omega(case):
    from pharmpy.modeling import read_model_from_string

    prefix = "OME" if case["structural"] else "SIG"
    level_sel = (lambda d: d["level"] != "RUV") if case["structural"] else (lambda d: d["level"] == "RUV")

    def sel(model):
        out = [d for d in proj_rvs(model) if level_sel(d)]
        if not case["structural"]:
            out = [dict(d, etas=[x.replace("EPS_", "ETA_") for x in d["etas"]], level="IIV" if not d["same"] else "IOV") for d in out]
        return out

    text = model_text(case)
    base = {"sec": "omega" if case["structural"] else "sigma", "profile": case.get("profile"), "layout": layout_text(case),
            "edits": [s["edit"] for s in case["steps"]], "feat": _feats(case), "tlc_case": case}
    try:
        m = read_model_from_string(text)
    except Exception as ex:
        return [("skip:not_accepted:" + type(ex).__name__, base, None)]
    out = []

    def bad(step, outcome, what, **extra):
        rec = dict(base)
        rec["step"] = step
        rec["outcome"] = outcome
        rec.update(extra)
        out.append(("violation", rec, what))

    def expect_of(blocks):
        if case["structural"]:
            return blocks
        # epsilons have no IOV level in pharmpy: compare SAME copies through the shared parameters only
        return [dict(b, level="IOV" if b["same"] else "IIV") for b in blocks]

    why = blocks_match_spec(sel(m), expect_of(case["read"]))
    if why:
        bad({"index": 0, "op": "Read"}, "read_meaning_mismatch", f"layout read differently from its meaning: {why}")
        return out
    spell = spellings(case)
    allids = [k for k in sorted(spell) if spell[k] is not None]
    steps = [{"edit": {"op": "Empty"}, "expect": case["read"], "untouched": [list(k) for k in allids], "feat": {}}] + case["steps"]
    respelled: set = set()
    for idx, s in enumerate(steps):
        e = s["edit"]
        stepinfo = dict(s["feat"], index=idx, op=e["op"])
        stepinfo["removal_in_repeat_record"] = e["op"] in ("RemoveEta", "Join") and bool(s["feat"].get("rec_has_repeat"))
        stepinfo["removes_last_item"] = e["op"] in ("RemoveEta", "Join") and bool(s["feat"].get("last_of_multi"))
        try:
            m2 = m.update_source() if e["op"] == "Empty" else _apply(m, e, prefix)
            code = m2.code
        except core.MachineryError:
            raise
        except (ValueError, NotImplementedError) as ex:
            out.append(("skip:refused:" + type(ex).__name__, dict(base, refusal=f"{e['op']}: {str(ex)[:120]}"), None))
            return out
        except Exception as ex:
            bad(stepinfo, type(ex).__name__, f"{e['op']} raised {type(ex).__name__}: {str(ex)[:200]}")
            return out
        failed = False
        if not (e["op"] == "Empty" and code == text):
            try:
                rr = read_model_from_string(code)
            except Exception as ex:
                bad(stepinfo, "reread_error", f"generated code cannot be read back: {type(ex).__name__}: {str(ex)[:160]}", code=code)
                return out
            a, b = proj_rvs(m2), proj_rvs(rr)
            if not same_rvs(a, b):
                diff = next(((x, y) for x, y in zip(a, b) if not same_rvs([x], [y])), (len(a), len(b)))
                names_only = same_rvs([dict(x, entries=[[""] + p[1:] for p in x["entries"]]) for x in a],
                                      [dict(x, entries=[[""] + p[1:] for p in x["entries"]]) for x in b])
                bounds_only = same_rvs([dict(x, entries=[p[:2] + [0, 0] + p[4:] for p in x["entries"]]) for x in a],
                                       [dict(x, entries=[p[:2] + [0, 0] + p[4:] for p in x["entries"]]) for x in b])
                kind = "reread_names_mismatch" if names_only else "reread_bounds_mismatch" if bounds_only else "reread_mismatch"
                bad(stepinfo, kind, f"random variables of the re-read code differ from the in-memory model: {diff}", code=code)
                failed = True
            if not same_params(proj_thetas(m2), proj_thetas(rr)):
                bad(stepinfo, "reread_thetas_mismatch", "thetas of the re-read code differ from the in-memory model", code=code)
                failed = True
        why = blocks_match_spec(sel(m2), expect_of(s["expect"]))
        if why and not failed:
            bad(stepinfo, "meaning_mismatch", f"in-memory random variables differ from the specification: {why}", code=code)
            failed = True
        want = [spell[tuple(i)] for i in s["untouched"] if spell.get(tuple(i)) is not None and spell[tuple(i)] not in respelled]
        missing = is_subseq(want, items_of(code, prefix))
        if missing is not None:
            respelled.add(missing)
            bad(stepinfo, "spelling_changed", f"untouched item {' '.join(missing)} is no longer spelled that way in: "
                + " | ".join(b.strip() for _, b in split_records(code, (prefix,))), spell={"item": " ".join(missing)}, code=code)
        if failed:
            return out
        m = m2
    if not out:
        out.append(("ok", base, None))
    return out


def stratum(c):
    """coarse class of a case: record kinds / shapes and, per step, the edit with the features findings are keyed on"""
    def rk(r):
        if r["kind"] == "DIAG":
            return ("D", len(r["items"]), any(it["rep"] > 1 for it in r["items"]))
        return (r["kind"], r["size"], r["scale"] if r["kind"] == "BLOCK" else "", r.get("fixpos", "hdr") if r["fix"] else "")

    def sk(s):
        f = s["feat"]
        return (s["edit"]["op"], f.get("src_kind"), f.get("scale") if f.get("src_kind") == "BLOCK" else "", f.get("in_repeat"),
                f.get("fixed"), f.get("last_of_multi"), f.get("rec_has_repeat"), f.get("fixpos"),
                # joins replace runs of records: keep the shapes apart (which etas, how many values the record has)
                (s["edit"]["etas"], f.get("rec_items")) if s["edit"]["op"] == "Join" else None)

    # one-edit cases: class = kinds of records + step class; longer sequences: the step classes only
    cls = c.get("plain") or "no"
    one = len(c["steps"]) == 1
    extra = None
    if one and cls == "named" and c["steps"][0]["edit"]["op"] == "RemoveEta":
        # a value removed from a record mixing named and unnamed values: one class per (name pattern, position)
        f = c["steps"][0]["feat"]
        extra = (list(f.get("rec_names") or []), f.get("item_pos"))
    # classes of everyday layouts get priority 0: they are served in every run, before the other one-edit classes
    return json.dumps([0 if one and cls != "no" else len(c["steps"]), c["structural"], cls, [sk(s) for s in c["steps"]], extra])
