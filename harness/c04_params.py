"""C04 - Parameter and random-effect edits are written back exactly.

spec -> code : TLC explores Theta.tla / Omega.tla (layout chosen item by item in the "build" phase, then
               edit actions defined on the MEANING) and emits every terminal state as a case
               {layout, read meaning, steps: [edit, expected meaning, untouched item ids]}.
               The driver renders the layout into a fixed minimal model (pheno based), reads it with
               read_model_from_string, applies the edits through the public modeling API and after every
               step compares
                 (1) parameters / random variables of the re-read code with the in-memory model,
                 (2) both with the meaning TLC computed for the post-state,
                 (3) the token spelling of every item TLC lists as untouched with the new text.
A layout the reader rejects is "not accepted": counted, not judged.
"""
from __future__ import annotations

import json
import math
import os
import random
import re
import shutil
import threading
import time
from fractions import Fraction

from . import core

SPEC = core.SPEC / "records"

INTERNAL = (AttributeError, KeyError, IndexError, AssertionError, StopIteration, TypeError, ZeroDivisionError,
            RecursionError, UnboundLocalError, NameError)


# ----------------------------------------------------------------------------- TLC profiles

THETA_PROFILES = {
    # exhaustive over all 1-2 item layouts (first item: full alphabet), one edit
    "A": dict(MaxRecs=2, MaxItems=2, MaxParams=4, MaxEdits=1, Forms="{1, 2, 3, 5}",
              LowKinds='{"none", "inf", "mil", "val"}', UpKinds='{"none", "inf", "val"}', Reps="{2}",
              NameOpts="{TRUE, FALSE}", SpOpts="{0}", RepNames="FALSE", TailForms="{1, 3}",
              TailLowKinds='{"none", "val"}', TailUpKinds='{"none", "val"}', NEditVals=1, NSlices=6),
    # sequences of two edits, alternative spellings, repeats with comments, (low,,up), low=init=up forms; sliced by seed
    "B": dict(MaxRecs=2, MaxItems=2, MaxParams=5, MaxEdits=2, Forms="{1, 2, 3, 4, 5}",
              LowKinds='{"none", "inf", "val", "eq"}', UpKinds='{"none", "mil", "val", "eq"}', Reps="{2, 3}",
              NameOpts="{TRUE, FALSE}", SpOpts="{1}", RepNames="TRUE", TailForms="{1, 3, 5}",
              TailLowKinds='{"none", "val"}', TailUpKinds='{"none", "val"}', NEditVals=1, NSlices=720),
    # thorough: full square of two items, one edit, all kinds
    "TA": dict(MaxRecs=2, MaxItems=2, MaxParams=5, MaxEdits=1, Forms="{1, 2, 3, 4, 5}",
               LowKinds='{"none", "inf", "mil", "val", "eq"}', UpKinds='{"none", "inf", "mil", "val", "eq"}',
               Reps="{2, 3}", NameOpts="{TRUE, FALSE}", SpOpts="{0, 1}", RepNames="TRUE", TailForms="{1, 2, 3, 5}",
               TailLowKinds='{"none", "inf", "val"}', TailUpKinds='{"none", "inf", "val"}', NEditVals=2, NSlices=6),
    # thorough: three items in up to three records, two edits
    "TB": dict(MaxRecs=3, MaxItems=3, MaxParams=6, MaxEdits=2, Forms="{1, 3, 5}",
               LowKinds='{"none", "inf", "val"}', UpKinds='{"none", "val"}', Reps="{2}",
               NameOpts="{TRUE, FALSE}", SpOpts="{0}", RepNames="FALSE", TailForms="{1, 3, 5}",
               TailLowKinds='{"none", "val"}', TailUpKinds='{"none", "val"}', NEditVals=1, NSlices=600),
    # thorough: three edits on small layouts
    "TC": dict(MaxRecs=2, MaxItems=2, MaxParams=4, MaxEdits=3, Forms="{1, 3, 5}",
               LowKinds='{"none", "val"}', UpKinds='{"none", "val"}', Reps="{2}",
               NameOpts="{TRUE}", SpOpts="{0}", RepNames="FALSE", TailForms="{1, 3}",
               TailLowKinds='{"none"}', TailUpKinds='{"none"}', NEditVals=1, NSlices=2),
}
THETA_ACTIONS = [("DoNewRecord", "DoSameRecord", "AddItem"), "StartEdit", ("DoSetInit", "SetInit"),
                 ("DoSetLower", "SetLower"), ("DoSetUpper", "SetUpper"), ("DoFix", "Fix"), ("DoUnfix", "Unfix"),
                 ("DoAddTheta", "AddTheta"), ("DoRemoveTheta", "RemoveTheta")]


def _cfg_text(consts: dict, invariants: list[str]) -> str:
    lines = ["CONSTANTS"] + [f"  {k} = {v}" for k, v in consts.items()]
    lines += ["INIT Init", "NEXT Next"] + [f"INVARIANT {i}" for i in invariants] + ["CHECK_DEADLOCK FALSE"]
    return "\n".join(lines) + "\n"


def _budget(tier):
    budget = {"quick": (260, 300), "thorough": (15000, 15000)}[tier]
    scale = float(os.environ.get("VERIF_BUDGET_SCALE", "1"))  # < 1 only for fast mutant screening
    return (max(50, int(budget[0] * scale)), max(50, int(budget[1] * scale)))


def _run_profile(module: str, name: str, consts: dict, invariants, actions, seed: int, out: dict, workers=8, quota=None, sem=None):
    """Run one TLC profile.  The cases are reduced to `quota` (stratified, seeded) right here and TLC's output is
    dropped, so that the thorough tier never holds the ~10^6 emitted cases of all profiles in memory at once."""
    consts = dict(consts)
    consts["Slice"] = seed % consts["NSlices"]
    with sem if sem is not None else threading.Semaphore(1):
        d = core.scratch("c04-" + module.lower())
        cfg = d / f"{module}_{name}.cfg"
        cfg.write_text(_cfg_text(consts, invariants))
        try:
            res = core.run_tlc(SPEC / f"{module}.tla", cfg, workers=workers, timeout=3000, heap="2g")
        finally:
            shutil.rmtree(d, ignore_errors=True)
        cs = [c for tag, c in res.prints if tag == "CASE"]
        res.prints = []
        res.out = ""
        emitted = len(cs)
        for c in cs:
            c["profile"] = name
        if quota is not None and len(cs) > quota:
            from . import c04_omega

            cs, _ = _stratified(cs, _theta_stratum if module == "Theta" else c04_omega.stratum, quota, random.Random(seed * 7919 + len(name)))
        out[(module, name)] = (res, consts, cs, emitted)


def _tlc_all(tier: str, seed: int, v: core.Verdict):
    """Run every TLC profile of the tier (in parallel), check the design-level invariants, collect cases."""
    plan = []
    for n in (["A", "B"] if tier == "quick" else ["TA", "TB", "TC"]):
        plan.append(("Theta", n, THETA_PROFILES[n], ["NamesUnique", "BoundsOrdered", "WriteBackFaithful", "Frame", "EmitCase"], THETA_ACTIONS))
    from .c04_omega import OMEGA_ACTIONS, OMEGA_INVARIANTS, OMEGA_PROFILES, OMEGA_STRUCT_ACTIONS  # noqa: E402

    for n in (["A", "B", "S"] if tier == "quick" else ["TA", "TB", "TC", "TS"]):
        acts = OMEGA_ACTIONS + (OMEGA_STRUCT_ACTIONS if OMEGA_PROFILES[n]["Structural"] == "TRUE" else [])
        plan.append(("Omega", n, OMEGA_PROFILES[n], OMEGA_INVARIANTS, acts))
    out: dict = {}
    bud = _budget(tier)
    # thorough: at most three TLC outputs in memory at a time, each reduced to (at most) the section's whole budget
    sem = threading.Semaphore(5 if tier == "quick" else 3)
    quota = {"Theta": None if tier == "quick" else bud[0], "Omega": None if tier == "quick" else bud[1]}
    ths = [threading.Thread(target=_run_profile, args=(m, n, c, inv, acts, seed, out, 3 if tier == "quick" else 5, quota[m], sem))
           for m, n, c, inv, acts in plan]
    for t in ths:
        t.start()
    for t in ths:
        t.join()
    cases = {"Theta": [], "Omega": []}
    stats = {}
    emitted = 0
    for (m, n, c, inv, acts) in plan:
        if (m, n) not in out:
            raise core.MachineryError(f"{m}.tla profile {n}: TLC run failed to return")
        res, consts, cs, nem = out[(m, n)]
        core.require_ok(res, f"{m}.tla profile {n}")
        if res.violated:
            raise core.MachineryError(f"{m}.tla profile {n}: design-level invariant {res.violated} violated:\n" + "\n".join(res.trace[-2:])[:3000])
        core.require_actions(res, acts, f"{m}.tla profile {n}")
        core.tlc_stats_into(v, res)
        if not cs:
            raise core.MachineryError(f"{m}.tla profile {n} emitted no cases")
        cases[m].extend(cs)
        emitted += nem
        stats[f"{m}.{n}"] = {"states": res.distinct, "cases": nem, "wall_s": round(res.wall, 1), "slice": f"{consts['Slice']}/{consts['NSlices']}"}
    v.add_coverage(tlc_profiles=stats, cases_emitted_by_tlc=emitted)
    return cases


# ----------------------------------------------------------------------------- rendering (AST -> text)


def fr(q) -> Fraction | float:
    n, d = q
    if d == 0:
        return math.inf if n > 0 else -math.inf
    return Fraction(n, d)


def num(q, sp=0) -> str:
    """Exact decimal spelling of a small rational; sp=1: an alternative spelling of the same number."""
    x = fr(q)
    if x.denominator == 1:
        s = str(x.numerator)
        return s + ".0" if sp else s
    k = 1
    while (x * 10**k).denominator != 1:
        k += 1
        if k > 12:
            raise core.MachineryError(f"value {q} has no finite decimal spelling")
    s = f"{float(x):.{k}f}"
    if sp:
        if s.startswith("0."):
            return s[1:]
        if s.startswith("-0."):
            return "-" + s[2:]
        return s + "0"
    return s


def theta_item_text(it) -> str:
    sp = it["sp"]
    init = num(it["init"], sp)

    def low():
        return {"none": None, "inf": "-INF", "mil": "-1000000", "eq": init}.get(it["lk"], num(it["lv"], sp))

    def up():
        return {"none": None, "inf": "INF", "mil": "1000000", "eq": init}.get(it["uk"], num(it["uv"], sp))

    form = it["form"]
    if form == 1:
        s = init + (" FIX" if it["fix"] else "")
    elif form == 4:
        s = f"({low()},,{up()})"
    else:
        parts = [p for p in (low(), init, up()) if p is not None]
        inner = ",".join(parts)
        if form == 2:
            s = f"({inner} FIX)"
        elif form == 3:
            s = f"({inner})" + (" FIX" if it["fix"] else "")
        else:
            s = f"({inner}{' FIX' if it['fix'] else ''})x{it['rep']}"
    if it["name"]:
        s += f" ; {it['name']}"
    return s


def theta_records_text(recs) -> str:
    out = []
    for rec in recs:
        line = "$THETA"
        for it in rec:
            line += " " + theta_item_text(it)
            if it["name"]:
                line += "\n"
        if not line.endswith("\n"):
            line += "\n"
        out.append(line)
    return "".join(out)


THETA_MODEL = """$PROBLEM C04 theta layouts
$DATA pheno.dta IGNORE=@
$INPUT ID TIME AMT WGT APGR DV
$SUBROUTINE ADVAN1 TRANS2
$PK
{pk}CL=EXP(ETA(1))
V=EXP(ETA(2))
S1=V
$ERROR
Y=F+F*EPS(1)
{thetas}$OMEGA 0.1
$OMEGA 0.2
$SIGMA 0.3
$ESTIMATION METHOD=1 INTERACTION
"""


def theta_model_text(case) -> str:
    n = sum(it["rep"] for rec in case["recs"] for it in rec)
    if any(it["form"] == 4 for rec in case["recs"] for it in rec):
        n = sum(1 for rec in case["recs"] for it in rec)
    pk = "".join(f"P{k}=THETA({k})\n" for k in range(1, n + 1))
    return THETA_MODEL.format(pk=pk, thetas=theta_records_text(case["recs"]))


# ----------------------------------------------------------------------------- tokens / spelling frame

_TOK = re.compile(r"\(|\)|,|;[^\n]*|[^\s(),;]+")
_NUMLIKE = re.compile(r"^[+-]?(\d|\.\d|INF$|inf$)")


def tokens(text: str):
    return [t.rstrip() if t.startswith(";") else t for t in _TOK.findall(text)]


def split_records(code: str, names=("THE",)):
    """Chunks of `code` that are records whose name starts with one of `names` (text after the record name)."""
    parts = re.split(r"^([ \t]*\$)", code, flags=re.M)
    out = []
    for sep, body in zip(parts[1::2], parts[2::2]):
        m = re.match(r"([A-Za-z]+)(.*)", body, flags=re.S)
        if m and any(m.group(1).upper().startswith(n) for n in names):
            out.append((m.group(1).upper(), m.group(2)))
    return out


def theta_items_of(code: str):
    """Independent (regex) item splitter of the $THETA records of `code`: list of token tuples."""
    items = []
    for _, body in split_records(code, ("THE",)):
        toks = tokens(body)
        i = 0
        while i < len(toks):
            t = toks[i]
            if t == "(":
                j = i
                while j < len(toks) and toks[j] != ")":
                    j += 1
                cur = toks[i : j + 1]
                i = j + 1
                if i < len(toks) and (re.fullmatch(r"[xX]\d+", toks[i]) or toks[i].upper().startswith("FIX")):
                    cur.append(toks[i])
                    i += 1
                items.append(cur)
            elif t.startswith(";"):
                if items:
                    items[-1].append(t)
                i += 1
            elif t.upper().startswith("FIX"):
                if items:
                    items[-1].append(t)
                i += 1
            else:
                items.append([t])
                i += 1
    return [tuple(x) for x in items]


def is_subseq(a, b):
    j = 0
    for x in a:
        while j < len(b) and b[j] != x:
            j += 1
        if j == len(b):
            return x
        j += 1
    return None


# ----------------------------------------------------------------------------- projections of real models

_DEFAULT_EPS = re.compile(r"^EPS_\d+$")
_DEFAULT = re.compile(r"^(THETA_\d+|OMEGA_\d+_\d+|SIGMA_\d+_\d+)_*$")


def _nm(name):
    return "" if _DEFAULT.match(name) else name


def _f(x):
    x = float(x)
    return x


def proj_thetas(model):
    rvsyms = model.random_variables.free_symbols
    return [[_nm(p.name), _f(p.init), _f(p.lower), _f(p.upper), bool(p.fix)] for p in model.parameters if p.symbol not in rvsyms]


def proj_rvs(model):
    """Distributions in order: eta names, level, and for each lower-triangular entry the parameter record;
    `same` = shares its parameters with the previous distribution (BLOCK SAME)."""
    out = []
    prev = None
    ps = model.parameters
    for d in model.random_variables:
        names = list(d.names)
        n = len(names)
        var = d.variance
        entries = []
        pn = []
        for r in range(n):
            for c in range(r + 1):
                sym = var if n == 1 else var[r, c]
                nm = sym.name if hasattr(sym, "name") else str(sym)
                pn.append(nm)
                if nm in ps:
                    p = ps[nm]
                    entries.append([_nm(p.name), _f(p.init), _f(p.lower), _f(p.upper), bool(p.fix)])
                else:
                    entries.append(["<expr>", str(sym), None, None, None])
        out.append({"etas": names, "level": str(d.level).upper(), "entries": entries, "same": pn == prev})
        prev = pn
    return out


def close(a, b, tol=1e-9):
    if a is None or b is None:
        return a is b
    if isinstance(a, str) or isinstance(b, str):
        return a == b
    if math.isinf(a) or math.isinf(b):
        return a == b
    return abs(a - b) <= tol * max(1.0, abs(a), abs(b))


def same_params(x, y):
    return len(x) == len(y) and all(p[0] == q[0] and close(p[1], q[1]) and close(p[2], q[2]) and close(p[3], q[3]) and p[4] == q[4] for p, q in zip(x, y))


def same_rvs(x, y):
    """etas and epsilons are compared as two lists (their relative order in Model.random_variables is not code)"""
    if any(d["level"] == "RUV" for d in x + y) and any(d["level"] != "RUV" for d in x + y):
        return (same_rvs([d for d in x if d["level"] == "RUV"], [d for d in y if d["level"] == "RUV"])
                and same_rvs([d for d in x if d["level"] != "RUV"], [d for d in y if d["level"] != "RUV"]))
    if len(x) != len(y):
        return False
    for a, b in zip(x, y):
        names_equal = a["etas"] == b["etas"]
        if not names_equal and a["level"] == "RUV" and len(a["etas"]) == len(b["etas"]) and all(_DEFAULT_EPS.match(n) for n in a["etas"] + b["etas"]):
            names_equal = True  # EPS_n is positional (no $ABBR carries epsilon names): renumbered after a removal
        if not names_equal or a["level"] != b["level"] or a["same"] != b["same"] or not same_params(a["entries"], b["entries"]):
            return False
    return True


def theta_matches_spec(actual, expect):
    """expect: TLC's meaning [{name, init, low, up, fix}]; name "" = positional default, "?" = unconstrained."""
    if len(actual) != len(expect):
        return False
    for a, e in zip(actual, expect):
        if e["name"] != "?" and a[0] != e["name"]:
            return False
        if not (close(a[1], float(fr(e["init"]))) and close(a[2], float(fr(e["low"]))) and close(a[3], float(fr(e["up"]))) and a[4] == e["fix"]):
            return False
    return True


# ----------------------------------------------------------------------------- replay of one theta case


def _apply_theta_edit(m, e, names):
    from pharmpy.basic import Expr
    from pharmpy.model import Assignment
    from pharmpy.modeling import (
        add_population_parameter,
        fix_parameters,
        remove_unused_parameters_and_rvs,
        set_initial_estimates,
        set_lower_bounds,
        set_upper_bounds,
        unfix_parameters,
    )

    op = e["op"]
    if op == "AddTheta":
        lo, up = fr(e["low"]), fr(e["up"])
        m = add_population_parameter(m, e["name"], float(fr(e["v"])), lower=None if math.isinf(lo) else float(lo),
                                     upper=None if math.isinf(up) else float(up), fix=e["fix"])
        st = Assignment.create(Expr.symbol("PX" + e["name"]), Expr.symbol(e["name"])) + m.statements
        return m.replace(statements=st).update_source()
    name = names[e["p"] - 1]
    val = float(fr(e["v"]))
    if op == "SetInit":
        return set_initial_estimates(m, {name: val})
    if op == "SetLower":
        return set_lower_bounds(m, {name: val})
    if op == "SetUpper":
        return set_upper_bounds(m, {name: val})
    if op == "Fix":
        return fix_parameters(m, [name])
    if op == "Unfix":
        return unfix_parameters(m, [name])
    if op == "RemoveTheta":
        st = m.statements.subs({Expr.symbol(name): Expr.integer(1)})
        return remove_unused_parameters_and_rvs(m.replace(statements=st))
    raise core.MachineryError(f"unknown theta edit {op}")


def _theta_names(m):
    rvsyms = m.random_variables.free_symbols
    return [p.name for p in m.parameters if p.symbol not in rvsyms]


def _layout_feats_theta(case):
    items = [it for rec in case["recs"] for it in rec]
    return {
        "repeat_with_comment": any(it["rep"] > 1 and it["name"] for it in items),
        "has_repeat": any(it["rep"] > 1 for it in items),
        "repeat_with_inf_upper": any(it["rep"] > 1 and it["uk"] in ("inf", "mil") for it in items),
        "repeat_with_implied_fix": any(it["rep"] > 1 and not it["fix"] and it["lk"] == "eq" and it["uk"] == "eq" for it in items),
        "n_items": len(items),
        "n_records": len(case["recs"]),
    }


def replay_theta(case):
    """-> list of (status, record, what); status in ok / skip:<why> / violation"""
    from pharmpy.modeling import read_model_from_string

    text = theta_model_text(case)
    base = {"sec": "theta", "profile": case.get("profile"), "layout": theta_records_text(case["recs"]),
            "edits": [s["edit"] for s in case["steps"]], "feat": _layout_feats_theta(case), "tlc_case": case}
    try:
        m = read_model_from_string(text)
    except Exception as ex:  # the reader does not accept this layout: acceptance, not judged
        return [("skip:not_accepted:" + type(ex).__name__, base, None)]
    if case["rejected"]:
        return [("skip:unspecified_meaning", base, None)]
    out = []

    def bad(step, outcome, what, **extra):
        rec = dict(base)
        rec["step"] = step
        rec["outcome"] = outcome
        rec.update(extra)
        out.append(("violation", rec, what))

    got = proj_thetas(m)
    if not theta_matches_spec(got, case["read"]):
        bad({"index": 0, "op": "Read"}, "read_meaning_mismatch", f"read {got} but the layout means {case['read']}")
        return out
    items = {tuple(it["id"]): it for rec in case["recs"] for it in rec}
    spell = {k: tuple(tokens(theta_item_text(it))) for k, it in items.items()}
    steps = [{"edit": {"op": "Empty", "p": 0}, "expect": case["read"], "untouched": [list(k) for k in sorted(items)],
              "in_repeat": False, "rec_size": 0, "added_target": False, "target_form": 0, "target_named": False,
              "target_fix_in_parens": False, "rec_has_repeat": False, "target_uk_inf": False}] + case["steps"]
    respelled: set = set()
    for idx, s in enumerate(steps):
        e = s["edit"]
        stepinfo = {"index": idx, "op": e["op"], "in_repeat": s["in_repeat"], "rec_multi": s["rec_size"] > 1,
                    "added_target": s["added_target"], "target_form": s["target_form"], "target_named": s["target_named"],
                    "target_fix_in_parens": s["target_fix_in_parens"], "rec_has_repeat": s["rec_has_repeat"],
                    "target_uk_inf": s["target_uk_inf"]}
        try:
            m2 = m.update_source() if e["op"] == "Empty" else _apply_theta_edit(m, e, _theta_names(m))
            code = m2.code
        except core.MachineryError:
            raise
        except (ValueError, NotImplementedError) as ex:
            out.append(("skip:refused:" + type(ex).__name__, dict(base, refusal=f"{e['op']}: {str(ex)[:120]}"), None))
            return out
        except Exception as ex:
            bad(stepinfo, type(ex).__name__, f"{e['op']} raised {type(ex).__name__}: {str(ex)[:200]}")
            return out
        failed = False
        mem = proj_thetas(m2)
        if not (e["op"] == "Empty" and code == text):
            try:
                rr = read_model_from_string(code)
            except Exception as ex:
                bad(stepinfo, "reread_error", f"generated code cannot be read back: {type(ex).__name__}: {str(ex)[:160]}", code=code)
                return out
            rer = proj_thetas(rr)
            if not same_params(mem, rer):
                bad(stepinfo, "reread_mismatch", f"re-read thetas {rer} != in-memory {mem}", code=code)
                failed = True
            if not same_rvs(proj_rvs(m2), proj_rvs(rr)):
                bad(stepinfo, "reread_rvs_mismatch", "random variables of the re-read code differ from the in-memory model", code=code)
                failed = True
        if not theta_matches_spec(mem, s["expect"]):
            bad(stepinfo, "meaning_mismatch", f"in-memory thetas {mem} != specification {s['expect']}", code=code)
            failed = True
        want = [spell[tuple(i)] for i in s["untouched"] if spell[tuple(i)] not in respelled]
        missing = is_subseq(want, theta_items_of(code))
        if missing is not None:
            respelled.add(missing)  # reported once, at the step that did it; the case goes on without this item
            it = next(items[k] for k in items if spell[k] == missing)
            bad(stepinfo, "spelling_changed", f"untouched item {' '.join(missing)} is no longer spelled that way in: "
                + " | ".join(b.strip() for _, b in split_records(code, ('THE',))),
                spell={"item": " ".join(missing), "has_inf_bound": it["lk"] in ("inf", "mil") or it["uk"] in ("inf", "mil"),
                       "alt_spelling": it["sp"] == 1, "in_repeat": it["rep"] > 1, "has_bounds": it["lk"] != "none",
                       "implied_fix": (not it["fix"]) and it["lk"] == "eq" and it["uk"] == "eq"}, code=code)
            # a respelled item does not corrupt the model: the case goes on (the same finding may be hit again)
        if failed:
            return out
        m = m2
    if not out:
        out.append(("ok", base, None))
    return out


def _replay(arg):
    sec, case = arg
    try:
        if sec == "Theta":
            return replay_theta(case)
        from .c04_omega import replay_omega

        return replay_omega(case)
    except core.MachineryError as ex:
        return [("machinery", {"case": case}, str(ex))]


# ----------------------------------------------------------------------------- selection + main


def _stratified(cases, key, n, rng):
    """Round-robin over strata so that every (shape, edit) class is represented before any is repeated."""
    strata: dict = {}
    for c in cases:
        strata.setdefault(key(c), []).append(c)
    # the keys start with the number of edits: every class of one-edit cases is served first, the classes of
    # longer sequences follow in seeded order
    first = sorted(k for k in strata if k.startswith("[0,") or k.startswith("[1,"))
    rest = sorted(k for k in strata if k not in set(first))
    rng.shuffle(rest)
    keys = first + rest
    for k in sorted(strata):
        rng.shuffle(strata[k])
    out = []
    i = 0
    while len(out) < n and keys:
        nxt = []
        for k in keys:
            if i < len(strata[k]):
                out.append(strata[k][i])
                nxt.append(k)
                if len(out) >= n:
                    break
        keys = nxt
        i += 1
    return out, len(strata)


def _theta_stratum(c):
    its = [it for rec in c["recs"] for it in rec]
    return json.dumps([len(c["steps"]), any(it["lk"] in ("inf", "mil") or it["uk"] in ("inf", "mil") for it in its) if len(c["steps"]) <= 1 else None,
                       [(s["edit"]["op"], s["in_repeat"], s["target_form"], s["target_named"], s["rec_size"] > 1) for s in c["steps"]]])


def _run(tier, seed, v, cases):
    core.use_repo()
    import pharmpy.modeling  # noqa: F401  (import once, the workers are forked)
    from . import c04_omega

    rng = random.Random(seed)
    budget = _budget(tier)
    th, n_th_strata = _stratified(cases["Theta"], _theta_stratum, budget[0], rng)
    om, n_om_strata = _stratified(cases["Omega"], c04_omega.stratum, budget[1], rng)
    work = [("Theta", c) for c in th] + [("Omega", c) for c in om]
    rng.shuffle(work)
    results = core.pmap(_replay, work, procs=16, chunk=4)
    counts: dict = {}
    judged = 0
    steps_checked = 0
    samples = []
    for (sec, c), res in zip(work, results):
        for status, rec, what in res:
            counts[f"{sec}:{status}"] = counts.get(f"{sec}:{status}", 0) + 1
            if status == "machinery":
                raise core.MachineryError(what)
            if status == "violation":
                v.violation(rec, what)
        if not any(s.startswith("skip:not_accepted") or s.startswith("skip:unspecified") for s, _, _ in res):
            judged += 1
            steps_checked += 1 + len(c["steps"])
        if len(samples) < 6 and res and res[0][0] == "ok":
            samples.append({"sec": sec, "layout": res[0][1]["layout"], "edits": res[0][1]["edits"]})
    v.add_coverage(
        cases_replayed=len(work),
        evaluations=steps_checked,
        distinct_nontrivial=n_th_strata + n_om_strata,
        traces_validated_against_impl=judged,
        outcome_counts=dict(sorted(counts.items())),
        rule="a case = one TLC terminal state (layout built item by item + edit sequence); strata = (item shapes, record split, edit kinds); "
             "round-robin over strata, order by VERIF_SEED; a layout the reader rejects is 'not_accepted' and not judged",
        samples=samples,
        exhaustive=len(work) >= v.coverage.get("cases_emitted_by_tlc", 1 << 60),
    )


def main(tier: str, seed: int) -> int:
    v = core.Verdict("C04", tier, seed)
    frag = json.loads((core.VERIF / "known_findings.d" / "C04.json").read_text())
    own = {x["id"] for x in frag.get("findings", [])}  # a repaired entry may linger in the merged list
    v.known = [k for k in v.known if k.get("property") != "C04" or k.get("id") in own]
    v.assumptions = [
        "layouts are rendered into one fixed minimal ADVAN1 model (every THETA/ETA/EPS used by one statement); values are small exact decimals",
        "positional default names (THETA_n, OMEGA_i_j, SIGMA_i_j) are treated as 'no name': the text cannot carry them across a renumbering",
        "parameters are compared in record order per kind (thetas; per distribution the lower triangle), floats with relative tolerance 1e-9",
    ]
    cases = _tlc_all(tier, seed, v)
    _run(tier, seed, v, cases)
    return v.finish(min_traces=(300 if tier == "quick" else 5000) if float(os.environ.get("VERIF_BUDGET_SCALE", "1")) >= 1 else 20)


def replay(path: str) -> int:
    core.use_repo()
    data = json.loads(open(path).read())
    case = data["case"]
    sec = "Theta" if case.get("sec") == "theta" else "Omega"
    res = _replay((sec, case["tlc_case"]))
    for status, rec, what in res:
        print(status, "|", what)
        if status == "violation":
            print("  layout:", rec["layout"].replace("\n", "\\n"), " step:", rec["step"], " outcome:", rec["outcome"])
    return 1 if any(s == "violation" for s, _, _ in res) else 0
