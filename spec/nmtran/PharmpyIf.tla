----------------------------- MODULE PharmpyIf -----------------------------
(* DESIGN LAYER: transcription of what pharmpy's reader does with abbreviated code
   (records/code_record.py: _parse_tree) - the "one Piecewise per assigned symbol"
   translation - next to the reference interpreter of NMTran.tla.  TLC evaluates both on
   every generated program; where they differ is a design-level finding that the harness
   then confirms (or not) on the real reader.  A mismatch between this transcription and
   the real code is *drift*, never a violation.

   IR statement:  [v |-> symbol, pairs |-> << [e |-> expr, c |-> cond], ... >>]
                  = Assignment(v, Piecewise((e1, c1), (e2, c2), ...)); a single pair with
                  c = true is a plain assignment.

   _parse_tree, per code record, with `s` = the IR statements produced so far:
     assignment       v = e                   ->  (v, [(e, true)])
     logical IF       IF (c) v = e            ->  (v, [(e, c), (v, true)])   if v was assigned before (in s)
                                                  (v, [(e, c)])              otherwise
     block IF         arms (c_i, body_i), optional ELSE
        * only assignments that are DIRECT children of an arm are looked at
          (nested IF statements of any kind inside an arm are not translated at all)
        * logic of the ELSE arm is `true`, except: exactly one arm and that arm has no
          (direct) assignment -> NOT c_1
        * symbols in order of first appearance; for each symbol ONE statement whose pairs
          are (e, logic_of_its_arm) for every assignment to it, in text order; if the last
          pair's logic is not `true` and the symbol was assigned before, (v, true) is appended
        * (_reorder_block_statements is a no-op on the real objects: the isinstance test
           against sympy.Piecewise never holds for pharmpy's Expr wrapper)
   Evaluation of the IR: statements in order, a Piecewise takes its first true pair.        *)
EXTENDS Expr, Sequences

TrueC == [k |-> "true"]
VarE(v) == [k |-> "var", v |-> v]
NotC(c) == [k |-> "not", a |-> c]

Declared(s, v) == \E i \in 1..Len(s) : s[i].v = v
IsAsg(st) == st.k = "asg"
DirectAsg(body) == SelectSeq(body, IsAsg)

\* ordered distinct symbols of a sequence of assignments
RECURSIVE Distinct(_, _)
Distinct(as, acc) ==
    IF as = <<>> THEN acc
    ELSE Distinct(Tail(as), IF \E i \in 1..Len(acc) : acc[i] = Head(as).v THEN acc ELSE Append(acc, Head(as).v))

RECURSIVE Flatten(_)
Flatten(ss) == IF ss = <<>> THEN <<>> ELSE Head(ss) \o Flatten(Tail(ss))

\* blocks of a block IF:  << [logic, asgs] >>
Blocks(st) ==
    LET arms == [i \in 1..Len(st.arms) |-> [logic |-> st.arms[i].c, asgs |-> DirectAsg(st.arms[i].body)]]
    IN IF st.haselse
       THEN Append(arms, [logic |-> IF Len(arms) = 1 /\ Len(arms[1].asgs) = 0 THEN NotC(st.arms[1].c) ELSE TrueC,
                          asgs |-> DirectAsg(st.els)])
       ELSE arms

PairsFor(blocks, v) ==
    Flatten([i \in 1..Len(blocks) |->
        LET mine == SelectSeq(blocks[i].asgs, LAMBDA a : a.v = v)
        IN [j \in 1..Len(mine) |-> [e |-> mine[j].e, c |-> blocks[i].logic]]])

ParseBlock(st, s) ==
    LET blocks == Blocks(st)
        syms == Distinct(Flatten([i \in 1..Len(blocks) |-> blocks[i].asgs]), <<>>)
    IN [i \in 1..Len(syms) |->
          LET v == syms[i]
              ps == PairsFor(blocks, v)
          IN [v |-> v,
              pairs |-> IF ps[Len(ps)].c.k # "true" /\ Declared(s, v)
                        THEN Append(ps, [e |-> VarE(v), c |-> TrueC]) ELSE ps]]

ParseStmt(st, s) ==
    CASE st.k = "asg" -> << [v |-> st.v, pairs |-> << [e |-> st.e, c |-> TrueC] >>] >>
      [] st.k = "lif" -> << [v |-> st.v,
                             pairs |-> IF Declared(s, st.v)
                                       THEN << [e |-> st.e, c |-> st.c], [e |-> VarE(st.v), c |-> TrueC] >>
                                       ELSE << [e |-> st.e, c |-> st.c] >>] >>
      [] st.k = "blk" -> ParseBlock(st, s)

RECURSIVE ParseFrom(_, _)
ParseFrom(stmts, s) == IF stmts = <<>> THEN s ELSE ParseFrom(Tail(stmts), s \o ParseStmt(Head(stmts), s))
\* one code record -> IR
ParseTree(prog) == ParseFrom(prog, <<>>)

\* ---- evaluation of the IR (sequential; Piecewise = first true pair; nothing true / undefined condition = UNDEF)
RECURSIVE PwValue(_, _, _)
PwValue(pairs, i, env) ==
    IF i > Len(pairs) THEN UNDEF
    ELSE LET t == Cond(pairs[i].c, env, "ir")
         IN IF t = 2 THEN UNDEF ELSE IF t = 1 THEN Eval(pairs[i].e, env, "ir") ELSE PwValue(pairs, i + 1, env)
RECURSIVE ExecIR(_, _)
ExecIR(ir, env) ==
    IF ir = <<>> THEN env
    ELSE ExecIR(Tail(ir), (Head(ir).v :> PwValue(Head(ir).pairs, 1, env)) @@ env)

\* ---- program shapes on which the per-symbol translation can go wrong (names for the finding classes)
AllArms(st) == IF st.haselse THEN Append(st.arms, [c |-> TrueC, body |-> st.els]) ELSE st.arms
BlkNested(st)   == \E i \in 1..Len(AllArms(st)) : \E j \in 1..Len(AllArms(st)[i].body) : AllArms(st)[i].body[j].k # "asg"
BlkDup(st)      == \E i \in 1..Len(AllArms(st)) : LET a == DirectAsg(AllArms(st)[i].body)
                                                 IN \E p, q \in 1..Len(a) : p < q /\ a[p].v = a[q].v
AsgSyms(body)   == {DirectAsg(body)[j].v : j \in 1..Len(DirectAsg(body))}
BlkSyms(st)     == UNION {AsgSyms(AllArms(st)[i].body) : i \in 1..Len(AllArms(st))}
\* a symbol assigned in a later arm but not in an earlier one: its Piecewise ignores the earlier arm's condition
BlkLaterOnly(st) == \E i, j \in 1..Len(AllArms(st)) : i < j /\ AsgSyms(AllArms(st)[j].body) \ AsgSyms(AllArms(st)[i].body) # {}
\* a symbol of the block occurs in one of its conditions while the block produces several statements
BlkCondVar(st)  == /\ \E i \in 1..Len(st.arms) : VarsC(st.arms[i].c) \cap BlkSyms(st) # {}
                   /\ \E i \in 1..Len(AllArms(st)) : Len(AllArms(st)[i].body) > 0
\* a right-hand side reads another symbol that the block assigns
BlkUseOther(st) == \E i \in 1..Len(AllArms(st)) : LET a == DirectAsg(AllArms(st)[i].body)
                                                  IN \E p \in 1..Len(a) : (VarsE(a[p].e) \cap BlkSyms(st)) \ {a[p].v} # {}
RECURSIVE KindsS(_)
KindsStmt(st) ==
    CASE st.k = "asg" -> KindsE(st.e)
      [] st.k = "lif" -> KindsC(st.c) \cup KindsE(st.e)
      [] st.k = "blk" -> UNION {KindsC(st.arms[i].c) \cup KindsS(st.arms[i].body) : i \in 1..Len(st.arms)}
                         \cup (IF st.haselse THEN KindsS(st.els) ELSE {})
KindsS(body) == UNION {KindsStmt(body[i]) : i \in 1..Len(body)}

\* all conditions of a body, at any nesting depth
RECURSIVE CondsS(_)
CondsStmt(st) ==
    CASE st.k = "asg" -> {}
      [] st.k = "lif" -> {st.c}
      [] st.k = "blk" -> UNION {{st.arms[i].c} \cup CondsS(st.arms[i].body) : i \in 1..Len(st.arms)}
                         \cup (IF st.haselse THEN CondsS(st.els) ELSE {})
CondsS(body) == UNION {CondsStmt(body[i]) : i \in 1..Len(body)}
\* all right-hand sides of a body, at any nesting depth
RECURSIVE ExprsS(_)
ExprsStmt(st) ==
    CASE st.k \in {"asg", "lif"} -> {st.e}
      [] st.k = "blk" -> UNION {ExprsS(st.arms[i].body) : i \in 1..Len(st.arms)}
                         \cup (IF st.haselse THEN ExprsS(st.els) ELSE {})
ExprsS(body) == UNION {ExprsStmt(body[i]) : i \in 1..Len(body)}
\* a relation without any variable, or between two identical operands: the reader's symbolic engine
\* decides it while reading (a Piecewise can lose all its branches)
RECURSIVE ConstE(_)
ConstE(e) ==       \* e simplifies to a constant: no variable, x-x, x/x, 0*x, x**0
    CASE e.k = "num" -> TRUE
      [] e.k = "var" -> FALSE
      [] e.k = "neg" -> ConstE(e.a)
      [] e.k \in {"add", "sub", "mul", "div", "pow"} ->
            \/ ConstE(e.a) /\ ConstE(e.b)
            \/ e.k \in {"sub", "div"} /\ e.a = e.b
            \/ e.k = "mul" /\ ((e.a.k = "num" /\ e.a.n = 0) \/ (e.b.k = "num" /\ e.b.n = 0))
            \/ e.k = "div" /\ e.a.k = "num" /\ e.a.n = 0
            \/ e.k = "pow" /\ e.b.k = "num" /\ e.b.n = 0
      [] e.k = "fn" -> ConstE(e.a) /\ (e.f = "MOD" => ConstE(e.b))
      [] OTHER -> FALSE
IsLit(e, n) == e.k = "num" /\ e.n = n /\ e.d = 1
RECURSIVE Strip(_)
Strip(e) ==        \* neutral elements removed: x+0, 0+x, x-0, x*1, 1*x, x/1, x**1
    CASE e.k \in {"num", "var"} -> e
      [] e.k = "neg" -> [e EXCEPT !.a = Strip(e.a)]
      [] e.k \in {"add", "sub", "mul", "div", "pow"} ->
            LET a == Strip(e.a)
                b == Strip(e.b)
            IN IF e.k \in {"add", "sub"} /\ IsLit(b, 0) THEN a
               ELSE IF e.k = "add" /\ IsLit(a, 0) THEN b
               ELSE IF e.k \in {"mul", "div", "pow"} /\ IsLit(b, 1) THEN a
               ELSE IF e.k = "mul" /\ IsLit(a, 1) THEN b
               ELSE [e EXCEPT !.a = a, !.b = b]
      [] e.k = "fn" -> IF e.f = "MOD" THEN [e EXCEPT !.a = Strip(e.a), !.b = Strip(e.b)] ELSE [e EXCEPT !.a = Strip(e.a)]
      [] OTHER -> e
RECURSIVE Decidable(_)
Decidable(c) ==
    CASE c.k = "rel" -> (ConstE(c.a) /\ ConstE(c.b)) \/ Strip(c.a) = Strip(c.b)
      [] c.k = "not" -> Decidable(c.a)
      [] c.k \in {"and", "or"} -> Decidable(c.a) \/ Decidable(c.b)
      [] OTHER -> FALSE

Hazards(prog) ==
    LET B == {i \in 1..Len(prog) : prog[i].k = "blk"} IN
       (IF \E i \in B : BlkNested(prog[i])    THEN {"nested_if_in_block"} ELSE {})
  \cup (IF \E i \in B : BlkDup(prog[i])       THEN {"symbol_twice_in_branch"} ELSE {})
  \cup (IF \E i \in B : BlkLaterOnly(prog[i]) THEN {"symbol_only_in_later_branch"} ELSE {})
  \cup (IF \E i \in B : BlkCondVar(prog[i])   THEN {"condition_variable_assigned_in_block"} ELSE {})
  \cup (IF \E i \in B : BlkUseOther(prog[i])  THEN {"branch_reads_symbol_assigned_in_block"} ELSE {})
  \cup (IF "MOD" \in KindsS(prog)             THEN {"mod_function"} ELSE {})
  \cup (IF \/ \E c \in CondsS(prog) : KindsC(c) \cap Protected # {}
           \/ \E e \in ExprsS(prog) : ProtNestedE(e)
                                              THEN {"protected_function_compared"} ELSE {})
  \cup (IF \/ \E c \in CondsS(prog) : SignedPowC(c)
           \/ \E e \in ExprsS(prog) : SignedPowE(e)
                                              THEN {"signed_literal_power"} ELSE {})
  \cup (IF \E c \in CondsS(prog) : Decidable(c) THEN {"statically_decidable_condition"} ELSE {})
=============================================================================
