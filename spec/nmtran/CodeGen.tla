------------------------------ MODULE CodeGen ------------------------------
(* C02 - history machine of the public model transformations over the ABSTRACT STRUCTURAL STATE,
   together with the code-generation decision as the code makes it (update.py: new_advan_trans,
   match_advan1/2/3/4/11/12) and the design-level theorem that the library chosen can express the
   state.  TLC explores the reachable graph and emits the transition table; the harness derives
   histories from it (every transition once, reached through a breadth-first tree; -simulate style
   random walks for longer ones), replays them on real models and, after the last step, lets
   NMTran.tla interpret the generated control stream (code -> spec) and compares it with the
   in-memory model.  Disagreement of the real ADVAN/TRANS with the prediction here is drift, not a
   violation: the property only says that whatever is generated means what the model means.

   State (feature vector of the model + what the control stream says):
     abs    "INST" | "FO" | "ZO" | "SEQ"      absorption (ZO / SEQ: infusion with modelled duration D1)
     elim   "FO" | "ZO" | "MM" | "MIX"        elimination (everything but FO is nonlinear)
     periph 0..2,  tr 0..3 (transits),  depot BOOLEAN,  lag, bio BOOLEAN
     metab  BOOLEAN     a metabolite compartment fed by the central compartment instead of the output
     zoin   BOOLEAN     a zero-order input into the central compartment (set_zero_order_input)
     script 0..9   statement-level edits with no structural effect; ONE of three fixed scripts can be walked:
                   0 -COV-> 1 (add_covariate_effect exp: a new theta) -CAT-> 2 (cat2 effect: a Piecewise written as several
                     one-line IFs) -RCOV-> 3 (the first effect removed again: the thetas behind it are renumbered)
                   0 -IOV-> 4 (add_iov: one-line IFs per occasion, $ABBR) -RIOV-> 5 (remove_iov)
                   0 -CE-> 6 (set_combined_error_model) -RUV1-> 7 / -RUV2-> 8 (set_iiv_on_ruv with the same / with separate
                     etas: eta x eps interaction terms in Y) -RRV-> 9 (remove_iiv of one of the RUV etas)
     rcov   BOOLEAN  a covariate effect of the start model removed (RCL / RV edit ONE variable of the multi-assignment
                   block IF of pheno_block);  IIV (add_iiv) and FIX (fix_parameters) do not change the state
     trans  0..4        TRANS of the control stream (0: none, after a $DES model)
   Graph of a state: nodes in the order the code numbers them
       TRANSIT1..tr, DEPOT (if depot), CENTRAL, METABOLITE (if metab), PERIPHERAL1..periph;   0 = output.     *)
EXTENDS Advan, Sequences, FiniteSets, Json

CONSTANTS Starts,     \* names of start states
          Acts,       \* action tokens enabled in this configuration
          MaxPeriph

VARIABLE s
vars == <<s>>

Vec(a, p, d, t) == [abs |-> a, elim |-> "FO", periph |-> p, tr |-> 0, depot |-> d, lag |-> FALSE, bio |-> FALSE,
                    metab |-> FALSE, zoin |-> FALSE, script |-> 0, rcov |-> FALSE, trans |-> t]
StartState ==
    ("pheno_real"   :> Vec("INST", 0, FALSE, 2)) @@      \* ADVAN1 TRANS2
    ("pheno_block"  :> Vec("INST", 0, FALSE, 2)) @@      \* ADVAN1 TRANS2, TVCL and TVV assigned in one IF / ELSE block
    ("mox2"         :> Vec("FO",   0, TRUE,  2)) @@      \* ADVAN2 TRANS2
    ("pheno_advan3" :> Vec("INST", 1, FALSE, 3)) @@      \* ADVAN3 TRANS3
    ("pheno_advan4" :> Vec("FO",   1, TRUE,  3)) @@      \* ADVAN4 TRANS3
    ("oral2_cmt"    :> Vec("FO",   1, TRUE,  4))         \* ADVAN4 TRANS4 with an active CMT data column (doses CMT 1, observations CMT 2)

\* ------------------------------------------------------------------ the graph of a state
NTr(t)  == t.tr
NDep(t) == IF t.depot THEN 1 ELSE 0
CentralIx(t) == NTr(t) + NDep(t) + 1
NMet(t) == IF t.metab THEN 1 ELSE 0
NNodes(t) == CentralIx(t) + NMet(t) + t.periph
MetabIx(t) == CentralIx(t) + 1
Edges(t) ==
    LET c == CentralIx(t) IN
       {<<i, i + 1>> : i \in 1..(c - 1)}                                                   \* transit chain / depot -> central
    \cup UNION {{<<c, c + NMet(t) + k>>, <<c + NMet(t) + k, c>>} : k \in 1..t.periph}      \* peripherals
    \cup (IF t.metab THEN {<<c, MetabIx(t)>>, <<MetabIx(t), 0>>} ELSE {<<c, 0>>})
Nonlinear(t) == t.elim # "FO"
Out(E, i)   == {e \in E : e[1] = i}
Bidir(E, i) == {j \in 1..20 : <<i, j>> \in E /\ <<j, i>> \in E}

\* ------------------------------------------------------------------ the decision table (update.py, transcribed)
Match1(t) == NNodes(t) = 1
Match2(t) == LET E == Edges(t) IN
    /\ CentralIx(t) > 1       \* the rate out of node 1 must not be built from CL or V: it is when node 1 is central
    /\ NNodes(t) = 2 /\ Cardinality(Out(E, 1)) = 1
    /\ LET c == (CHOOSE e \in Out(E, 1) : TRUE)[2] IN c # 0 /\ Cardinality(Out(E, c)) = 1
Match3(t) == LET E == Edges(t) IN
    /\ NNodes(t) = 2 /\ Cardinality(Bidir(E, 1)) = 1
    /\ \A j \in Bidir(E, 1) : <<j, 0>> \notin E
Match4(t) == LET E == Edges(t) IN
    /\ CentralIx(t) > 1       \* the rate out of node 1 must not be built from CL or V: it is when node 1 is central
    /\ NNodes(t) = 3 /\ Cardinality(Out(E, 1)) = 1
    /\ LET c == (CHOOSE e \in Out(E, 1) : TRUE)[2] IN
       /\ c # 0 /\ Cardinality(Bidir(E, c)) = 1
       /\ \A j \in Bidir(E, c) : <<j, 0>> \notin E /\ <<j, 1>> \notin E
Match11(t) == LET E == Edges(t) IN
    /\ NNodes(t) = 3 /\ Cardinality(Bidir(E, 1)) = 2
    /\ \A j, k \in Bidir(E, 1) : <<j, 0>> \notin E /\ (j # k => <<j, k>> \notin E)
Match12(t) == LET E == Edges(t) IN
    /\ CentralIx(t) > 1       \* the rate out of node 1 must not be built from CL or V: it is when node 1 is central
    /\ NNodes(t) = 4 /\ Cardinality(Out(E, 1)) = 1
    /\ LET c == (CHOOSE e \in Out(E, 1) : TRUE)[2] IN
       /\ c # 0 /\ Cardinality(Bidir(E, c)) = 2
       /\ \A j, k \in Bidir(E, c) : <<j, 0>> \notin E /\ (j # k => <<j, k>> \notin E)

AdvanOf(t) ==
    IF Nonlinear(t) \/ t.zoin THEN 13
    ELSE IF Match1(t) THEN 1 ELSE IF Match2(t) THEN 2 ELSE IF Match3(t) THEN 3 ELSE IF Match4(t) THEN 4
    ELSE IF Match11(t) THEN 11 ELSE IF Match12(t) THEN 12 ELSE 5

\* TRANS carried over or chosen (new_advan_trans); 0 = no TRANS (nonlinear).  After a $DES model the choice depends on
\* the FORM of the elimination rate (a quotient of two symbols or not), which the abstract state does not hold:
\* both outcomes are admitted.
TransChoice(old, a, nonlin) ==
    IF nonlin THEN {0}
    ELSE CASE old = 1 -> {1}
           [] old = 2 -> IF a \in {1, 2} THEN {2} ELSE IF a \in {3, 4, 11, 12} THEN {4} ELSE {1}
           [] old = 3 -> IF a \in {3, 4} THEN {3} ELSE IF a \in {11, 12} THEN {4} ELSE IF a \in {1, 2} THEN {2} ELSE {1}
           [] old = 4 -> IF a \in {3, 4, 11, 12} THEN {4} ELSE IF a \in {1, 2} THEN {2} ELSE {1}
           [] old = 0 -> {1} \cup (IF a \in {1, 2} THEN {2} ELSE IF a \in {3, 4, 11, 12} THEN {4} ELSE {})

\* ------------------------------------------------------------------ design-level theorem
\* the special library chosen has exactly the compartments and flows of the state, doses go where the state doses
\* (node 1) and PREDPP observes the compartment the state calls central
Template(a) == {<<r[1], r[2]>> : r \in {Rates(a, 1, <<>>, <<Zero, Zero, Zero, Zero>>)[i] :
                                        i \in 1..Len(Rates(a, 1, <<>>, <<Zero, Zero, Zero, Zero>>))}}
Expressible(t) ==
    LET a == AdvanOf(t) IN
    a \in Advans => /\ NComp(a) = NNodes(t)
                    /\ Template(a) = Edges(t)
                    /\ DefDose(a) = 1
                    /\ DefObs(a) = CentralIx(t)
\* the general library needs one rate constant per edge, named after the numbering of Edges(t): always expressible;
\* $DES expresses anything.
AdvanSound == Expressible(s)

\* ------------------------------------------------------------------ actions (public transformations)
Compatible(t) ==                     \* combinations the documentation calls incompatible are not walked into
    /\ ~(t.abs \in {"ZO", "SEQ", "INST"} /\ t.tr > 0)
    /\ ~(t.abs \in {"SEQ", "INST"} /\ t.lag)
    /\ ~(t.lag /\ t.tr > 0)
    /\ (t.abs \in {"INST", "ZO"} => (~t.depot /\ t.tr = 0))
    /\ (t.abs \in {"FO", "SEQ"} => (t.depot \/ t.tr > 0))
    /\ ~(t.tr = 1 /\ ~t.depot)
    /\ (t.metab => t.elim = "FO")     \* the elimination setters are not specified on drug-metabolite models

Tok(k, v, n) == [k |-> k, v |-> v, n |-> n]
ActDef ==
    ("A:INST" :> Tok("A", "INST", 0)) @@ ("A:FO" :> Tok("A", "FO", 0)) @@ ("A:ZO" :> Tok("A", "ZO", 0)) @@
    ("A:SEQ"  :> Tok("A", "SEQ", 0))  @@
    ("E:FO"   :> Tok("E", "FO", 0))   @@ ("E:ZO" :> Tok("E", "ZO", 0)) @@ ("E:MM" :> Tok("E", "MM", 0)) @@
    ("E:MIX"  :> Tok("E", "MIX", 0))  @@
    ("P:0"    :> Tok("P", "set", 0))  @@ ("P:1" :> Tok("P", "set", 1)) @@ ("P:2" :> Tok("P", "set", 2)) @@
    ("P+"     :> Tok("P", "add", 0))  @@ ("P-"  :> Tok("P", "rem", 0)) @@
    ("T:0"    :> Tok("T", "set", 0))  @@ ("T:1" :> Tok("T", "set", 1)) @@ ("T:3" :> Tok("T", "set", 3)) @@
    ("T:2N"   :> Tok("T", "nodepot", 2)) @@
    ("L:1"    :> Tok("L", "on", 0))   @@ ("L:0" :> Tok("L", "off", 0)) @@
    ("B:1"    :> Tok("B", "on", 0))   @@ ("B:0" :> Tok("B", "off", 0)) @@
    ("M:BASIC" :> Tok("M", "basic", 0)) @@
    ("ZI"     :> Tok("Z", "on", 0))   @@
    ("COV"    :> Tok("X", "cov", 0))  @@ ("CAT" :> Tok("X", "cat", 0)) @@ ("RCOV" :> Tok("X", "uncov", 0)) @@
    ("IOV"    :> Tok("X", "iov", 0))  @@ ("RIOV" :> Tok("X", "uniov", 0)) @@
    ("CE"     :> Tok("X", "ce", 0))   @@ ("RUV1" :> Tok("X", "ruv", 7)) @@ ("RUV2" :> Tok("X", "ruv", 8)) @@
    ("RRV"    :> Tok("X", "rrv", 0))  @@
    ("IIV"    :> Tok("X", "iiv", 0))  @@ ("FIX" :> Tok("X", "fix", 0)) @@
    ("RCL"    :> Tok("X", "rcov", 0)) @@ ("RV"  :> Tok("X", "rcov", 1))
AllActs == DOMAIN ActDef

\* post-vector the documentation names: requested category = requested value, everything else unchanged
Post(p, a) ==
    CASE a.k = "A" -> [p EXCEPT !.abs = a.v, !.depot = IF p.tr = 0 THEN a.v \in {"FO", "SEQ"} ELSE p.depot]
      [] a.k = "E" -> [p EXCEPT !.elim = a.v]
      [] a.k = "P" -> [p EXCEPT !.periph = CASE a.v = "set" -> a.n
                                             [] a.v = "add" -> p.periph + 1
                                             [] OTHER -> IF p.periph > 0 THEN p.periph - 1 ELSE 0]
      [] a.k = "T" -> LET t == [p EXCEPT !.tr = a.n, !.depot = IF a.v = "nodepot" THEN FALSE ELSE p.depot]
                          u == IF t.tr = 1 /\ ~t.depot THEN [t EXCEPT !.tr = 0, !.depot = TRUE] ELSE t
                      IN IF p.abs \in {"FO", "INST"}
                         THEN [u EXCEPT !.abs = IF u.tr = 0 /\ ~u.depot THEN "INST" ELSE "FO"] ELSE u
      [] a.k = "L" -> [p EXCEPT !.lag = (a.v = "on")]
      [] a.k = "B" -> [p EXCEPT !.bio = (a.v = "on")]
      [] a.k = "M" -> [p EXCEPT !.metab = TRUE]
      [] a.k = "Z" -> [p EXCEPT !.zoin = TRUE]
      [] a.k = "X" -> CASE a.v = "cov" -> [p EXCEPT !.script = 1] [] a.v = "cat" -> [p EXCEPT !.script = 2]
                        [] a.v = "uncov" -> [p EXCEPT !.script = 3]
                        [] a.v = "iov" -> [p EXCEPT !.script = 4] [] a.v = "uniov" -> [p EXCEPT !.script = 5]
                        [] a.v = "ce" -> [p EXCEPT !.script = 6] [] a.v = "ruv" -> [p EXCEPT !.script = a.n]
                        [] a.v = "rrv" -> [p EXCEPT !.script = 9]
                        [] a.v = "rcov" -> [p EXCEPT !.rcov = TRUE]
                        [] OTHER -> p

Enabled(p, a) ==
    /\ (a.k = "P" /\ a.v = "add" => p.periph < MaxPeriph)
    /\ (a.k = "P" /\ a.v = "set" => a.n <= MaxPeriph)
    /\ (a.k = "T" /\ a.n = 1 => p.depot)                  \* one transit without depot "cannot be told from first order absorption"
    /\ (a.k = "A" /\ a.v \in {"INST", "SEQ"} => ~p.lag)   \* documented refusals
    /\ (a.k = "M" => ~p.metab /\ p.elim = "FO" /\ ~p.zoin)
    /\ (a.k = "Z" => ~p.zoin /\ ~p.metab)
    /\ (a.k = "E" => ~p.metab)
    /\ (a.k = "X" /\ a.v = "rcov" => ~p.rcov)
    /\ (a.k = "X" /\ a.v \in {"cov", "iov", "ce"} => p.script = 0)
    /\ (a.k = "X" /\ a.v = "cat" => p.script = 1) /\ (a.k = "X" /\ a.v = "uncov" => p.script = 2)
    /\ (a.k = "X" /\ a.v = "uniov" => p.script = 4)
    /\ (a.k = "X" /\ a.v = "ruv" => p.script = 6) /\ (a.k = "X" /\ a.v = "rrv" => p.script \in {7, 8})
    /\ Compatible(Post(p, a))

Succs(p, tok) ==
    LET a == ActDef[tok]
        t == Post(p, a)
        adv == AdvanOf(t)
    IN {[t EXCEPT !.trans = tr] : tr \in TransChoice(p.trans, adv, Nonlinear(t) \/ t.zoin)}

Init == \E n \in Starts : s = StartState[n]
Step(tok) == /\ tok \in Acts /\ Enabled(s, ActDef[tok]) /\ s' \in Succs(s, tok)

DoSetAbsorption   == \E tok \in {"A:INST", "A:FO", "A:ZO", "A:SEQ"} : Step(tok)
DoSetElimination  == \E tok \in {"E:FO", "E:ZO", "E:MM", "E:MIX"} : Step(tok)
DoSetPeripherals  == \E tok \in {"P:0", "P:1", "P:2", "P+", "P-"} : Step(tok)
DoSetTransits     == \E tok \in {"T:0", "T:1", "T:3", "T:2N"} : Step(tok)
DoLagTime         == \E tok \in {"L:1", "L:0"} : Step(tok)
DoBioavailability == \E tok \in {"B:1", "B:0"} : Step(tok)
DoAddMetabolite   == Step("M:BASIC")
DoZeroOrderInput  == Step("ZI")
DoParameterEdit   == \E tok \in {"COV", "CAT", "RCOV", "IOV", "RIOV", "CE", "RUV1", "RUV2", "RRV", "IIV", "FIX", "RCL", "RV"} : Step(tok)
\* generation point: update_source / model.code / write_model may be asked for in any state.  It leaves the structural
\* state alone (a stuttering step of this machine) but it is a step of the implementation: the model's internals then
\* carry the ADVAN/TRANS of the code just generated, and the next generation converts the PK parameter names from THAT
\* library (pk_param_conversion) - so a row (AdvanOf(p), p.trans) -> (AdvanOf(u), u.trans) of the conversion table is only
\* exercised by a history that has a generation point in p.  The driver writes it as the token "SYNC".
DoSync == s' = s
Next == \/ DoSync \/ DoSetAbsorption \/ DoSetElimination \/ DoSetPeripherals \/ DoSetTransits \/ DoLagTime
        \/ DoBioavailability \/ DoAddMetabolite \/ DoZeroOrderInput \/ DoParameterEdit
Spec == Init /\ [][Next]_vars

TypeOK == /\ s.abs \in {"INST", "FO", "ZO", "SEQ"} /\ s.elim \in {"FO", "ZO", "MM", "MIX"}
          /\ s.periph \in 0..MaxPeriph /\ s.tr \in 0..3 /\ s.trans \in 0..4
          /\ Compatible(s)
\* what the control stream says is consistent with the state
TransConsistent == (s.trans = 0) = (Nonlinear(s) \/ s.zoin)

\* ------------------------------------------------------------------ emission of the transition table
SetToSeq(S) == LET RECURSIVE L(_)
                   L(T) == IF T = {} THEN <<>> ELSE LET x == CHOOSE y \in T : TRUE IN <<x>> \o L(T \ {x})
               IN L(S)
Describe(t) == [vec |-> t, advan |-> AdvanOf(t), nnodes |-> NNodes(t), central |-> CentralIx(t),
                edges |-> SetToSeq(Edges(t)), expressible |-> Expressible(t)]
Row(tok) == [tok |-> tok, succs |-> SetToSeq({Describe(u) : u \in Succs(s, tok)})]
EmitState ==
    PrintT(<<"STATE", ToJson([state |-> Describe(s),
                              moves |-> SetToSeq({Row(tok) : tok \in {x \in Acts : Enabled(s, ActDef[x])}})])>>)
=============================================================================
