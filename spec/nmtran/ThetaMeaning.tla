---------------------------- MODULE ThetaMeaning ----------------------------
(* What a $THETA item means under NM-TRAN rules (NONMEM help, $THETA):

     form 1   init [FIXED]
     form 2   ([low,] init [,up] [FIXED])
     form 3   ([low,] init [,up]) FIXED
     form 4   (low,,up)                      no initial estimate: NONMEM chooses one ("auto")
     form 5   (...)xn                        the item stands for n consecutive thetas
   low / up omitted, -INF / INF, or -1000000 / 1000000  all mean "unbounded".
   FIXED anywhere in the item fixes it; low = init = up fixes it implicitly.

   JSON item:  [low |-> B, init |-> B, up |-> B, fix |-> BOOLEAN, n |-> Nat]
        B ::= [t |-> "num", n |-> Int, d |-> Int] | [t |-> "ninf"] | [t |-> "inf"] | [t |-> "none"]
   Meaning:    sequence (length n) of
               [init |-> Rat (or AUTO), lo |-> [inf |-> BOOLEAN, v |-> Rat], up |-> (same), fix |-> BOOLEAN]   *)
EXTENDS Rat

AUTO == <<0, 0>>
Big == <<1000000, 1>>

BVal(b) == Norm(b.n, b.d)
LowerOf(b) == IF b.t = "num" /\ BVal(b) # RNeg(Big) THEN [inf |-> FALSE, v |-> BVal(b)] ELSE [inf |-> TRUE, v |-> Zero]
UpperOf(b) == IF b.t = "num" /\ BVal(b) # Big THEN [inf |-> FALSE, v |-> BVal(b)] ELSE [inf |-> TRUE, v |-> Zero]
InitOf(b)  == IF b.t = "num" THEN BVal(b) ELSE AUTO

ThetaOne(it) ==
    LET lo == LowerOf(it.low)
        up == UpperOf(it.up)
        init == InitOf(it.init)
        implied == ~lo.inf /\ ~up.inf /\ lo.v = init /\ up.v = init
    IN [init |-> init, lo |-> lo, up |-> up, fix |-> it.fix \/ implied]

ThetaItem(it) == [i \in 1..it.n |-> ThetaOne(it)]

\* well-formedness NM-TRAN demands (items violating it are not generated; refusals are admitted)
ThetaLegal(it) ==
    LET p == ThetaOne(it)
    IN /\ it.n >= 1
       /\ p.init # AUTO => /\ (~p.lo.inf => RCmp(p.lo.v, p.init) <= 0)
                           /\ (~p.up.inf => RCmp(p.init, p.up.v) <= 0)
=============================================================================
