INIT Init
NEXT Next
INVARIANT WellShaped
INVARIANT EmitParam
CHECK_DEADLOCK FALSE
