INIT Init
NEXT Next
INVARIANT TypeOK
INVARIANT Monotone
INVARIANT Normalised
INVARIANT EmitCase
CHECK_DEADLOCK FALSE
