------------------------------- MODULE Advan -------------------------------
(* PREDPP's built-in kinetic libraries as the NONMEM guides define them (Users Guide VI,
   help entries ADVAN1..ADVAN12 / TRANS1..TRANS6) - the trusted transcription.

   For ADVAN a (compartments numbered as PREDPP numbers them, 0 = the output compartment)
   and TRANS t, the *basic* PK parameters computed by $PK (found in `env`) determine the
   micro rate constants below; Rates(...) lists every flow <<from, to, k>> of the
   linear system  dA_i/dt = sum_j k_ji A_j - sum_j k_ij A_i  (ADVAN10: Michaelis-Menten
   elimination, rate "constant" VM/(KM + A(1)) at the probe amount).

   Dose / observation:
     default dose compartment  : 1 (the depot when there is one, else central)
     default observation cmpt  : central
     F = A(obs)/S   where S = S<obs> if $PK assigns it, else SC if $PK assigns it and the
                    observation compartment is the central one, else 1 (no scaling)
     ALAGn / Fn     assigned in $PK: absorption lag / bioavailability of compartment n (else 0 / 1)
     RATE data item : 0 or absent -> bolus;  > 0 -> infusion with that rate;
                      -1 -> rate modelled by Rn, -2 -> duration modelled by Dn  (n = the dose's compartment)
     CMT data item  : compartment of the dose record (0 or absent: the default dose compartment)  *)
EXTENDS Expr

Advans == {1, 2, 3, 4, 10, 11, 12}
TransOf(a) == CASE a \in {1, 2} -> {1, 2}
                [] a \in {3, 4} -> {1, 3, 4, 5, 6}
                [] a = 10       -> {1}
                [] a \in {11, 12} -> {1, 4, 6}

NComp(a)   == CASE a = 1 -> 1 [] a = 2 -> 2 [] a = 3 -> 2 [] a = 4 -> 3
                [] a = 10 -> 1 [] a = 11 -> 3 [] a = 12 -> 4
HasDepot(a) == a \in {2, 4, 12}
Central(a)  == IF HasDepot(a) THEN 2 ELSE 1
DefDose(a)  == 1
DefObs(a)   == Central(a)
\* compartment roles by number (for documentation and for the harness' name-free matching)
Roles(a) == CASE a \in {1, 10} -> <<"CENTRAL">>
              [] a = 2  -> <<"DEPOT", "CENTRAL">>
              [] a = 3  -> <<"CENTRAL", "PERIPHERAL">>
              [] a = 4  -> <<"DEPOT", "CENTRAL", "PERIPHERAL">>
              [] a = 11 -> <<"CENTRAL", "PERIPHERAL1", "PERIPHERAL2">>
              [] a = 12 -> <<"DEPOT", "CENTRAL", "PERIPHERAL1", "PERIPHERAL2">>

\* ---- one central + one peripheral (ADVAN3: c=1,p=2; ADVAN4: c=2,p=3): K, Kcp, Kpc
TwoCmt(t, env, vc, vp) ==
    LET P(n) == Lookup(env, n) IN
    CASE t = 1 -> [k |-> P("K"), kcp |-> P(IF vc = "V1" THEN "K12" ELSE "K23"),
                   kpc |-> P(IF vc = "V1" THEN "K21" ELSE "K32")]
      [] t = 3 -> [k   |-> RDiv(P("CL"), P("V")),
                   kcp |-> RDiv(P("Q"), P("V")),
                   kpc |-> RDiv(P("Q"), RSub(P("VSS"), P("V")))]
      [] t = 4 -> [k   |-> RDiv(P("CL"), P(vc)),
                   kcp |-> RDiv(P("Q"), P(vc)),
                   kpc |-> RDiv(P("Q"), P(vp))]
      [] t = 5 -> LET kpc == RDiv(RAdd(RMul(P("AOB"), P("BETA")), P("ALPHA")), RAdd(P("AOB"), One))
                      k   == RDiv(RMul(P("ALPHA"), P("BETA")), kpc)
                  IN [k |-> k, kpc |-> kpc,
                      kcp |-> RSub(RSub(RAdd(P("ALPHA"), P("BETA")), kpc), k)]
      [] t = 6 -> LET kpc == P(IF vc = "V1" THEN "K21" ELSE "K32")
                      k   == RDiv(RMul(P("ALPHA"), P("BETA")), kpc)
                  IN [k |-> k, kpc |-> kpc,
                      kcp |-> RSub(RSub(RAdd(P("ALPHA"), P("BETA")), kpc), k)]

\* ---- one central + two peripherals (ADVAN11: c=1,p=2,q=3; ADVAN12: c=2,p=3,q=4)
ThreeCmt(t, env, c) ==
    LET P(n) == Lookup(env, n)
        nm(i, j) == IF c = 1 THEN (CASE <<i, j>> = <<1, 2>> -> "K12" [] <<i, j>> = <<2, 1>> -> "K21"
                                     [] <<i, j>> = <<1, 3>> -> "K13" [] <<i, j>> = <<3, 1>> -> "K31")
                    ELSE (CASE <<i, j>> = <<1, 2>> -> "K23" [] <<i, j>> = <<2, 1>> -> "K32"
                            [] <<i, j>> = <<1, 3>> -> "K24" [] <<i, j>> = <<3, 1>> -> "K42")
    IN
    CASE t = 1 -> [k |-> P("K"), kcp |-> P(nm(1, 2)), kpc |-> P(nm(2, 1)),
                   kcq |-> P(nm(1, 3)), kqc |-> P(nm(3, 1))]
      [] t = 4 -> LET vc == IF c = 1 THEN "V1" ELSE "V2"
                      vp == IF c = 1 THEN "V2" ELSE "V3"
                      vq == IF c = 1 THEN "V3" ELSE "V4"
                      qp == IF c = 1 THEN "Q2" ELSE "Q3"
                      qq == IF c = 1 THEN "Q3" ELSE "Q4"
                  IN [k   |-> RDiv(P("CL"), P(vc)),
                      kcp |-> RDiv(P(qp), P(vc)), kpc |-> RDiv(P(qp), P(vp)),
                      kcq |-> RDiv(P(qq), P(vc)), kqc |-> RDiv(P(qq), P(vq))]
      [] t = 6 -> LET al  == P("ALPHA")
                      be  == P("BETA")
                      ga  == P("GAMMA")
                      kpc == P(nm(2, 1))
                      kqc == P(nm(3, 1))
                      s   == RAdd(RAdd(al, be), ga)
                      pr  == RAdd(RAdd(RMul(al, be), RMul(al, ga)), RMul(be, ga))
                      k   == RDiv(RMul(RMul(al, be), ga), RMul(kpc, kqc))
                      kcq == RDiv(RSub(RSub(RAdd(pr, RMul(kqc, kqc)), RMul(kqc, s)), RMul(k, kpc)),
                                  RSub(kpc, kqc))
                      kcp == RSub(RSub(RSub(RSub(s, k), kcq), kpc), kqc)
                  IN [k |-> k, kcp |-> kcp, kpc |-> kpc, kcq |-> kcq, kqc |-> kqc]

KElim(t, env) == IF t = 2 THEN RDiv(Lookup(env, "CL"), Lookup(env, "V")) ELSE Lookup(env, "K")

\* all flows <<from, to, rate>> (to = 0: output)
Rates(a, t, env, amt) ==
    CASE a = 1  -> << <<1, 0, KElim(t, env)>> >>
      [] a = 2  -> << <<1, 2, Lookup(env, "KA")>>, <<2, 0, KElim(t, env)>> >>
      [] a = 3  -> LET m == TwoCmt(t, env, "V1", "V2")
                   IN << <<1, 0, m.k>>, <<1, 2, m.kcp>>, <<2, 1, m.kpc>> >>
      [] a = 4  -> LET m == TwoCmt(t, env, "V2", "V3")
                   IN << <<1, 2, Lookup(env, "KA")>>, <<2, 0, m.k>>, <<2, 3, m.kcp>>, <<3, 2, m.kpc>> >>
      [] a = 10 -> << <<1, 0, RDiv(Lookup(env, "VM"), RAdd(Lookup(env, "KM"), amt[1]))>> >>
      [] a = 11 -> LET m == ThreeCmt(t, env, 1)
                   IN << <<1, 0, m.k>>, <<1, 2, m.kcp>>, <<2, 1, m.kpc>>, <<1, 3, m.kcq>>, <<3, 1, m.kqc>> >>
      [] a = 12 -> LET m == ThreeCmt(t, env, 2)
                   IN << <<1, 2, Lookup(env, "KA")>>, <<2, 0, m.k>>, <<2, 3, m.kcp>>, <<3, 2, m.kpc>>,
                         <<2, 4, m.kcq>>, <<4, 2, m.kqc>> >>

DigitStr == <<"1", "2", "3", "4", "5", "6", "7", "8", "9", "10", "11", "12", "13", "14", "15", "16", "17", "18", "19", "20">>
NumStr(n) == IF n \in 1..20 THEN DigitStr[n] ELSE "0"

\* ---- basic PK parameters a TRANS routine requires $PK to assign (NM-TRAN rejects a control stream without them)
RequiredParams(a, t) ==
    LET ka == IF HasDepot(a) THEN {"KA"} ELSE {} IN
    CASE a \in {1, 2} -> (IF t = 2 THEN {"CL", "V"} ELSE {"K"}) \cup ka
      [] a = 3  -> (CASE t = 1 -> {"K", "K12", "K21"} [] t = 3 -> {"CL", "V", "Q", "VSS"} [] t = 4 -> {"CL", "V1", "Q", "V2"}
                      [] t = 5 -> {"AOB", "ALPHA", "BETA"} [] t = 6 -> {"ALPHA", "BETA", "K21"} [] OTHER -> {})
      [] a = 4  -> (CASE t = 1 -> {"K", "K23", "K32"} [] t = 3 -> {"CL", "V", "Q", "VSS"} [] t = 4 -> {"CL", "V2", "Q", "V3"}
                      [] t = 5 -> {"AOB", "ALPHA", "BETA"} [] t = 6 -> {"ALPHA", "BETA", "K32"} [] OTHER -> {}) \cup ka
      [] a = 10 -> {"VM", "KM"}
      [] a = 11 -> (CASE t = 1 -> {"K", "K12", "K21", "K13", "K31"} [] t = 4 -> {"CL", "V1", "Q2", "V2", "Q3", "V3"}
                      [] t = 6 -> {"ALPHA", "BETA", "GAMMA", "K21", "K31"} [] OTHER -> {})
      [] a = 12 -> (CASE t = 1 -> {"K", "K23", "K32", "K24", "K42"} [] t = 4 -> {"CL", "V2", "Q3", "V3", "Q4", "V4"}
                      [] t = 6 -> {"ALPHA", "BETA", "GAMMA", "K32", "K42"} [] OTHER -> {}) \cup ka
      [] OTHER  -> {}

\* ---- general models: $MODEL declares the compartments, comps = << [name, defdose, defobs, nodose], ... >>
\* default observation compartment: DEFOBSERVATION, else the compartment named CENTRAL, else the first;
\* default dose compartment: DEFDOSE, else the compartment named DEPOT, else the first that is not NODOSE
FirstIx(S) == IF S = {} THEN 0 ELSE CHOOSE i \in S : \A j \in S : i <= j
ModelDefObs(comps) ==
    LET a == FirstIx({i \in 1..Len(comps) : comps[i].defobs})
        b == FirstIx({i \in 1..Len(comps) : comps[i].name = "CENTRAL"})
    IN IF a # 0 THEN a ELSE IF b # 0 THEN b ELSE 1
ModelDefDose(comps) ==
    LET a == FirstIx({i \in 1..Len(comps) : comps[i].defdose})
        b == FirstIx({i \in 1..Len(comps) : comps[i].name = "DEPOT"})
        c == FirstIx({i \in 1..Len(comps) : ~comps[i].nodose})
    IN IF a # 0 THEN a ELSE IF b # 0 THEN b ELSE IF c # 0 THEN c ELSE 1

\* ADVAN5 / ADVAN7 (general linear): the rate constant from compartment i to j is the $PK variable  Kij  or  KiTj ;
\* to the output compartment:  Ki0, KiT0  (or with the output's number n+1).  (With fewer than ten compartments the
\* three-digit ambiguity rule of NM-TRAN never applies.)
KNames(i, j, n) ==
    IF j = 0 THEN {"K" \o NumStr(i) \o "0", "K" \o NumStr(i) \o "T0",
                   "K" \o NumStr(i) \o NumStr(n + 1), "K" \o NumStr(i) \o "T" \o NumStr(n + 1)}
    ELSE {"K" \o NumStr(i) \o NumStr(j), "K" \o NumStr(i) \o "T" \o NumStr(j)}
GeneralRates(n, env, assigned) ==
    LET pairs == [p \in 1..(n * (n + 1)) |-> <<((p - 1) \div (n + 1)) + 1, (p - 1) % (n + 1)>>]   \* <<i, j>>, j = 0..n
        has(p) == pairs[p][1] # pairs[p][2] /\ KNames(pairs[p][1], pairs[p][2], n) \cap assigned # {}
        val(p) == Lookup(env, CHOOSE nm \in KNames(pairs[p][1], pairs[p][2], n) \cap assigned : TRUE)
        sel == SelectSeq([p \in 1..(n * (n + 1)) |-> p], has)
    IN [q \in 1..Len(sel) |-> <<pairs[sel[q]][1], pairs[sel[q]][2], val(sel[q])>>]
\* a rate constant given under two of its names is an NM-TRAN error
GeneralAmbiguous(n, assigned) ==
    \E i \in 1..n, j \in 0..n : i # j /\ \E x, y \in KNames(i, j, n) \cap assigned : x # y

\* scale of compartment n: Sn, else SC for the central compartment, else none (= 1).
\* `assigned` = the names $PK assigns (anywhere, on any path: NM-TRAN looks at the text)
Scale(a, n, env, assigned) ==
    IF ("S" \o NumStr(n)) \in assigned THEN Lookup(env, "S" \o NumStr(n))
    ELSE IF a \in Advans /\ n = Central(a) /\ "SC" \in assigned THEN Lookup(env, "SC")
    ELSE One
\* F for an observation record whose CMT data item is `cmt` (0: default observation compartment)
ObsCmt(a, cmt) == IF cmt = 0 THEN DefObs(a) ELSE cmt
FValue(a, cmt, env, assigned, amt) ==
    LET n == ObsCmt(a, cmt) IN RDiv(amt[n], Scale(a, n, env, assigned))

Lag(n, env, assigned) == IF ("ALAG" \o NumStr(n)) \in assigned THEN Lookup(env, "ALAG" \o NumStr(n)) ELSE Zero
Bio(n, env, assigned) == IF ("F" \o NumStr(n)) \in assigned THEN Lookup(env, "F" \o NumStr(n)) ELSE One

\* dose description.  ratemode: "none" (no RATE item) | "zero" | "pos" | "m1" | "m2";  dcmt: CMT of the dose record (0 = default)
DoseCmt(a, dcmt) == IF dcmt = 0 THEN DefDose(a) ELSE dcmt
Dose(a, dcmt, ratemode, env) ==
    LET n == DoseCmt(a, dcmt) IN
    CASE ratemode \in {"none", "zero"} -> [cmt |-> n, kind |-> "bolus", par |-> Zero]
      [] ratemode = "pos" -> [cmt |-> n, kind |-> "rate", par |-> Lookup(env, "RATE")]
      [] ratemode = "m1"  -> [cmt |-> n, kind |-> "rate", par |-> Lookup(env, "R" \o NumStr(n))]
      [] ratemode = "m2"  -> [cmt |-> n, kind |-> "duration", par |-> Lookup(env, "D" \o NumStr(n))]
=============================================================================
