-------------------------------- MODULE Expr --------------------------------
(* Evaluator over JSON expression trees of NM-TRAN abbreviated code.

   Arithmetic expression  e ::=
       [k |-> "num", n |-> Int, d |-> Int]                 literal n/d  (d > 0)
       [k |-> "var", v |-> STRING]                          data item, THETA(i), ETA(i), EPS(i), user variable
       [k |-> "neg", a |-> e, tight |-> BOOLEAN]            tight: written without a blank after the minus sign
                                                            (immaterial in Fortran; the reader's lexer differs, see NegIR)
       [k |-> "add"|"sub"|"mul"|"div"|"pow", a |-> e, b |-> e]
       [k |-> "fn",  f |-> "EXP"|"LOG"|"SQRT"|"ABS"|"INT"|"MOD"|"PEXP"|"PLOG"|"PSQRT", a |-> e (, b |-> e)]
   Condition  c ::=
       [k |-> "rel", op |-> "EQ"|"NE"|"LT"|"LE"|"GT"|"GE", a |-> e, b |-> e]
       [k |-> "and"|"or", a |-> c, b |-> c] | [k |-> "not", a |-> c] | [k |-> "true"]

   Function model (DESIGN 3.3): EXP(x) := 2^x, LOG(2^k) := k, SQRT(q^2) := q; everything else
   is UNDEF and makes the case skipped.  Fortran rules transcribed here:
       INT(x)    truncation towards zero
       MOD(a,b)  a - INT(a/b)*b           (result has the sign of a)
       x ** y    defined for integer y (and y = q/2 through SQRT)
       PEXP/PLOG/PSQRT: NONMEM's protected functions; inside the probe range they equal
                 EXP / LOG (x > 0) / SQRT (x >= 0), PSQRT(x < 0) = 0.
   `sem` selects the dialect:  "nm"  = NM-TRAN (the reference);
                               "ir"  = what the model IR's functions compute (sympy): Mod is
                                       floored (sign of b).  Only the design-layer transcription
                                       uses "ir".

   The Fortran precedence/associativity table the renderer (harness/nmtran_render.py) and the
   parser under test must agree with is recorded in PrecedenceTable (level, associativity).   *)
EXTENDS Rat, TLC

PrecedenceTable ==
    [pow |-> <<7, "right">>,  \* A**B**C = A**(B**C);  -A**B = -(A**B)
     mul |-> <<6, "left">>, div |-> <<6, "left">>,
     neg |-> <<5, "prefix">>,  \* Fortran: unary minus ranks with the additive operators: -A*B = -(A*B)
     add |-> <<5, "left">>, sub |-> <<5, "left">>,
     rel |-> <<4, "none">>,
     not |-> <<3, "prefix">>, and |-> <<2, "left">>, or |-> <<1, "left">>]

Lookup(env, v) == IF v \in DOMAIN env THEN env[v] ELSE UNDEF

ModNM(a, b) == IF Bad2(a, b) THEN Pick2(a, b) ELSE IF b[1] = 0 THEN UNDEF
               ELSE RSub(a, RMul(RTrunc(RDiv(a, b)), b))
ModIR(a, b) == IF Bad2(a, b) THEN Pick2(a, b) ELSE IF b[1] = 0 THEN UNDEF
               ELSE RSub(a, RMul(RFloor(RDiv(a, b)), b))

ApplyFn(f, x, y, sem) ==
    CASE f = "EXP"   -> RExp2(x)
      [] f = "PEXP"  -> RExp2(x)
      [] f = "LOG"   -> RLog2(x)
      [] f = "PLOG"  -> RLog2(x)
      [] f = "SQRT"  -> RSqrt(x)
      [] f = "PSQRT" -> IF IsVal(x) /\ x[1] < 0 THEN Zero ELSE RSqrt(x)
      [] f = "ABS"   -> RAbs(x)
      [] f = "INT"   -> RTrunc(x)
      [] f = "MOD"   -> IF sem = "nm" THEN ModNM(x, y) ELSE ModIR(x, y)
      [] OTHER       -> UNDEF

\* DESIGN LAYER ("ir" only).  The reader's lexer glues a minus sign that is immediately followed by a numeric
\* literal into the literal (SIGNED_INT / FLOAT tokens), so  -2**X  is read as (-2)**X  whereas Fortran's unary
\* minus ranks below ** : -(2**X).  Products are unaffected: (-2)*X = -(2*X).
RECURSIVE LeftPowNum(_)
LeftPowNum(e) == \/ e.k = "pow" /\ e.a.k = "num"
                 \/ e.k \in {"mul", "div"} /\ LeftPowNum(e.a)
RECURSIVE SignIntoLiteral(_)
SignIntoLiteral(e) == IF e.k = "pow" THEN [e EXCEPT !.a = [k |-> "num", n |-> -e.a.n, d |-> e.a.d]]
                      ELSE [e EXCEPT !.a = SignIntoLiteral(e.a)]

RECURSIVE Eval(_, _, _)
Eval(e, env, sem) ==
    CASE e.k = "num" -> Norm(e.n, e.d)
      [] e.k = "var" -> Lookup(env, e.v)
      [] e.k = "neg" -> IF sem = "ir" /\ e.tight /\ LeftPowNum(e.a)
                        THEN Eval(SignIntoLiteral(e.a), env, sem)
                        ELSE RNeg(Eval(e.a, env, sem))
      [] e.k = "add" -> RAdd(Eval(e.a, env, sem), Eval(e.b, env, sem))
      [] e.k = "sub" -> RSub(Eval(e.a, env, sem), Eval(e.b, env, sem))
      [] e.k = "mul" -> RMul(Eval(e.a, env, sem), Eval(e.b, env, sem))
      [] e.k = "div" -> RDiv(Eval(e.a, env, sem), Eval(e.b, env, sem))
      [] e.k = "pow" -> RPow(Eval(e.a, env, sem), Eval(e.b, env, sem))
      [] e.k = "fn"  -> ApplyFn(e.f, Eval(e.a, env, sem),
                                IF e.f = "MOD" THEN Eval(e.b, env, sem) ELSE Zero, sem)
      [] OTHER       -> UNDEF

\* truth values: 1 true, 0 false, 2 undefined (an operand is UNDEF / not comparable)
Rel(op, c) ==
    IF c = 2 THEN 2
    ELSE LET t == CASE op = "EQ" -> c = 0
                    [] op = "NE" -> c # 0
                    [] op = "LT" -> c < 0
                    [] op = "LE" -> c <= 0
                    [] op = "GT" -> c > 0
                    [] op = "GE" -> c >= 0
         IN IF t THEN 1 ELSE 0

RECURSIVE Cond(_, _, _)
Cond(c, env, sem) ==
    CASE c.k = "true" -> 1
      [] c.k = "rel"  -> Rel(c.op, RCmp(Eval(c.a, env, sem), Eval(c.b, env, sem)))
      [] c.k = "not"  -> LET x == Cond(c.a, env, sem) IN IF x = 2 THEN 2 ELSE 1 - x
      \* Fortran does not promise short-circuit evaluation: an undefined operand poisons the result
      [] c.k = "and"  -> LET x == Cond(c.a, env, sem)
                             y == Cond(c.b, env, sem)
                         IN IF x = 2 \/ y = 2 THEN 2 ELSE IF x = 1 /\ y = 1 THEN 1 ELSE 0
      [] c.k = "or"   -> LET x == Cond(c.a, env, sem)
                             y == Cond(c.b, env, sem)
                         IN IF x = 2 \/ y = 2 THEN 2 ELSE IF x = 1 \/ y = 1 THEN 1 ELSE 0
      [] OTHER        -> 2

\* ---- syntactic helpers (coverage bookkeeping, hazard classification)
RECURSIVE KindsE(_)
KindsE(e) ==
    CASE e.k \in {"num", "var"} -> {e.k}
      [] e.k = "neg" -> {"neg"} \cup KindsE(e.a)
      [] e.k \in {"add", "sub", "mul", "div", "pow"} -> {e.k} \cup KindsE(e.a) \cup KindsE(e.b)
      [] e.k = "fn" -> {e.f} \cup KindsE(e.a) \cup (IF e.f = "MOD" THEN KindsE(e.b) ELSE {})
      [] OTHER -> {}
RECURSIVE KindsC(_)
KindsC(c) ==
    CASE c.k = "rel" -> {c.op} \cup KindsE(c.a) \cup KindsE(c.b)
      [] c.k = "not" -> {"not"} \cup KindsC(c.a)
      [] c.k \in {"and", "or"} -> {c.k} \cup KindsC(c.a) \cup KindsC(c.b)
      [] OTHER -> {}
\* some minus sign in e is glued to the base literal of a power (see NegIR above)
RECURSIVE SignedPowE(_)
SignedPowE(e) ==
    CASE e.k \in {"num", "var"} -> FALSE
      [] e.k = "neg" -> (e.tight /\ LeftPowNum(e.a)) \/ SignedPowE(e.a)
      [] e.k \in {"add", "sub", "mul", "div", "pow"} -> SignedPowE(e.a) \/ SignedPowE(e.b)
      [] e.k = "fn" -> SignedPowE(e.a) \/ (e.f = "MOD" /\ SignedPowE(e.b))
      [] OTHER -> FALSE
RECURSIVE SignedPowC(_)
SignedPowC(c) ==
    CASE c.k = "rel" -> SignedPowE(c.a) \/ SignedPowE(c.b)
      [] c.k = "not" -> SignedPowC(c.a)
      [] c.k \in {"and", "or"} -> SignedPowC(c.a) \/ SignedPowC(c.b)
      [] OTHER -> FALSE
\* a protected function applied to (an expression containing) a protected function
Protected == {"PEXP", "PLOG", "PSQRT"}
RECURSIVE ProtNestedE(_)
ProtNestedE(e) ==
    CASE e.k \in {"num", "var"} -> FALSE
      [] e.k = "neg" -> ProtNestedE(e.a)
      [] e.k \in {"add", "sub", "mul", "div", "pow"} -> ProtNestedE(e.a) \/ ProtNestedE(e.b)
      [] e.k = "fn" -> (e.f \in Protected /\ KindsE(e.a) \cap Protected # {}) \/ ProtNestedE(e.a)
                       \/ (e.f = "MOD" /\ ProtNestedE(e.b))
      [] OTHER -> FALSE

RECURSIVE VarsE(_)
VarsE(e) ==
    CASE e.k = "var" -> {e.v}
      [] e.k = "num" -> {}
      [] e.k = "neg" -> VarsE(e.a)
      [] e.k \in {"add", "sub", "mul", "div", "pow"} -> VarsE(e.a) \cup VarsE(e.b)
      [] e.k = "fn" -> VarsE(e.a) \cup (IF e.f = "MOD" THEN VarsE(e.b) ELSE {})
      [] OTHER -> {}
RECURSIVE VarsC(_)
VarsC(c) ==
    CASE c.k = "rel" -> VarsE(c.a) \cup VarsE(c.b)
      [] c.k = "not" -> VarsC(c.a)
      [] c.k \in {"and", "or"} -> VarsC(c.a) \cup VarsC(c.b)
      [] OTHER -> {}
=============================================================================
