---------------------------- MODULE OmegaMeaning ----------------------------
(* What $OMEGA / $SIGMA records mean under NM-TRAN rules (NONMEM help, $OMEGA).

   DIAGONAL record: each value is one 1x1 block; `SD`/`STANDARD` on a value: it is a standard
       deviation (variance = value^2); `FIXED` on a value fixes that value; (v)xn = n values.
   BLOCK(n) record: the values are the lower triangle, row by row.  Options (anywhere in the record):
       VARIANCE|STANDARD    the diagonal holds variances (default) | standard deviations
       COVARIANCE|CORRELATION  the off-diagonal holds covariances (default) | correlations
       CHOLESKY             the values are the lower Cholesky factor L, the block is L L^T
       FIXED                the whole block is fixed
   BLOCK(n) SAME / BLOCK SAME / SAME(m): the next n etas (m times) share the previous block's
       parameters: no new parameters.

   The block is returned as the sequence of its lower triangle, row by row, as exact rationals
   (VARIANCE CORRELATION needs sqrt(variance): exact only for rational squares, else UNDEF = skipped). *)
EXTENDS Rat

Tri(i, j) == IF j <= i THEN (i * (i - 1)) \div 2 + j ELSE (j * (j - 1)) \div 2 + i
TriLen(n) == (n * (n + 1)) \div 2

RECURSIVE SumTo(_, _)          \* sum_{k=1..m} f[k]
SumTo(f, m) == IF m = 0 THEN Zero ELSE RAdd(SumTo(f, m - 1), f[m])

BlockCov(n, x, sd, corr, chol) ==
    LET X(i, j) == x[Tri(i, j)]
        Sd(i)   == IF sd THEN X(i, i) ELSE RSqrt(X(i, i))
        Var(i)  == IF sd THEN RMul(X(i, i), X(i, i)) ELSE X(i, i)
        L(i, k) == IF k <= i THEN X(i, k) ELSE Zero
        Entry(i, j) ==
            IF chol THEN SumTo([k \in 1..j |-> RMul(L(i, k), L(j, k))], j)      \* j <= i
            ELSE IF i = j THEN Var(i)
            ELSE IF corr THEN RMul(RMul(X(i, j), Sd(i)), Sd(j))
            ELSE X(i, j)
        pos == [p \in 1..TriLen(n) |-> CHOOSE ij \in (1..n) \X (1..n) : ij[2] <= ij[1] /\ Tri(ij[1], ij[2]) = p]
    IN [p \in 1..TriLen(n) |-> Entry(pos[p][1], pos[p][2])]

DiagVar(v, sd) == IF sd THEN RMul(v, v) ELSE v

\* ---- accumulating the meaning of a sequence of records
\* st = [params : Seq([row, col, init, fix]), blocks : Seq([first, size, cov : Seq(param index)]), neta : Nat,
\*       last : index into blocks of the last non-SAME block (0: none)]
Empty == [params |-> <<>>, blocks |-> <<>>, neta |-> 0, last |-> 0]

AddBlock(st, n, covvals, fix) ==
    LET base == Len(st.params)
        first == st.neta + 1
        pos == [p \in 1..TriLen(n) |-> CHOOSE ij \in (1..n) \X (1..n) : ij[2] <= ij[1] /\ Tri(ij[1], ij[2]) = p]
        newp == [p \in 1..TriLen(n) |-> [row |-> st.neta + pos[p][1], col |-> st.neta + pos[p][2],
                                          init |-> covvals[p], fix |-> fix]]
    IN [params |-> st.params \o newp,
        blocks |-> Append(st.blocks, [first |-> first, size |-> n, cov |-> [p \in 1..TriLen(n) |-> base + p]]),
        neta |-> st.neta + n, last |-> Len(st.blocks) + 1]

AddDiag(st, v, sd, fix) == AddBlock(st, 1, <<DiagVar(v, sd)>>, fix)
RECURSIVE AddDiagN(_, _, _, _, _)
AddDiagN(st, v, sd, fix, k) == IF k = 0 THEN st ELSE AddDiagN(AddDiag(st, v, sd, fix), v, sd, fix, k - 1)

\* SAME: a new block of etas over the SAME parameters as the last proper block
AddSame(st) ==
    LET b == st.blocks[st.last]
    IN [st EXCEPT !.blocks = Append(st.blocks, [first |-> st.neta + 1, size |-> b.size, cov |-> b.cov]),
                  !.neta = st.neta + b.size]
RECURSIVE AddSameN(_, _)
AddSameN(st, m) == IF m = 0 THEN st ELSE AddSameN(AddSame(st), m - 1)
=============================================================================
