------------------------------ MODULE NMTranCov ------------------------------
(* Root module of the -coverage run of NMTran (a separate name keeps its TLC scratch directory apart from the
   bulk run that executes concurrently). *)
EXTENDS NMTran
=============================================================================
