---------------------------- MODULE ParamMeaning ----------------------------
(* Reads the $THETA / $OMEGA / $SIGMA records of a control stream one item / record at a
   time (one action each) and accumulates what they MEAN: the population parameters
   (initial value, bounds, fixedness) and the random-effect block structure.  The harness
   renders the same abstract records as text, reads it with pharmpy and compares
   model.parameters / model.random_variables with the emitted meaning.

   CASE FILE (IOEnv.CASES):  {"cases": [ {"id": n, "thetas": [item..], "omegas": [rec..], "sigmas": [rec..]} ]}
     item  see ThetaMeaning.tla
     rec ::= {"type":"diag",  "items":[{"n":Int,"d":Int,"sd":bool,"fix":bool,"rep":Nat}, ..]}
           | {"type":"block", "size":Nat, "vals":[{"n","d"},..], "sd":bool,"corr":bool,"chol":bool,"fix":bool}
           | {"type":"same",  "times":Nat}
   OUTPUT  <<"PARAM", json>>:  {id, thetas:[{init,lo,up,fix}], omega:{params,blocks,neta}, sigma:{..}}      *)
EXTENDS ThetaMeaning, OmegaMeaning, TLC, Json, IOUtils

Cases == JsonDeserialize(IOEnv.CASES).cases

VARIABLES cid, sec, todo, th, om, sg
vars == <<cid, sec, todo, th, om, sg>>
C == Cases[cid]

Init == /\ cid \in 1..Len(Cases)
        /\ sec = "theta" /\ todo = Cases[cid].thetas
        /\ th = <<>> /\ om = Empty /\ sg = Empty

Cur == Head(todo)
RV(x) == Norm(x.n, x.d)

DoThetaItem ==
    /\ sec = "theta" /\ todo # <<>>
    /\ th' = th \o ThetaItem(Cur) /\ todo' = Tail(todo)
    /\ UNCHANGED <<cid, sec, om, sg>>

\* one record of $OMEGA (sec = "omega") or $SIGMA (sec = "sigma")
Upd(f(_)) == IF sec = "omega" THEN om' = f(om) /\ UNCHANGED sg ELSE sg' = f(sg) /\ UNCHANGED om
RECURSIVE DiagItems(_, _)
DiagItems(st, items) ==
    IF items = <<>> THEN st
    ELSE DiagItems(AddDiagN(st, RV(Head(items)), Head(items).sd, Head(items).fix, Head(items).rep), Tail(items))
DoDiagRecord ==
    /\ sec \in {"omega", "sigma"} /\ todo # <<>> /\ Cur.type = "diag"
    /\ LET F(st) == DiagItems(st, Cur.items) IN Upd(F)
    /\ todo' = Tail(todo) /\ UNCHANGED <<cid, sec, th>>
DoBlockRecord ==
    /\ sec \in {"omega", "sigma"} /\ todo # <<>> /\ Cur.type = "block"
    /\ LET vals == [i \in 1..Len(Cur.vals) |-> RV(Cur.vals[i])]
           F(st) == AddBlock(st, Cur.size, BlockCov(Cur.size, vals, Cur.sd, Cur.corr, Cur.chol), Cur.fix)
       IN Upd(F)
    /\ todo' = Tail(todo) /\ UNCHANGED <<cid, sec, th>>
DoSameRecord ==
    /\ sec \in {"omega", "sigma"} /\ todo # <<>> /\ Cur.type = "same"
    /\ LET F(st) == AddSameN(st, Cur.times) IN Upd(F)
    /\ todo' = Tail(todo) /\ UNCHANGED <<cid, sec, th>>

DoNextSection ==
    /\ todo = <<>> /\ sec \in {"theta", "omega", "sigma"}
    /\ sec' = CASE sec = "theta" -> "omega" [] sec = "omega" -> "sigma" [] sec = "sigma" -> "done"
    /\ todo' = CASE sec = "theta" -> C.omegas [] sec = "omega" -> C.sigmas [] sec = "sigma" -> <<>>
    /\ UNCHANGED <<cid, th, om, sg>>

Next == DoThetaItem \/ DoDiagRecord \/ DoBlockRecord \/ DoSameRecord \/ DoNextSection
Spec == Init /\ [][Next]_vars

\* structural invariants of the meaning
Shape(st) == /\ \A i \in 1..Len(st.blocks) : Len(st.blocks[i].cov) = TriLen(st.blocks[i].size)
             /\ \A i \in 1..Len(st.blocks) : \A p \in 1..Len(st.blocks[i].cov) : st.blocks[i].cov[p] \in 1..Len(st.params)
             /\ (Len(st.blocks) > 0 =>
                   st.neta = st.blocks[Len(st.blocks)].first + st.blocks[Len(st.blocks)].size - 1)
WellShaped == Shape(om) /\ Shape(sg)

Out == [id |-> C.id, thetas |-> th,
        omega |-> [params |-> om.params, blocks |-> om.blocks, neta |-> om.neta],
        sigma |-> [params |-> sg.params, blocks |-> sg.blocks, neta |-> sg.neta]]
EmitParam == sec = "done" => PrintT(<<"PARAM", ToJson(Out)>>)
=============================================================================
