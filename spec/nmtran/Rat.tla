-------------------------------- MODULE Rat --------------------------------
(* Exact rational arithmetic for the "rational probe" evaluation (DESIGN 3.3).

   A value is a pair <<n, d>>:
       d > 0          the rational n/d in lowest terms (normalised)
       <<0, 0>>       UNDEF     - outside the domain of the function model
                                  (x/0, LOG of a non-power of two, SQRT of a non-square,
                                   read of a variable that was never assigned ...)
       <<1, 0>>       OVERFLOW  - an intermediate result would leave TLC's 32-bit integers
   Both special values are absorbing and make the *case* skipped, never judged.
   Every product is guarded (MulOK) because TLC aborts the whole run on integer
   overflow; Limit leaves room for one addition of two guarded products.          *)
EXTENDS Integers, Sequences

Limit == 1000000000

UNDEF == <<0, 0>>
OVF   == <<1, 0>>
IsVal(r) == r[2] > 0
\* first bad operand wins (which one is immaterial: the case is skipped)
Bad1(x)    == ~IsVal(x)
Bad2(x, y) == ~IsVal(x) \/ ~IsVal(y)
Pick2(x, y) == IF ~IsVal(x) THEN x ELSE y

AbsI(x) == IF x < 0 THEN -x ELSE x
SgnI(x) == IF x < 0 THEN -1 ELSE IF x = 0 THEN 0 ELSE 1
MulOK(a, b) == a = 0 \/ b = 0 \/ AbsI(a) <= Limit \div AbsI(b)

RECURSIVE Gcd(_, _)
Gcd(a, b) == IF b = 0 THEN a ELSE Gcd(b, a % b)

\* n/d with d > 0, |n|, d <= 2*Limit  -> lowest terms
Norm(n, d) == IF n = 0 THEN <<0, 1>>
              ELSE LET g == Gcd(AbsI(n), d) IN <<n \div g, d \div g>>
\* truncating division of integers (TLC's \div floors)
Quot(n, d) == SgnI(n) * (AbsI(n) \div d)

RInt(k) == <<k, 1>>
Zero == <<0, 1>>
One  == <<1, 1>>
IsInt(r) == IsVal(r) /\ r[2] = 1

RNeg(x) == IF Bad1(x) THEN x ELSE <<-x[1], x[2]>>

RAdd(x, y) ==
    IF Bad2(x, y) THEN Pick2(x, y)
    ELSE LET g  == Gcd(x[2], y[2])
             dx == x[2] \div g
             dy == y[2] \div g
         IN IF MulOK(x[1], dy) /\ MulOK(y[1], dx) /\ MulOK(dx, y[2])
            THEN LET n == x[1] * dy + y[1] * dx
                     r == Norm(n, dx * y[2])
                 IN IF AbsI(r[1]) <= Limit THEN r ELSE OVF
            ELSE OVF
RSub(x, y) == RAdd(x, RNeg(y))

RMul(x, y) ==
    IF Bad2(x, y) THEN Pick2(x, y)
    ELSE LET g1 == Gcd(AbsI(x[1]), y[2])     \* cross-cancel first: keeps numbers small
             g2 == Gcd(AbsI(y[1]), x[2])
             a  == x[1] \div (IF g1 = 0 THEN 1 ELSE g1)
             d  == y[2] \div (IF g1 = 0 THEN 1 ELSE g1)
             c  == y[1] \div (IF g2 = 0 THEN 1 ELSE g2)
             b  == x[2] \div (IF g2 = 0 THEN 1 ELSE g2)
         IN IF MulOK(a, c) /\ MulOK(b, d) THEN Norm(a * c, b * d) ELSE OVF

RInv(x) == IF Bad1(x) THEN x
           ELSE IF x[1] = 0 THEN UNDEF
           ELSE IF x[1] < 0 THEN <<-x[2], -x[1]>> ELSE <<x[2], x[1]>>
RDiv(x, y) == IF Bad2(x, y) THEN Pick2(x, y) ELSE IF y[1] = 0 THEN UNDEF ELSE RMul(x, RInv(y))

\* -1 / 0 / 1, or 2 when not comparable (a bad operand or an overflowing cross product)
RCmp(x, y) ==
    IF Bad2(x, y) THEN 2
    ELSE IF MulOK(x[1], y[2]) /\ MulOK(y[1], x[2])
         THEN SgnI(x[1] * y[2] - y[1] * x[2])
         ELSE 2
RSign(x) == SgnI(x[1])
RAbs(x) == IF Bad1(x) THEN x ELSE <<AbsI(x[1]), x[2]>>
\* Fortran INT / AINT: truncation towards zero
RTrunc(x) == IF Bad1(x) THEN x ELSE <<Quot(x[1], x[2]), 1>>
\* floor (what sympy's floor / Mod use)
RFloor(x) == IF Bad1(x) THEN x ELSE <<x[1] \div x[2], 1>>

\* integer powers by repeated squaring of guarded products (recursion depth <= 6: TLC's evaluator is
\* recursive and a deep TLA+ recursion can exhaust the Java stack)
MaxExp == 40
RECURSIVE RPowN(_, _)
RPowN(x, k) == IF k = 0 THEN One
               ELSE IF k = 1 THEN x
               ELSE LET h == RPowN(x, k \div 2)
                        hh == RMul(h, h)
                    IN IF k % 2 = 0 THEN hh ELSE RMul(hh, x)
RPowInt(x, k) ==
    IF Bad1(x) THEN x
    ELSE IF AbsI(k) > MaxExp THEN OVF
    ELSE IF k >= 0 THEN RPowN(x, k)           \* x**0 = 1 also for x = 0 (Fortran, and the reader's engine)
    ELSE IF x[1] = 0 THEN UNDEF ELSE RInv(RPowN(x, -k))

\* EXP(x) := 2^x   (defined for integer x)
RExp2(x) == IF Bad1(x) THEN x ELSE IF x[2] # 1 THEN UNDEF ELSE RPowInt(<<2, 1>>, x[1])

\* LOG(2^k) := k
RECURSIVE Log2I(_)
Log2I(n) == IF n = 1 THEN 0 ELSE IF n % 2 = 0 THEN (LET r == Log2I(n \div 2) IN IF r < 0 THEN -1 ELSE r + 1) ELSE -1
RLog2(x) ==
    IF Bad1(x) THEN x
    ELSE IF x[1] <= 0 THEN UNDEF
    ELSE IF x[2] = 1 THEN (LET k == Log2I(x[1]) IN IF k < 0 THEN UNDEF ELSE <<k, 1>>)
    ELSE IF x[1] = 1 THEN (LET k == Log2I(x[2]) IN IF k < 0 THEN UNDEF ELSE <<-k, 1>>)
    ELSE UNDEF

\* SQRT(q^2) := q
RECURSIVE ISqrtB(_, _, _)
ISqrtB(n, lo, hi) == IF lo >= hi THEN lo
                     ELSE LET m == (lo + hi + 1) \div 2
                          IN IF m * m <= n THEN ISqrtB(n, m, hi) ELSE ISqrtB(n, lo, m - 1)
ISqrt(n) == ISqrtB(n, 0, IF n < 31622 THEN n ELSE 31622)
RSqrt(x) ==
    IF Bad1(x) THEN x
    ELSE IF x[1] < 0 THEN UNDEF
    ELSE LET a == ISqrt(x[1])
             b == ISqrt(x[2])
         IN IF a * a = x[1] /\ b * b = x[2] THEN <<a, b>> ELSE UNDEF

\* x ** y for rational y: integer exponents, and q/2 exponents through SQRT
RPow(x, y) ==
    IF Bad2(x, y) THEN Pick2(x, y)
    ELSE IF y[2] = 1 THEN RPowInt(x, y[1])
    ELSE IF y[2] = 2 THEN RPowInt(RSqrt(x), y[1])
    ELSE UNDEF
=============================================================================
