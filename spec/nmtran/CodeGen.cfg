CONSTANTS
  Starts = {"pheno_real", "pheno_block", "mox2", "pheno_advan3", "pheno_advan4", "oral2_cmt"}
  Acts = {"A:INST", "A:FO", "A:ZO", "A:SEQ", "E:FO", "E:ZO", "E:MM", "E:MIX", "P:0", "P:1", "P:2", "P+", "P-", "T:0", "T:1", "T:3", "T:2N", "L:1", "L:0", "B:1", "B:0", "M:BASIC", "ZI", "COV", "CAT", "RCOV", "IOV", "RIOV", "CE", "RUV1", "RUV2", "RRV", "IIV", "FIX", "RCL", "RV"}
  MaxPeriph = 2
INIT Init
NEXT Next
INVARIANT TypeOK
INVARIANT TransConsistent
INVARIANT AdvanSound
INVARIANT EmitState
CHECK_DEADLOCK FALSE
