------------------------------- MODULE NMTran -------------------------------
(* The reference "nmtran_semantics" of property C01/C02: a SMALL-STEP INTERPRETER of
   NM-TRAN abbreviated code, one action per executed statement.

   State   <<pc, env>>  (+ bookkeeping):
     pc   the program continuation: the sequence of statements still to be executed, Head(pc)
          is the current statement.  Executing a block IF replaces it by the body of the arm
          that is taken, followed by the rest (so nested blocks need no return stack).
     env  variable name -> Rat value (Rat.tla).  Data items, THETA(i), ETA(i), EPS(i) are given
          by the probe environment; a user variable exists in env once it has been assigned.
   Semantics transcribed (Fortran / NM-TRAN rules):
     * v = e                       evaluates e in env, binds v
     * IF (c) v = e                assigns only when c is true, otherwise v keeps what it had
     * IF (c1) THEN .. ELSEIF (c2) THEN .. ELSE .. ENDIF
                                   conditions are evaluated in order, the FIRST true arm is executed
                                   (its statements one by one, nested statements included), no
                                   arm true and no ELSE: nothing happens
     * a variable that was never assigned on the executed path has no value (UNDEF): the spec
       takes no position on NM-TRAN's initial values
     * an executed right-hand side or condition without a value at the probe (UNDEF operand, x/0,
       outside the function model, 32-bit overflow) aborts the case (status "abort": skipped)
     * kind "advan": prog = $PK; when it has run, PREDPP's library (Advan.tla) turns the basic
       PK parameters into rate constants and F = A(obs)/S is bound (DoAdvan); then $ERROR (err)
       runs in the same variable space.

   CASE FILE (IOEnv.CASES = path of a JSON file; also used by C02 for generated code):
     { "cases": [ { "id": <int>, "kind": "pred" | "advan",
                    "prog": [stmt...],                 -- $PRED, or $PK
                    "err":  [stmt...],                 -- $ERROR            (advan only)
                    "advan": 1|2|3|4|10|11|12, "trans": 1..6,               (advan only)
                    "amt":  [[n,d], ...],              -- probe amounts A(1..ncomp)   (advan only)
                    "obscmt": 0|n, "dosecmt": 0|n,     -- CMT of observation / dose records (0 = default)
                    "ratemode": "none"|"zero"|"pos"|"m1"|"m2",
                    "comps": [{"name","defdose","defobs","nodose"},..],  -- $MODEL (advan 5,6,7,8,9,13 only)
                    "des":  [stmt...],                 -- $DES (advan 6,8,9,13 only): assigns "DADT(n)", reads "A(n)", "T"
                    "envs": [ { "<name>": [n,d], ... }, ... ]   -- 1..3 probe environments
                  }, ... ] }
     stmt ::= {"k":"asg","v":V,"e":e} | {"k":"lif","c":c,"v":V,"e":e}
            | {"k":"blk","arms":[{"c":c,"body":[stmt..]},..],"haselse":bool,"els":[stmt..]}
     e, c   see Expr.tla
   OUTPUT: one line  <<"CASE", json>>  per (case, environment):
     { id, env (index), status "ok"|"abort", final {user variable: [n,d]} (d = 0: undefined/overflow),
       design {..} = what the transcription PharmpyIf predicts for the IR, diffvars [..], hazards [..],
       seen [statement kinds / operators interpreted], adv {rates, f, lag, bio, dose, obs, ncomp} }   *)
EXTENDS Advan, PharmpyIf, Json, IOUtils

Cases == JsonDeserialize(IOEnv.CASES).cases

VARIABLES case,   \* the case record being interpreted (constant along a behaviour)
          eid,    \* index of the probe environment
          phase,  \* "main" ($PRED / $PK) | "err" ($ERROR) | "done" | "abort"
          pc, env,
          adv,    \* what PREDPP derives after $PK (advan cases), <<>> before
          seen    \* statement kinds / operators interpreted so far (vacuity guard)
vars == <<case, eid, phase, pc, env, adv, seen>>

C == case
Env0 == C.envs[eid]
IsAdvan == C.kind = "advan"

\* (the case is copied into the state so that the JSON file is read once, also under -coverage)
Init == /\ case \in (LET cs == Cases IN {cs[i] : i \in 1..Len(cs)})
        /\ eid \in 1..Len(case.envs)
        /\ phase = "main" /\ pc = case.prog /\ env = case.envs[eid]
        /\ adv = <<>> /\ seen = {}

Running == phase \in {"main", "des", "err"} /\ pc # <<>>
Cur == Head(pc)
Bind(e, v, x) == (v :> x) @@ e
Keep == UNCHANGED <<case, eid, adv>>
Abort == phase' = "abort" /\ pc' = <<>> /\ UNCHANGED env

\* ---------------------------------------------------------------- statements
DoAssign ==
    /\ Running /\ Cur.k = "asg" /\ IsVal(Eval(Cur.e, env, "nm"))
    /\ env' = Bind(env, Cur.v, Eval(Cur.e, env, "nm"))
    /\ pc' = Tail(pc) /\ seen' = seen \cup {"asg"} \cup KindsE(Cur.e)
    /\ UNCHANGED phase /\ Keep

DoLogicalIfTaken ==
    /\ Running /\ Cur.k = "lif" /\ Cond(Cur.c, env, "nm") = 1 /\ IsVal(Eval(Cur.e, env, "nm"))
    /\ env' = Bind(env, Cur.v, Eval(Cur.e, env, "nm"))
    /\ pc' = Tail(pc) /\ seen' = seen \cup {"lif_taken"} \cup KindsC(Cur.c) \cup KindsE(Cur.e)
    /\ UNCHANGED phase /\ Keep

DoLogicalIfSkipped ==
    /\ Running /\ Cur.k = "lif" /\ Cond(Cur.c, env, "nm") = 0
    /\ pc' = Tail(pc) /\ seen' = seen \cup {"lif_skipped"} \cup KindsC(Cur.c)
    /\ UNCHANGED <<phase, env>> /\ Keep

\* index of the first true arm; 0: none; -1: an undefined condition is met before a true one
RECURSIVE FirstTrue(_, _, _)
FirstTrue(arms, i, e) ==
    IF i > Len(arms) THEN 0
    ELSE LET t == Cond(arms[i].c, e, "nm")
         IN IF t = 2 THEN -1 ELSE IF t = 1 THEN i ELSE FirstTrue(arms, i + 1, e)
CondKinds(arms, n) == UNION {KindsC(arms[i].c) : i \in 1..n}

DoBlockIf ==          \* the IF arm is taken
    /\ Running /\ Cur.k = "blk" /\ FirstTrue(Cur.arms, 1, env) = 1
    /\ pc' = Cur.arms[1].body \o Tail(pc)
    /\ seen' = seen \cup {"blk_if"} \cup CondKinds(Cur.arms, 1)
    /\ UNCHANGED <<phase, env>> /\ Keep
DoBlockElseIf ==      \* an ELSEIF arm is taken
    /\ Running /\ Cur.k = "blk" /\ FirstTrue(Cur.arms, 1, env) > 1
    /\ LET i == FirstTrue(Cur.arms, 1, env)
       IN /\ pc' = Cur.arms[i].body \o Tail(pc)
          /\ seen' = seen \cup {"blk_elseif"} \cup CondKinds(Cur.arms, i)
    /\ UNCHANGED <<phase, env>> /\ Keep
DoBlockElse ==        \* no arm is true, ELSE is executed
    /\ Running /\ Cur.k = "blk" /\ FirstTrue(Cur.arms, 1, env) = 0 /\ Cur.haselse
    /\ pc' = Cur.els \o Tail(pc)
    /\ seen' = seen \cup {"blk_else"} \cup CondKinds(Cur.arms, Len(Cur.arms))
    /\ UNCHANGED <<phase, env>> /\ Keep
DoBlockNone ==        \* no arm is true, there is no ELSE: the block does nothing
    /\ Running /\ Cur.k = "blk" /\ FirstTrue(Cur.arms, 1, env) = 0 /\ ~Cur.haselse
    /\ pc' = Tail(pc)
    /\ seen' = seen \cup {"blk_none"} \cup CondKinds(Cur.arms, Len(Cur.arms))
    /\ UNCHANGED <<phase, env>> /\ Keep

DoCondUndefined ==    \* the branch cannot be decided at this probe: the case is skipped
    /\ Running
    /\ \/ Cur.k = "lif" /\ Cond(Cur.c, env, "nm") = 2
       \/ Cur.k = "blk" /\ FirstTrue(Cur.arms, 1, env) = -1
    /\ Abort /\ UNCHANGED seen /\ Keep
DoValueUndefined ==   \* an executed right-hand side has no value at this probe (x/0, LOG outside the function model,
                      \* read of a never assigned variable, 32-bit overflow): what NONMEM would do is not specified here
    /\ Running
    /\ \/ Cur.k = "asg" /\ ~IsVal(Eval(Cur.e, env, "nm"))
       \/ Cur.k = "lif" /\ Cond(Cur.c, env, "nm") = 1 /\ ~IsVal(Eval(Cur.e, env, "nm"))
    /\ Abort /\ UNCHANGED seen /\ Keep

\* ---------------------------------------------------------------- PREDPP between $PK and $ERROR
\* names $PK assigns anywhere in its text (NM-TRAN decides on the text, not on the executed path)
RECURSIVE AssignedIn(_)
AssignedStmt(st) ==
    CASE st.k \in {"asg", "lif"} -> {st.v}
      [] st.k = "blk" -> UNION {AssignedIn(st.arms[i].body) : i \in 1..Len(st.arms)}
                         \cup (IF st.haselse THEN AssignedIn(st.els) ELSE {})
AssignedIn(body) == UNION {AssignedStmt(body[i]) : i \in 1..Len(body)}

SetToSeq(S) == LET RECURSIVE L(_)
                   L(T) == IF T = {} THEN <<>> ELSE LET x == CHOOSE y \in T : TRUE IN <<x>> \o L(T \ {x})
               IN L(S)

\* kinds of kinetic library:  special (ADVAN1-4,10-12: Advan.tla's tables) | general linear (ADVAN5,7: $MODEL + Kij)
\*                             | differential equations (ADVAN6,8,9,13: $MODEL + $DES)
IsSpecial == C.advan \in Advans
IsGeneral == C.advan \in {5, 7}
IsDes     == C.advan \in {6, 8, 9, 13}
NC   == IF IsSpecial THEN NComp(C.advan) ELSE Len(C.comps)
ObsN == IF C.obscmt # 0 THEN C.obscmt ELSE IF IsSpecial THEN DefObs(C.advan) ELSE ModelDefObs(C.comps)
DoseN == IF C.dosecmt # 0 THEN C.dosecmt ELSE IF IsSpecial THEN DefDose(C.advan) ELSE ModelDefDose(C.comps)
FOf(e, as) == IF ObsN \in 1..NC THEN RDiv(C.amt[ObsN], Scale(C.advan, ObsN, e, as)) ELSE UNDEF

AdvRecord(e) ==
    LET a == C.advan
        as == AssignedIn(C.prog)
        amt == C.amt
        nc == NC
        obs == ObsN
        dosen == DoseN
    IN [ncomp |-> nc, obs |-> obs,
        rates |-> IF IsSpecial THEN Rates(a, C.trans, e, amt)
                  ELSE IF IsGeneral THEN GeneralRates(nc, e, as) ELSE <<>>,
        dadt  |-> IF IsDes THEN [n \in 1..nc |-> Lookup(e, "DADT(" \o NumStr(n) \o ")")] ELSE <<>>,
        missing |-> SetToSeq((IF IsSpecial THEN RequiredParams(a, C.trans) \ as ELSE {})
                             \cup (IF IsGeneral /\ GeneralAmbiguous(nc, as) THEN {"ambiguous rate constant names"} ELSE {})),
        \* CMT data items must name a compartment of the model (PREDPP stops with an error otherwise)
        cmtok |-> obs \in 1..nc /\ dosen \in 1..nc,
        f     |-> IF obs \in 1..nc THEN RDiv(amt[obs], Scale(a, obs, e, as)) ELSE UNDEF,
        lag   |-> [n \in 1..nc |-> Lag(n, e, as)],
        bio   |-> [n \in 1..nc |-> Bio(n, e, as)],
        dose  |-> Dose(a, dosen, C.ratemode, e)]

\* amounts are visible to $DES and $ERROR as A(n)
RECURSIVE BindAmounts(_, _)
BindAmounts(e, n) == IF n = 0 THEN e ELSE BindAmounts(Bind(e, "A(" \o NumStr(n) \o ")", C.amt[n]), n - 1)

\* (AdvRecord is bound once per action with LET: TLC's -coverage cost model expands every operator reference)
DoAdvan ==            \* special and general linear libraries: $PK has run, PREDPP supplies F
    /\ phase = "main" /\ pc = <<>> /\ IsAdvan /\ ~IsDes
    /\ LET rec == AdvRecord(env) IN
       /\ adv' = rec
       /\ env' = Bind(BindAmounts(env, rec.ncomp), "F", rec.f)
       /\ IF IsVal(rec.f) THEN phase' = "err" /\ pc' = C.err ELSE phase' = "abort" /\ pc' = <<>>
    /\ seen' = seen \cup {"advan"}
    /\ UNCHANGED <<case, eid>>

DoEnterDes ==         \* $DES is evaluated at the probe state A(1..n) (its statements run like any abbreviated code)
    /\ phase = "main" /\ pc = <<>> /\ IsAdvan /\ IsDes
    /\ env' = BindAmounts(env, Len(C.comps))
    /\ phase' = "des" /\ pc' = C.des
    /\ seen' = seen \cup {"des"}
    /\ UNCHANGED <<case, eid, adv>>

DoLeaveDes ==         \* the right-hand sides DADT(n) are recorded, PREDPP supplies F, $ERROR follows
    /\ phase = "des" /\ pc = <<>>
    /\ LET rec == AdvRecord(env) IN
       /\ adv' = rec
       /\ env' = Bind(env, "F", rec.f)
       /\ IF IsVal(rec.f) THEN phase' = "err" /\ pc' = C.err ELSE phase' = "abort" /\ pc' = <<>>
    /\ seen' = seen \cup {"advan"}
    /\ UNCHANGED <<case, eid>>

DoFinish ==
    /\ pc = <<>> /\ (phase = "err" \/ (phase = "main" /\ ~IsAdvan))
    /\ phase' = "done"
    /\ UNCHANGED <<case, eid, pc, env, adv, seen>>

Next == DoAssign \/ DoLogicalIfTaken \/ DoLogicalIfSkipped \/ DoBlockIf \/ DoBlockElseIf
        \/ DoBlockElse \/ DoBlockNone \/ DoCondUndefined \/ DoValueUndefined \/ DoAdvan
        \/ DoEnterDes \/ DoLeaveDes \/ DoFinish
Spec == Init /\ [][Next]_vars

\* ---------------------------------------------------------------- invariants of the interpreter
TypeOK == /\ phase \in {"main", "des", "err", "done", "abort"}
          /\ \A v \in DOMAIN env : Len(env[v]) = 2 /\ env[v][2] >= 0
\* the interpreter only ever adds bindings; inputs are never lost
Monotone == DOMAIN Env0 \subseteq DOMAIN env
\* values are normalised rationals (so equality of pairs is equality of numbers)
Normalised == \A v \in DOMAIN env : IsVal(env[v]) => Gcd(AbsI(env[v][1]), env[v][2]) = 1

\* ---------------------------------------------------------------- design layer and emission
User(e) == [v \in (DOMAIN e) \ (DOMAIN Env0) |-> e[v]]

DesignEnv ==
    IF ~IsAdvan THEN ExecIR(ParseTree(C.prog), Env0)
    ELSE LET e1 == ExecIR(ParseTree(C.prog), Env0)
             e1a == BindAmounts(e1, NC)
             e1b == IF IsDes THEN ExecIR(ParseTree(C.des), e1a) ELSE e1a
             e2 == Bind(e1b, "F", FOf(e1b, AssignedIn(C.prog)))
         IN ExecIR(ParseTree(C.err), e2)

DiffVars(fin, des) ==
    {v \in DOMAIN fin : IsVal(fin[v]) /\ (v \notin DOMAIN des \/ (IsVal(des[v]) /\ des[v] # fin[v]))}

Out ==
    LET fin == User(env)
        des == User(DesignEnv)
    IN [id |-> C.id, env |-> eid, status |-> IF phase = "done" THEN "ok" ELSE "abort",
        final |-> fin, design |-> des,
        diffvars |-> IF phase = "done" THEN SetToSeq(DiffVars(fin, des)) ELSE <<>>,
        hazards |-> SetToSeq(Hazards(C.prog) \cup (IF IsAdvan THEN Hazards(C.err) ELSE {})),
        seen |-> SetToSeq(seen), adv |-> adv]

EmitCase == phase \in {"done", "abort"} => PrintT(<<"CASE", ToJson(Out)>>)
=============================================================================
