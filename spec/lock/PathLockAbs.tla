---------------------------- MODULE PathLockAbs ----------------------------
(* Property layer of C15: what `path_lock` promises, and nothing about how.

   Threads (of several processes) issue requests [p, sh, bl, re] on paths, are
   granted (Enter), leave (Exit), or are refused.  Variables are the observable
   holds and pending requests; the kernel's record-lock table `k` is an observed
   input (it is part of the property: "held means held").

   (E) exclusive excludes everybody else, shared excludes exclusive holders
   (R) a non-reentrant request by a thread that already holds the path is never granted
       (it is refused with "rec", or with a would-block error when non-blocking)
   (N) would-block refusals only for non-blocking requests; a non-blocking request never waits
   (K) held means held: while a thread holds p, the kernel table shows its process
       holding p at least as strongly
   (W) no lost wake-up: in a terminal state -- and whenever all runnable threads are in user
       code (Quiet) -- every thread waiting inside an acquire is waiting for a conflicting hold
       (directly, or queued behind a justified conflicting request)
   (Q) when everybody has finished nothing is left: pools, descriptors, kernel locks *)
EXTENDS Naturals, Sequences, FiniteSets, TLC

CONSTANTS Thread   \* universe of thread ids; threads not taking part start in `fin`

VARIABLES hold,   \* [Thread -> Seq([p, sh])]   granted requests, innermost last
          pend,   \* [Thread -> request record | NoReq]
          fin     \* threads that have finished their program

NoReq == [p |-> "", sh |-> TRUE, bl |-> TRUE, re |-> TRUE, none |-> TRUE]
IsReq(r) == "none" \notin DOMAIN r
absvars == <<hold, pend, fin>>

AbsInit(active) == /\ hold = [t \in Thread |-> <<>>]
                   /\ pend = [t \in Thread |-> NoReq]
                   /\ fin = Thread \ active

Holds(t, p) == \E i \in 1..Len(hold[t]) : hold[t][i].p = p
HoldsEx(t, p) == \E i \in 1..Len(hold[t]) : hold[t][i].p = p /\ ~hold[t][i].sh
Conflicts(u, p, sh) == IF sh THEN HoldsEx(u, p) ELSE Holds(u, p)

Req(t, r) == /\ t \notin fin /\ ~IsReq(pend[t])
             /\ pend' = [pend EXCEPT ![t] = r]
             /\ UNCHANGED <<hold, fin>>

Enter(t) == /\ IsReq(pend[t])
            /\ LET r == pend[t] IN
               /\ \A u \in Thread \ {t} : ~Conflicts(u, r.p, r.sh)        \* (E)
               /\ (~r.re => ~Holds(t, r.p))                                 \* (R)
               /\ hold' = [hold EXCEPT ![t] = Append(@, [p |-> r.p, sh |-> r.sh])]
            /\ pend' = [pend EXCEPT ![t] = NoReq]
            /\ UNCHANGED fin

Exit(t) == /\ Len(hold[t]) > 0 /\ ~IsReq(pend[t])
           /\ hold' = [hold EXCEPT ![t] = SubSeq(@, 1, Len(@) - 1)]
           /\ UNCHANGED <<pend, fin>>

\* kinds: "wbT" / "wbP" would-block at thread / process level, "rec" RecursiveDeadlockError,
\*        "edeadlk" the kernel refused a blocking lockf (cross-process upgrade cycle)
Refuse(t, kind) == /\ IsReq(pend[t])
                   /\ LET r == pend[t] IN
                      /\ kind \in {"wbT", "wbP"} => ~r.bl                    \* (N)
                      /\ kind = "rec" => ~r.re /\ Holds(t, r.p)
                      /\ kind = "edeadlk" => r.bl
                      /\ kind \in {"wbT", "wbP", "rec", "edeadlk"}
                   /\ pend' = [pend EXCEPT ![t] = NoReq]
                   /\ UNCHANGED <<hold, fin>>

\* the thread was seen waiting (not schedulable); unw: it was unwinding a refusal (release path)
Blocked(t, unw) == /\ IsReq(pend[t]) /\ (pend[t].bl \/ unw)                  \* (N)
                   /\ UNCHANGED absvars

Done(t) == /\ t \notin fin /\ Len(hold[t]) = 0 /\ ~IsReq(pend[t])
           /\ fin' = fin \cup {t}
           /\ UNCHANGED <<hold, pend>>

\* ---- (W): justification of a stuck thread, least fixpoint over the stuck set
RECURSIVE Just(_, _)
Just(S, n) ==
    IF n = 0 THEN S
    ELSE Just(S \cup {t \in Thread \ fin :
                 /\ IsReq(pend[t])
                 /\ \E u \in S : u # t /\ IsReq(pend[u]) /\ pend[u].p = pend[t].p
                                 /\ (~pend[u].sh \/ ~pend[t].sh)}, n - 1)
Direct == {t \in Thread \ fin : IsReq(pend[t]) /\ \E u \in Thread \ {t} : Conflicts(u, pend[t].p, pend[t].sh)}
Justified == Just(Direct, Cardinality(Thread))

\* residue: number of things left in pools / fd tables / kernel at the end
Terminal(stuck, residue) ==
    /\ stuck = Thread \ fin
    /\ stuck = {} => residue = 0                                             \* (Q)
    /\ stuck \subseteq Justified                                             \* (W)
    /\ UNCHANGED absvars

\* all runnable threads are in user code; `blocked` = threads waiting inside an acquire
Quiet(blocked) == /\ blocked \subseteq Justified                                \* (W')
                  /\ UNCHANGED absvars

\* ---- (K): k is the observed kernel table, a set of <<path, proc, mode>>
Strong(m) == IF m = "EX" THEN 2 ELSE IF m = "SH" THEN 1 ELSE 0
KMode(k, p, q) == IF \E e \in k : e[1] = p /\ e[2] = q
                  THEN (CHOOSE e \in k : e[1] = p /\ e[2] = q)[3] ELSE "none"
HeldMeansHeldIn(h, k, procOf) == \A t \in Thread : \A i \in 1..Len(h[t]) :
                        Strong(KMode(k, h[t][i].p, procOf[t])) >= (IF h[t][i].sh THEN 1 ELSE 2)
=============================================================================
