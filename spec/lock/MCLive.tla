------------------------------- MODULE MCLive -------------------------------
(* Liveness: under weak fairness of every thread, programs without nesting (no
   hold-and-wait) always finish -- no lost wake-up shows up as a non-progress cycle
   or a deadlock.  Checked on the plain specification (no history variable, no
   state constraint).                                                            *)
EXTENDS MCBase
=============================================================================
