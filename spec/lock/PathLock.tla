------------------------------ MODULE PathLock ------------------------------
(* Design layer of C15: pharmpy/internals/fs/lock.py as it is written.

   One action per SEGMENT of the code: what a thread does from one acquire-like
   primitive (the only points where it can be pre-empted in a way that matters,
   see harness/locksim.py) up to the next one.  Consecutive steps under one mutex
   that touch only state protected by that mutex are therefore merged.

     OpStart       the thread leaves user code (the with-body, or the code between two requests)
                   and starts its next operation: a request or the release of its innermost hold
     request  path_lock(p, sh, bl, re):
       TPoolIn     pool lock; get/create the thread lock of p, refcount+1
       TAcqSh      condition.acquire; recursion check; count+1; release          (shared)
       TAcqEx      condition.acquire; check loop -> wait | would-block | recursive | granted
       TWake       return from condition.wait (notified, RLock free); check loop again
       FdIn        pool lock; open the descriptor or refcount+1
       PlIn        pool lock; get/create the process lock of the descriptor
       PAcq        mutex.acquire; recursion check; decide whether lockf is needed
       PKern       fcntl.lockf: granted | EAGAIN | EDEADLK | go to sleep
       PKGrant     asleep in lockf, woken by the kernel
       (granted: back in user code)
     release (normal exit or unwinding of a refusal):
       PRel        mutex; count-1; unlock / downgrade
       PlOut       pool lock; refcount-1
       FdOut       pool lock; refcount-1; the last user goes on to close the descriptor
       FdClose     os.close with the pool lock still held (POSIX: drops all locks of the process on
                   that file); FdOut/FdClose of an exclusive request also release the RLock
       TRelSh      condition.acquire; count-1; notify_all when the thread's own count drops to 0
       TPoolOut    pool lock; refcount-1; the request is finished (outcome recorded)

   Programs (well-bracketed sequences of acq/rel operations) are chosen per thread
   in Init from the constant ProgramsOf: "for all programs".                      *)
EXTENDS Naturals, Sequences, FiniteSets, TLC

CONSTANTS Thread,      \* set of thread ids (naturals)
          Proc,        \* set of process ids
          Path,        \* set of paths
          ProcOf,      \* [Thread -> Proc]
          ProgramsOf,  \* [Thread -> set of programs]
          NotifyRule   \* "own_zero" (the code after fix 41c98e0) | "all_zero" (the code before it)

VARIABLES prog, ip, pc, held, unw, outcome, ghold,   \* per thread
          tref, rlo, rld, acq, saved, notified,      \* thread-level lock, per <<proc, path>>
          fdref, plref, pmx, shby, exby,             \* process-level lock, per <<proc, path>>
          fdmx,                                      \* [Proc -> thread holding the fd pool's mutex across os.close | NoThread]
          klock,                                     \* kernel: [Path -> [Proc -> "none"|"SH"|"EX"]]
          rviol                                      \* ghost: a non-reentrant recursive request was granted

tvars == <<prog, ip, pc, held, unw, outcome, ghold>>
lvars == <<tref, rlo, rld, acq, saved, notified>>
pvars == <<fdref, plref, pmx, shby, exby, fdmx>>
vars == <<prog, ip, pc, held, unw, outcome, ghold, tref, rlo, rld, acq, saved, notified,
          fdref, plref, pmx, shby, exby, fdmx, klock, rviol>>

NoThread == 0
Key == Proc \X Path

InitProg ==
    /\ prog \in [Thread -> UNION {ProgramsOf[t] : t \in Thread}]
    /\ \A t \in Thread : prog[t] \in ProgramsOf[t]
InitRest ==
    /\ ip = [t \in Thread |-> 1]
    /\ pc = [t \in Thread |-> "idle"]
    /\ held = [t \in Thread |-> <<>>]
    /\ ghold = [t \in Thread |-> <<>>]
    /\ unw = [t \in Thread |-> "none"]
    /\ outcome = [t \in Thread |-> <<>>]
    /\ tref = [k \in Key |-> 0] /\ rlo = [k \in Key |-> NoThread] /\ rld = [k \in Key |-> 0]
    /\ acq = [k \in Key |-> [t \in Thread |-> 0]]
    /\ saved = [t \in Thread |-> 0] /\ notified = {}
    /\ fdref = [k \in Key |-> 0] /\ plref = [k \in Key |-> 0] /\ pmx = [k \in Key |-> NoThread]
    /\ shby = [k \in Key |-> [t \in Thread |-> 0]] /\ exby = [k \in Key |-> [t \in Thread |-> 0]]
    /\ fdmx = [q \in Proc |-> NoThread]
    /\ klock = [p \in Path |-> [q \in Proc |-> "none"]]
    /\ rviol = FALSE
Init == InitProg /\ InitRest

Done(t) == ip[t] > Len(prog[t]) /\ pc[t] = "idle"
Op(t) == prog[t][ip[t]]
\* the request a thread is working on: the acq being acquired / unwound, or the one being released
Rq(t) == IF Op(t).k = "acq" THEN Op(t) ELSE held[t][Len(held[t])]
K(t) == <<ProcOf[t], Rq(t).p>>
Mode(r) == IF r.sh THEN "SH" ELSE "EX"

RECURSIVE MatchRel(_, _, _)
MatchRel(p, i, n) == IF p[i].k = "rel" THEN (IF n = 0 THEN i ELSE MatchRel(p, i + 1, n - 1))
                     ELSE MatchRel(p, i + 1, n + 1)

Goto(t, l) == pc' = [pc EXCEPT ![t] = l]
RLFree(t) == rlo[K(t)] \in {NoThread, t}
Others(t) == \E u \in Thread \ {t} : acq[K(t)][u] > 0

\* ------------------------------------------------------------------ acquire path
\* user code -> lock code
OpStart(t) ==
    /\ pc[t] = "idle" /\ ~Done(t)
    /\ Goto(t, IF Op(t).k = "acq" THEN "tpool_in" ELSE "prel")
    /\ UNCHANGED <<prog, ip, held, unw, outcome, ghold, lvars, pvars, klock, rviol>>

TPoolIn(t) ==
    /\ pc[t] = "tpool_in"
    /\ tref' = [tref EXCEPT ![K(t)] = @ + 1]
    /\ Goto(t, "tacq")
    /\ UNCHANGED <<prog, ip, held, unw, outcome, ghold, rlo, rld, acq, saved, notified, pvars, klock, rviol>>

Refuse(t, kind, next) == unw' = [unw EXCEPT ![t] = kind] /\ Goto(t, next)

TAcqSh(t) ==
    /\ pc[t] = "tacq" /\ Rq(t).sh
    /\ IF RLFree(t)
       THEN IF ~Rq(t).re /\ acq[K(t)][t] > 0
            THEN Refuse(t, "rec", "tpool_out") /\ UNCHANGED acq
            ELSE /\ acq' = [acq EXCEPT ![K(t)][t] = @ + 1]
                 /\ Goto(t, "fd_in") /\ UNCHANGED unw
       ELSE /\ ~Rq(t).bl                         \* a blocking acquire simply waits for the RLock
            /\ Refuse(t, "wbT", "tpool_out") /\ UNCHANGED acq
    /\ UNCHANGED <<prog, ip, held, outcome, ghold, tref, rlo, rld, saved, notified, pvars, klock, rviol>>

\* the check loop of _lock_ex, entered with the RLock held at depth d (owner t)
ExCheck(t, d) ==
    IF Others(t)
    THEN IF Rq(t).bl
         THEN /\ saved' = [saved EXCEPT ![t] = d]                 \* Condition.wait: release completely
              /\ rlo' = [rlo EXCEPT ![K(t)] = NoThread] /\ rld' = [rld EXCEPT ![K(t)] = 0]
              /\ notified' = notified \ {t}
              /\ Goto(t, "twait") /\ UNCHANGED <<acq, unw>>
         ELSE /\ Refuse(t, "wbT", "tpool_out")
              /\ rld' = [rld EXCEPT ![K(t)] = d - 1]
              /\ rlo' = [rlo EXCEPT ![K(t)] = IF d = 1 THEN NoThread ELSE t]
              /\ notified' = notified \ {t}
              /\ UNCHANGED <<acq, saved>>
    ELSE IF acq[K(t)][t] > 0 /\ ~Rq(t).re
         THEN /\ Refuse(t, "rec", "tpool_out")
              /\ rld' = [rld EXCEPT ![K(t)] = d - 1]
              /\ rlo' = [rlo EXCEPT ![K(t)] = IF d = 1 THEN NoThread ELSE t]
              /\ notified' = notified \ {t}
              /\ UNCHANGED <<acq, saved>>
         ELSE /\ acq' = [acq EXCEPT ![K(t)][t] = @ + 1]          \* granted: keeps the RLock for the body
              /\ rlo' = [rlo EXCEPT ![K(t)] = t] /\ rld' = [rld EXCEPT ![K(t)] = d]
              /\ notified' = notified \ {t}
              /\ Goto(t, "fd_in") /\ UNCHANGED <<unw, saved>>

TAcqEx(t) ==
    /\ pc[t] = "tacq" /\ ~Rq(t).sh
    /\ IF RLFree(t)
       THEN ExCheck(t, rld[K(t)] + 1)
       ELSE /\ ~Rq(t).bl
            /\ Refuse(t, "wbT", "tpool_out") /\ UNCHANGED <<rlo, rld, acq, saved, notified>>
    /\ UNCHANGED <<prog, ip, held, outcome, ghold, tref, pvars, klock, rviol>>

TWake(t) ==
    /\ pc[t] = "twait" /\ t \in notified /\ rlo[K(t)] = NoThread
    /\ ExCheck(t, saved[t])
    /\ UNCHANGED <<prog, ip, held, outcome, ghold, tref, pvars, klock, rviol>>

FdIn(t) ==
    /\ pc[t] = "fd_in" /\ fdmx[ProcOf[t]] = NoThread
    /\ fdref' = [fdref EXCEPT ![K(t)] = @ + 1]
    /\ Goto(t, "pl_in")
    /\ UNCHANGED <<prog, ip, held, unw, outcome, ghold, lvars, plref, pmx, shby, exby, fdmx, klock, rviol>>

PlIn(t) ==
    /\ pc[t] = "pl_in"
    /\ plref' = [plref EXCEPT ![K(t)] = @ + 1]
    /\ Goto(t, "pacq")
    /\ UNCHANGED <<prog, ip, held, unw, outcome, ghold, lvars, fdref, pmx, shby, exby, fdmx, klock, rviol>>

IsSh(k) == \E u \in Thread : shby[k][u] > 0
IsEx(k) == \E u \in Thread : exby[k][u] > 0

\* the request is granted: count it, enter the body
Grant(t) ==
    /\ IF Rq(t).sh THEN shby' = [shby EXCEPT ![K(t)][t] = @ + 1] /\ UNCHANGED exby
                   ELSE exby' = [exby EXCEPT ![K(t)][t] = @ + 1] /\ UNCHANGED shby
    /\ held' = [held EXCEPT ![t] = Append(@, Rq(t))]
    /\ ghold' = [ghold EXCEPT ![t] = Append(@, Rq(t))]
    /\ outcome' = [outcome EXCEPT ![t] = Append(@, "granted")]
    /\ rviol' = (rviol \/ (~Rq(t).re /\ \E i \in 1..Len(ghold[t]) : ghold[t][i].p = Rq(t).p))
    /\ Goto(t, "idle") /\ ip' = [ip EXCEPT ![t] = @ + 1]

PAcq(t) ==
    /\ pc[t] = "pacq"
    /\ IF pmx[K(t)] = NoThread
       THEN IF ~Rq(t).re /\ (shby[K(t)][t] > 0 \/ exby[K(t)][t] > 0)
            THEN /\ Refuse(t, "rec", "pl_out")
                 /\ UNCHANGED <<ip, pmx, shby, exby, held, ghold, outcome, rviol>>
            ELSE IF ~(IsSh(K(t)) \/ IsEx(K(t))) \/ (IsSh(K(t)) /\ ~Rq(t).sh)
                 THEN /\ pmx' = [pmx EXCEPT ![K(t)] = t]          \* lockf is called with the mutex held
                      /\ Goto(t, "pkern")
                      /\ UNCHANGED <<ip, unw, shby, exby, held, ghold, outcome, rviol>>
                 ELSE Grant(t) /\ UNCHANGED <<pmx, unw>>
       ELSE /\ ~Rq(t).bl
            /\ Refuse(t, "wbP", "pl_out")
            /\ UNCHANGED <<ip, pmx, shby, exby, held, ghold, outcome, rviol>>
    /\ UNCHANGED <<prog, lvars, fdref, plref, fdmx, klock>>

Compat(m1, m2) == m1 = "none" \/ m2 = "none" \/ (m1 = "SH" /\ m2 = "SH")
Grantable(q, p, m) == \A q2 \in Proc \ {q} : Compat(klock[p][q2], m)
Blockers(q, p, m) == {q2 \in Proc \ {q} : ~Compat(klock[p][q2], m)}
Sleepers(q) == {u \in Thread : ProcOf[u] = q /\ pc[u] = "pkwait"}
\* processes reachable through "is blocked by" from a set of processes
RECURSIVE ReachP(_, _)
ReachP(S, n) == IF n = 0 THEN S
                ELSE ReachP(S \cup UNION {Blockers(ProcOf[u], Rq(u).p, Mode(Rq(u))) : u \in UNION {Sleepers(q2) : q2 \in S}}, n - 1)
WouldDeadlock(t) == ProcOf[t] \in ReachP(Blockers(ProcOf[t], Rq(t).p, Mode(Rq(t))), Cardinality(Proc))

PKern(t) ==
    /\ pc[t] = "pkern"
    /\ LET q == ProcOf[t]   p == Rq(t).p   m == Mode(Rq(t)) IN
       IF Grantable(q, p, m)
       THEN /\ klock' = [klock EXCEPT ![p][q] = m]
            /\ pmx' = [pmx EXCEPT ![K(t)] = NoThread]
            /\ Grant(t) /\ UNCHANGED unw
       ELSE IF ~Rq(t).bl
       THEN /\ Refuse(t, "wbP", "pl_out") /\ pmx' = [pmx EXCEPT ![K(t)] = NoThread]
            /\ UNCHANGED <<ip, klock, shby, exby, held, ghold, outcome, rviol>>
       ELSE IF WouldDeadlock(t)
       THEN /\ Refuse(t, "edeadlk", "pl_out") /\ pmx' = [pmx EXCEPT ![K(t)] = NoThread]
            /\ UNCHANGED <<ip, klock, shby, exby, held, ghold, outcome, rviol>>
       ELSE /\ Goto(t, "pkwait")
            /\ UNCHANGED <<ip, klock, pmx, unw, shby, exby, held, ghold, outcome, rviol>>
    /\ UNCHANGED <<prog, lvars, fdref, plref, fdmx>>

PKGrant(t) ==
    /\ pc[t] = "pkwait"
    /\ Grantable(ProcOf[t], Rq(t).p, Mode(Rq(t)))
    /\ klock' = [klock EXCEPT ![Rq(t).p][ProcOf[t]] = Mode(Rq(t))]
    /\ pmx' = [pmx EXCEPT ![K(t)] = NoThread]
    /\ Grant(t)
    /\ UNCHANGED <<prog, unw, lvars, fdref, plref, fdmx>>

\* ------------------------------------------------------------------ release path
PRel(t) ==
    /\ pc[t] = "prel"
    /\ pmx[K(t)] = NoThread
    /\ LET k == K(t)   r == Rq(t)
           sh2 == IF r.sh THEN [shby EXCEPT ![k][t] = @ - 1] ELSE shby
           ex2 == IF r.sh THEN exby ELSE [exby EXCEPT ![k][t] = @ - 1]
           isSh == \E u \in Thread : sh2[k][u] > 0
           isEx == \E u \in Thread : ex2[k][u] > 0
       IN /\ shby' = sh2 /\ exby' = ex2
          /\ klock' = IF ~(isSh \/ isEx) THEN [klock EXCEPT ![r.p][ProcOf[t]] = "none"]
                      ELSE IF ~isEx /\ ~r.sh THEN [klock EXCEPT ![r.p][ProcOf[t]] = "SH"]
                      ELSE klock
    /\ ghold' = [ghold EXCEPT ![t] = SubSeq(@, 1, Len(@) - 1)]
    /\ Goto(t, "pl_out")
    /\ UNCHANGED <<prog, ip, held, unw, outcome, lvars, fdref, plref, pmx, fdmx, rviol>>

PlOut(t) ==
    /\ pc[t] = "pl_out"
    /\ plref' = [plref EXCEPT ![K(t)] = @ - 1]
    /\ Goto(t, "fd_out")
    /\ UNCHANGED <<prog, ip, held, unw, outcome, ghold, lvars, fdref, pmx, shby, exby, fdmx, klock, rviol>>

\* what follows the fd pool in the unwinding: for an exclusive request the RLock is released
\* (_lock_ex's finally needs no acquire), for a shared one the next primitive is condition.acquire
FdTail(t) ==
    IF Rq(t).sh
    THEN Goto(t, "trel") /\ UNCHANGED <<acq, rlo, rld>>
    ELSE /\ acq' = [acq EXCEPT ![K(t)][t] = @ - 1]
         /\ rld' = [rld EXCEPT ![K(t)] = @ - 1]
         /\ rlo' = [rlo EXCEPT ![K(t)] = IF rld[K(t)] = 1 THEN NoThread ELSE t]
         /\ Goto(t, "tpool_out")

FdOut(t) ==
    /\ pc[t] = "fd_out" /\ fdmx[ProcOf[t]] = NoThread
    /\ fdref' = [fdref EXCEPT ![K(t)] = @ - 1]
    /\ IF fdref[K(t)] = 1
       THEN /\ fdmx' = [fdmx EXCEPT ![ProcOf[t]] = t]           \* last user: os.close is called with the pool mutex held
            /\ Goto(t, "fd_close") /\ UNCHANGED <<acq, rlo, rld>>
       ELSE FdTail(t) /\ UNCHANGED fdmx
    /\ UNCHANGED <<prog, ip, held, unw, outcome, ghold, tref, saved, notified, plref, pmx, shby, exby, klock, rviol>>

\* os.close(fd): POSIX drops every record lock the process holds on that file
FdClose(t) ==
    /\ pc[t] = "fd_close"
    /\ klock' = [klock EXCEPT ![Rq(t).p][ProcOf[t]] = "none"]
    /\ fdmx' = [fdmx EXCEPT ![ProcOf[t]] = NoThread]
    /\ FdTail(t)
    /\ UNCHANGED <<prog, ip, held, unw, outcome, ghold, tref, saved, notified, fdref, plref, pmx, shby, exby, rviol>>

Waiters(k) == {u \in Thread : pc[u] = "twait" /\ K(u) = k}
TRelSh(t) ==
    /\ pc[t] = "trel" /\ RLFree(t)
    /\ acq' = [acq EXCEPT ![K(t)][t] = @ - 1]
    /\ LET ownZero == acq[K(t)][t] = 1
           allZero == ownZero /\ \A u \in Thread \ {t} : acq[K(t)][u] = 0
       IN notified' = IF (NotifyRule = "own_zero" /\ ownZero) \/ (NotifyRule = "all_zero" /\ allZero)
                      THEN notified \cup Waiters(K(t)) ELSE notified
    /\ Goto(t, "tpool_out")
    /\ UNCHANGED <<prog, ip, held, unw, outcome, ghold, tref, rlo, rld, saved, pvars, klock, rviol>>

TPoolOut(t) ==
    /\ pc[t] = "tpool_out"
    /\ tref' = [tref EXCEPT ![K(t)] = @ - 1]
    /\ IF unw[t] # "none"
       THEN /\ outcome' = [outcome EXCEPT ![t] = Append(@, unw[t])]
            /\ unw' = [unw EXCEPT ![t] = "none"]
            /\ ip' = [ip EXCEPT ![t] = MatchRel(prog[t], ip[t] + 1, 0) + 1]
            /\ UNCHANGED held
       ELSE /\ held' = [held EXCEPT ![t] = SubSeq(@, 1, Len(@) - 1)]
            /\ ip' = [ip EXCEPT ![t] = @ + 1]
            /\ UNCHANGED <<outcome, unw>>
    /\ Goto(t, "idle")
    /\ UNCHANGED <<prog, ghold, rlo, rld, acq, saved, notified, pvars, klock, rviol>>

\* named per-thread disjuncts (for -coverage)
DoTPoolIn == \E t \in Thread : TPoolIn(t)
DoTAcqSh == \E t \in Thread : TAcqSh(t)
DoTAcqEx == \E t \in Thread : TAcqEx(t)
DoTWake == \E t \in Thread : TWake(t)
DoFdIn == \E t \in Thread : FdIn(t)
DoPlIn == \E t \in Thread : PlIn(t)
DoPAcq == \E t \in Thread : PAcq(t)
DoPKern == \E t \in Thread : PKern(t)
DoPKGrant == \E t \in Thread : PKGrant(t)
DoOpStart == \E t \in Thread : OpStart(t)
DoPRel == \E t \in Thread : PRel(t)
DoPlOut == \E t \in Thread : PlOut(t)
DoFdOut == \E t \in Thread : FdOut(t)
DoFdClose == \E t \in Thread : FdClose(t)
DoTRelSh == \E t \in Thread : TRelSh(t)
DoTPoolOut == \E t \in Thread : TPoolOut(t)

Step(t) == \/ TPoolIn(t) \/ TAcqSh(t) \/ TAcqEx(t) \/ TWake(t) \/ FdIn(t) \/ PlIn(t) \/ PAcq(t)
           \/ PKern(t) \/ PKGrant(t) \/ OpStart(t) \/ PRel(t) \/ PlOut(t) \/ FdOut(t) \/ FdClose(t) \/ TRelSh(t) \/ TPoolOut(t)
Next == DoTPoolIn \/ DoTAcqSh \/ DoTAcqEx \/ DoTWake \/ DoFdIn \/ DoPlIn \/ DoPAcq \/ DoPKern
        \/ DoPKGrant \/ DoOpStart \/ DoPRel \/ DoPlOut \/ DoFdOut \/ DoFdClose \/ DoTRelSh \/ DoTPoolOut
Spec == Init /\ [][Next]_vars
FairSpec == Spec /\ \A t \in Thread : WF_vars(Step(t))

\* ------------------------------------------------------------------ the property layer on the design state
AllDone == \A t \in Thread : Done(t)
GHolds(t, p) == \E i \in 1..Len(ghold[t]) : ghold[t][i].p = p
GHoldsEx(t, p) == \E i \in 1..Len(ghold[t]) : ghold[t][i].p = p /\ ~ghold[t][i].sh

\* (E)
Exclusion == \A t, u \in Thread : \A p \in Path : t # u /\ GHoldsEx(t, p) => ~GHolds(u, p)
\* (K)
Strong(m) == IF m = "EX" THEN 2 ELSE IF m = "SH" THEN 1 ELSE 0
HeldMeansHeld == \A t \in Thread : \A i \in 1..Len(ghold[t]) :
                    Strong(klock[ghold[t][i].p][ProcOf[t]]) >= (IF ghold[t][i].sh THEN 1 ELSE 2)
\* (N)
NonBlockingNeverWaits == \A t \in Thread : pc[t] \in {"twait", "pkwait"} => Rq(t).bl
\* (R)
NoRecursiveGrant == ~rviol
\* (Q)
Quiescent == AllDone =>
    /\ \A k \in Key : tref[k] = 0 /\ fdref[k] = 0 /\ plref[k] = 0 /\ rlo[k] = NoThread /\ rld[k] = 0
                      /\ pmx[k] = NoThread /\ fdmx[k[1]] = NoThread
                      /\ \A t \in Thread : acq[k][t] = 0 /\ shby[k][t] = 0 /\ exby[k][t] = 0
    /\ \A p \in Path : \A q \in Proc : klock[p][q] = "none"
\* bookkeeping is consistent all the time
Counters == \A k \in Key : \A t \in Thread : acq[k][t] >= 0 /\ shby[k][t] >= 0 /\ exby[k][t] >= 0

\* (W) no lost wake-up: in a state without successor every unfinished thread is justified
Acquiring(t) == pc[t] \in {"tpool_in", "tacq", "twait", "fd_in", "pl_in", "pacq", "pkern", "pkwait"}
Conflict(u, p, sh) == IF sh THEN GHoldsEx(u, p) ELSE GHolds(u, p)
Direct == {t \in Thread : ~Done(t) /\ Acquiring(t) /\ unw[t] = "none"
                           /\ \E u \in Thread \ {t} : Conflict(u, Rq(t).p, Rq(t).sh)}
RECURSIVE Just(_, _)
Just(S, n) == IF n = 0 THEN S
              ELSE Just(S \cup {t \in Thread : ~Done(t) /\ Acquiring(t) /\ unw[t] = "none"
                                  /\ \E u \in S : u # t /\ Rq(u).p = Rq(t).p /\ (~Rq(u).sh \/ ~Rq(t).sh)}, n - 1)
\* explicit enabledness of a thread (equal to ENABLED Step(t): invariant EnMatches), cheap to evaluate
En(t) == /\ ~Done(t)
         /\ CASE pc[t] = "tacq"   -> RLFree(t) \/ ~Rq(t).bl
              [] pc[t] = "twait"  -> t \in notified /\ rlo[K(t)] = NoThread
              [] pc[t] = "pacq"   -> pmx[K(t)] = NoThread \/ ~Rq(t).bl
              [] pc[t] = "pkwait" -> Grantable(ProcOf[t], Rq(t).p, Mode(Rq(t)))
              [] pc[t] = "prel"   -> pmx[K(t)] = NoThread
              [] pc[t] = "trel"   -> RLFree(t)
              [] pc[t] \in {"fd_in", "fd_out"} -> fdmx[ProcOf[t]] = NoThread
              [] OTHER            -> TRUE
EnMatches == \A t \in Thread : En(t) <=> ENABLED Step(t)
Stuck == ~AllDone /\ \A t \in Thread : ~En(t)
NoLostWakeup == Stuck => {t \in Thread : ~Done(t)} \subseteq Just(Direct, Cardinality(Thread))

\* (W'), stronger: whenever all runnable threads are in user code (nobody is in the middle of a lock
\* operation), every thread that is waiting inside an acquire is justified -- a waiter is not kept
\* waiting by anything but a conflicting hold (or a queued conflicting request)
Quiet == \A t \in Thread : En(t) => pc[t] = "idle"
QuietJustified == Quiet => {t \in Thread : ~Done(t) /\ pc[t] # "idle"} \subseteq Just(Direct, Cardinality(Thread))

\* programs without nesting cannot hold-and-wait: they always finish
Flat(t) == \A i \in 1..(Len(prog[t]) - 1) : prog[t][i].k = "acq" => prog[t][i + 1].k = "rel"
FlatProgramsFinish == (\A t \in Thread : Flat(t)) => <>AllDone
=============================================================================
