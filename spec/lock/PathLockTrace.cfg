CONSTANTS
  Thread = {1, 2, 3, 4}
INIT TraceInit
NEXT TraceNext
INVARIANT EmitAcc
CHECK_DEADLOCK FALSE
