CONSTANTS
  NThreads = 2
  NProcs = 1
  NPaths = 1
  Family = "upgrade"
  NotifyRule = "all_zero"
  Thread <- MCThread
  Proc <- MCProc
  Path <- MCPath
  ProcOf <- MCProcOf
  ProgramsOf <- MCProgramsOf
INIT HInit
NEXT HNext
VIEW View
INVARIANT Exclusion
INVARIANT HeldMeansHeld
INVARIANT NonBlockingNeverWaits
INVARIANT NoRecursiveGrant
INVARIANT Quiescent
INVARIANT Counters
INVARIANT NoLostWakeup
CHECK_DEADLOCK FALSE
