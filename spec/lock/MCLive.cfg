CONSTANTS
  NThreads = 2
  NProcs = 2
  NPaths = 1
  Family = "one"
  NotifyRule = "own_zero"
  Thread <- MCThread
  Proc <- MCProc
  Path <- MCPath
  ProcOf <- MCProcOf
  ProgramsOf <- MCProgramsOf
SPECIFICATION FairSpec
PROPERTY FlatProgramsFinish
CHECK_DEADLOCK FALSE
