CONSTANTS
  NThreads = 2
  NProcs = 1
  NPaths = 1
  Family = "one"
  NotifyRule = "own_zero"
  Thread <- MCThread
  Proc <- MCProc
  Path <- MCPath
  ProcOf <- MCProcOf
  ProgramsOf <- MCProgramsOf
INIT HInit
NEXT HNext
VIEW View
INVARIANT Exclusion
INVARIANT HeldMeansHeld
INVARIANT NonBlockingNeverWaits
INVARIANT NoRecursiveGrant
INVARIANT Quiescent
INVARIANT Counters
INVARIANT NoLostWakeup

INVARIANT QuietJustified
CHECK_DEADLOCK FALSE
INVARIANT EnMatches
