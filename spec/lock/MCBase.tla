----------------------------- MODULE MCBase -----------------------------
(* Constants and program families for model checking PathLock. *)
EXTENDS PathLock, Json, IOUtils

CONSTANTS NThreads, NProcs, NPaths, Family


MCThread == 1..NThreads
MCProc == 1..NProcs
PathName(i) == IF i = 1 THEN "/lk/a" ELSE "/lk/b"
MCPath == {PathName(i) : i \in 1..NPaths}
\* threads are dealt to processes round-robin from the top: with 3 threads / 2 processes: 1,2 -> p1, 3 -> p2
MCProcOf == [t \in MCThread |-> IF NProcs = 1 THEN 1 ELSE IF t = NThreads THEN 2 ELSE 1]

Acq(p, sh, bl, re) == [k |-> "acq", p |-> p, sh |-> sh, bl |-> bl, re |-> re]
Rel == [k |-> "rel", p |-> "", sh |-> FALSE, bl |-> FALSE, re |-> FALSE]
B == BOOLEAN
AllAcq == {Acq(p, sh, bl, re) : p \in MCPath, sh \in B, bl \in B, re \in B}
BlkAcq == {Acq(p, sh, TRUE, re) : p \in MCPath, sh \in B, re \in B}
One(S) == {<<a, Rel>> : a \in S}
Nested(S, T) == {<<a, b, Rel, Rel>> : a \in S, b \in T}
Seq2(S, T) == {<<a, Rel, b, Rel>> : a \in S, b \in T}
Programs == CASE Family = "one"      -> One(AllAcq)
              [] Family = "two"      -> One(AllAcq) \cup Nested(AllAcq, AllAcq) \cup Seq2(AllAcq, AllAcq)
              [] Family = "blocking2" -> One(BlkAcq) \cup Nested(BlkAcq, BlkAcq) \cup Seq2(BlkAcq, BlkAcq)
              [] Family = "nested"   -> Nested(AllAcq, AllAcq)
              [] Family = "upgrade1" -> Nested({Acq(PathName(1), TRUE, TRUE, r) : r \in B}, AllAcq)
              [] Family = "upgrade"  -> Nested({Acq(PathName(1), TRUE, TRUE, r) : r \in B}, AllAcq) \cup One(AllAcq)
MCProgramsOf == [t \in MCThread |-> Programs]


=============================================================================
