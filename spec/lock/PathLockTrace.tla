--------------------------- MODULE PathLockTrace ---------------------------
(* Trace validation: every execution of the real lock module (under the simulated
   kernel, or on the real OS) must be a behaviour of PathLockAbs.  Batch: many
   traces per run (variable tid).  A trace is accepted iff every event is explained. *)
EXTENDS PathLockAbs, Json, IOUtils

Traces == JsonDeserialize(IOEnv.TRACES)
VARIABLES tid, l
tvars == <<tid, l, hold, pend, fin>>

SeqSet(s) == {s[i] : i \in 1..Len(s)}
Events == Traces[tid].events
Ev == Events[l]
KOf(e) == {<<x[1], x[2], x[3]>> : x \in SeqSet(e.k)}

PO == Traces[tid].procof          \* sequence: thread id -> process id
Active == {t \in Thread : t <= Len(PO)}
TraceInit == tid \in 1..Len(Traces) /\ l = 1 /\ AbsInit({t \in Thread : t <= Len(Traces[tid].procof)})
Is(k) == l <= Len(Events) /\ Ev.e = k /\ l' = l + 1 /\ UNCHANGED tid
\* (K) is evaluated on the state after the event with the kernel table observed after it
K == HeldMeansHeldIn(hold', KOf(Ev), PO)

TReq == Is("Req") /\ Req(Ev.t, [p |-> Ev.p, sh |-> Ev.sh, bl |-> Ev.bl, re |-> Ev.re]) /\ K
TEnter == Is("Enter") /\ Enter(Ev.t) /\ K
TExit == Is("Exit") /\ Exit(Ev.t) /\ K
TRefuse == Is("Refuse") /\ Refuse(Ev.t, Ev.kind) /\ K
TBlocked == Is("Blocked") /\ Blocked(Ev.t, Ev.unw) /\ K
TDone == Is("Done") /\ Done(Ev.t) /\ K
TQuiet == Is("Quiet") /\ Quiet(SeqSet(Ev.blocked))
TTerminal == Is("Terminal") /\ Terminal(SeqSet(Ev.stuck), Ev.residue)
TraceNext == TReq \/ TEnter \/ TExit \/ TRefuse \/ TBlocked \/ TDone \/ TQuiet \/ TTerminal

Accepted == l = Len(Events) + 1
EmitAcc == Accepted => PrintT(<<"ACC", ToJson(tid)>>)
=============================================================================
