----------------------------- MODULE MCPathLock -----------------------------
(* Model-checking harness for PathLock: program families, constants, and a history
   variable (hidden from the fingerprint by VIEW) so that TLC emits one witness
   behaviour per distinct terminal state for replay into the real code.          *)
EXTENDS PathLock, Json, IOUtils

CONSTANTS NThreads, NProcs, NPaths, Family

VARIABLE hist   \* Seq of [t, a, en]: thread, action taken, threads enabled before the step

MCThread == 1..NThreads
MCProc == 1..NProcs
PathName(i) == IF i = 1 THEN "/lk/a" ELSE "/lk/b"
MCPath == {PathName(i) : i \in 1..NPaths}
\* threads are dealt to processes round-robin from the top: with 3 threads / 2 processes: 1,2 -> p1, 3 -> p2
MCProcOf == [t \in MCThread |-> IF NProcs = 1 THEN 1 ELSE IF t = NThreads THEN 2 ELSE 1]

Acq(p, sh, bl, re) == [k |-> "acq", p |-> p, sh |-> sh, bl |-> bl, re |-> re]
Rel == [k |-> "rel", p |-> "", sh |-> FALSE, bl |-> FALSE, re |-> FALSE]
B == BOOLEAN
AllAcq == {Acq(p, sh, bl, re) : p \in MCPath, sh \in B, bl \in B, re \in B}
BlkAcq == {Acq(p, sh, TRUE, re) : p \in MCPath, sh \in B, re \in B}
One(S) == {<<a, Rel>> : a \in S}
Nested(S, T) == {<<a, b, Rel, Rel>> : a \in S, b \in T}
Seq2(S, T) == {<<a, Rel, b, Rel>> : a \in S, b \in T}
Programs == CASE Family = "one"      -> One(AllAcq)
              [] Family = "two"      -> One(AllAcq) \cup Nested(AllAcq, AllAcq) \cup Seq2(AllAcq, AllAcq)
              [] Family = "blocking2" -> One(BlkAcq) \cup Nested(BlkAcq, BlkAcq) \cup Seq2(BlkAcq, BlkAcq)
              [] Family = "nested"   -> Nested(AllAcq, AllAcq)
              [] Family = "upgrade1" -> Nested({Acq(PathName(1), TRUE, TRUE, r) : r \in B}, AllAcq)
              [] Family = "upgrade"  -> Nested({Acq(PathName(1), TRUE, TRUE, r) : r \in B}, AllAcq) \cup One(AllAcq)
MCProgramsOf == [t \in MCThread |-> Programs]

Act(t, A, name) == A /\ hist' = Append(hist, [t |-> t, a |-> name, en |-> {u \in Thread : ENABLED Step(u)}])
HNext == \E t \in Thread :
    \/ Act(t, TPoolIn(t), "TPoolIn") \/ Act(t, TAcqSh(t), "TAcqSh") \/ Act(t, TAcqEx(t), "TAcqEx")
    \/ Act(t, TWake(t), "TWake") \/ Act(t, FdIn(t), "FdIn") \/ Act(t, PlIn(t), "PlIn")
    \/ Act(t, PAcq(t), "PAcq") \/ Act(t, PKern(t), "PKern") \/ Act(t, PKGrant(t), "PKGrant")
    \/ Act(t, Body(t), "Body") \/ Act(t, PRel(t), "PRel") \/ Act(t, PlOut(t), "PlOut")
    \/ Act(t, FdOut(t), "FdOut") \/ Act(t, TRelSh(t), "TRelSh") \/ Act(t, TPoolOut(t), "TPoolOut")
HInit == Init /\ hist = <<>>
\* programs chosen by the driver (random programs for simulation / larger instances)
GivenProgs == JsonDeserialize(IOEnv.PROGS)
HInitGiven == /\ \E i \in 1..Len(GivenProgs) : prog = [t \in Thread |-> GivenProgs[i][t]]
              /\ InitRest /\ hist = <<>>
View == vars

Terminal == AllDone \/ Stuck
Beh == [prog |-> prog, procof |-> [t \in Thread |-> ProcOf[t]], hist |-> hist, outcome |-> outcome,
        stuck |-> {t \in Thread : ~Done(t)},
        pcs |-> pc, klock |-> klock, alldone |-> AllDone]
EmitBeh == Terminal => PrintT(<<"BEH", ToJson(Beh)>>)
=============================================================================
