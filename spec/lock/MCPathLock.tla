----------------------------- MODULE MCPathLock -----------------------------
(* Model-checking harness for PathLock: a history variable (hidden from the
   fingerprint by VIEW) so that TLC emits one witness behaviour per distinct
   terminal state for replay into the real code.                                *)
EXTENDS MCBase

VARIABLE hist   \* Seq of [t, a, en]: thread, action taken, threads enabled before the step

Act(t, A, name) == A /\ hist' = Append(hist, [t |-> t, a |-> name, en |-> {u \in Thread : En(u)}])
HNext == \E t \in Thread :
    \/ Act(t, TPoolIn(t), "TPoolIn") \/ Act(t, TAcqSh(t), "TAcqSh") \/ Act(t, TAcqEx(t), "TAcqEx")
    \/ Act(t, TWake(t), "TWake") \/ Act(t, FdIn(t), "FdIn") \/ Act(t, PlIn(t), "PlIn")
    \/ Act(t, PAcq(t), "PAcq") \/ Act(t, PKern(t), "PKern") \/ Act(t, PKGrant(t), "PKGrant")
    \/ Act(t, OpStart(t), "OpStart") \/ Act(t, PRel(t), "PRel") \/ Act(t, PlOut(t), "PlOut")
    \/ Act(t, FdOut(t), "FdOut") \/ Act(t, FdClose(t), "FdClose") \/ Act(t, TRelSh(t), "TRelSh") \/ Act(t, TPoolOut(t), "TPoolOut")
HInit == Init /\ hist = <<>>
\* programs chosen by the driver (random programs for simulation / larger instances)
GivenProgs == JsonDeserialize(IOEnv.PROGS)
HInitGiven == /\ \E i \in 1..Len(GivenProgs) : prog = [t \in Thread |-> GivenProgs[i][t]]
              /\ InitRest /\ hist = <<>>
View == vars

Terminal == AllDone \/ Stuck
Beh == [prog |-> prog, procof |-> [t \in Thread |-> ProcOf[t]], hist |-> hist, outcome |-> outcome,
        stuck |-> {t \in Thread : ~Done(t)},
        pcs |-> pc, klock |-> klock, alldone |-> AllDone]
EmitBeh == Terminal => PrintT(<<"BEH", ToJson(Beh)>>)
=============================================================================
