CONSTANTS
  MaxLen = 4
  MaxCols = 3
  Profile = 1
  EmitMod = 1
  EmitSel = 0
INIT Init
NEXT Next
INVARIANT TypeOK
INVARIANT ScannerTotal
INVARIANT NoEmptyRow
INVARIANT FitWidth
INVARIANT ItemsClean
INVARIANT ImplSplitAgrees
INVARIANT EmitCase
CHECK_DEADLOCK FALSE
