------------------------------ MODULE EventWalk ------------------------------
(* C14 - dataset derivations agree with record-by-record event semantics.

   A dataset is a sequence of NM-TRAN event records.  The REFERENCE is a walker:
   it visits the records of each individual in file (= chronological) order and
   keeps  <<current individual, reset group, dose counter, time of the last dose,
   time of the dose before, last administration id>>.  One action per record.

   Phases of one behaviour (a real transition system):
     gen    : one action per appended record (AddObs, AddMissing, AddDose, AddOther, AddReset,
              AddResetDose), Close ends the dataset
     expand : ExpandOne - the additional doses (ADDL/II) of ONE dose record are
              inserted at time + j*II, in chronological position inside the
              individual's reset group
     walk   : Walk / WalkTie - one record of the ORIGINAL dataset:  mdv, evid,
              doseid, admid, cmt, observation/dose flags
     xwalk  : XWalk / XWalkTie - one record of the EXPANDED dataset: time after dose
     done   : the case (dataset + expected derived columns) is emitted

   Documented tie rule (get_doseid docstring): "If a dose and observation exist at
   the same time point the observation will be counted towards the previous dose."
   The walker applies it to an observation that FOLLOWS exactly one dose record at
   its own time point (same individual, same reset group).  Left open on purpose
   (the documentation is silent; DESIGN appendix A):
     * tie with the very first dose of an individual  -> nondeterministic (WalkTie)
     * tie with a steady-state dose                    -> nondeterministic (WalkTie)
     * several dose records at one time point          -> `free` (not compared)
     * non-observation event (EVID 2) tied with a dose -> `free`
     * preceding dose lies before a reset (EVID 3/4)   -> `free`
     * time after dose before any dose / after a reset without dose -> `free`
   A `free` entry only has to satisfy what the property itself states (TAD >= 0).

   Design layer: ImplDoseId / ImplTad transcribe the vectorised algorithm of
   pharmpy.modeling.data (cumsum + tie adjustment loop; sort by dose id + diff/cumsum);
   TLC proves them equal to the walker on every dataset of the bound, outside the
   divergence class TimeRecurs (a defect of the algorithm that TLC predicted and
   the driver then reproduced on the real code: finding C14-F9).                 *)
EXTENDS Integers, Sequences, FiniteSets, TLC, Json

CONSTANTS MaxLen,     \* maximal number of records
          MaxDelta,   \* time step between consecutive records of an individual: 0..MaxDelta
          Profile,    \* 1 = quick alphabet, 2 = thorough alphabet, 3 = steady-state focus
          AllowBack,  \* 1: an individual's id may re-appear later (non-contiguous ids)
          EmitMod, EmitSel   \* a finished dataset is emitted iff Hash(data) % EmitMod = EmitSel

VARIABLES phase, cols, idmode, data, xdata, ei, k, w, out, xout
vars == <<phase, cols, idmode, data, xdata, ei, k, w, out, xout>>

\* ---------------------------------------------------------------- alphabets
ColConfigs ==
    {{"EVID", "MDV", "ADDL", "SS", "CMT", "RATE"},   \* everything
     {"EVID", "ADDL", "CMT"},
     {"EVID", "MDV", "SS", "CMT"},                    \* no ADDL/II
     {"MDV", "ADDL"},                                 \* no EVID: only observations and doses
     {}}                                              \* ID TIME AMT DV only
\* <<addl, ii, ss, cmt>>
\* Profile 3 = steady-state focus (run exhaustively at MaxLen 3 next to the main run): only observations and doses, with and
\* without SS = 1 / SS = 2, in the column configurations that have an SS column; every dose / SS dose / observation tie is enumerated
FocusForms == {<<0, 0, 0, 1>>, <<0, 1, 1, 1>>, <<0, 1, 2, 1>>, <<0, 0, 1, 1>>, <<0, 0, 2, 1>>, <<1, 1, 2, 1>>}
DoseForms == IF Profile = 3 THEN FocusForms ELSE
    {<<0, 0, 0, 1>>, <<1, 1, 0, 1>>, <<2, 1, 0, 1>>, <<1, 2, 0, 2>>, <<0, 0, 0, 2>>, <<0, 1, 1, 1>>,
     <<0, 1, 2, 1>>}      \* SS = 2: steady-state dose superposed on the previous doses (still a steady-state dose: SS > 0)
    \cup (IF Profile >= 2 THEN {<<2, 2, 0, 1>>, <<1, 1, 1, 1>>, <<0, 2, 1, 2>>} ELSE {})
IdModes == IF Profile = 3 THEN {"asc"} ELSE {"asc", "desc"}
DoseCmt == 1       \* number of the default dosing compartment of the model the dataset is attached to
DefaultAdm == 1    \* ... and its administration id
ObsCmt == 2        \* CMT value on observation records when a CMT column exists

FormOK(f) == /\ (f[1] > 0 \/ f[2] > 0) => "ADDL" \in cols
             /\ f[3] > 0 => "SS" \in cols
             /\ f[4] # 1 => "CMT" \in cols

\* ---------------------------------------------------------------- generator
Last == data[Len(data)]
NBlk == IF data = <<>> THEN 0 ELSE Last.blk
NLab == Cardinality({data[i].id : i \in 1..Len(data)})
IdLabel(j) == IF idmode = "asc" THEN j ELSE 9 - j
IdChoices == IF data = <<>> THEN {"new"}
             ELSE {"same", "new"} \cup
                  (IF AllowBack = 1 /\ NLab >= 2 /\ Last.id # IdLabel(1) THEN {"back"} ELSE {})
NewId(c) == CASE c = "same" -> Last.id [] c = "new" -> IdLabel(NLab + 1) [] c = "back" -> IdLabel(1)
NewBlk(c) == IF c = "same" THEN Last.blk ELSE NBlk + 1
BaseTime(c) == IF c = "same" THEN Last.time ELSE 0
DosesSoFar(b) == Cardinality({i \in 1..Len(data) : data[i].blk = b /\ data[i].amt > 0})

Rec(c, t, amt, evid, f, dv) ==
    [id |-> NewId(c), blk |-> NewBlk(c), time |-> t, amt |-> amt, amtden |-> 1, evid |-> evid,
     mdv |-> IF evid = 0 THEN 0 ELSE 1,
     addl |-> f[1], ii |-> f[2], ss |-> f[3],
     cmt |-> IF "CMT" \in cols THEN (IF amt > 0 THEN f[4] ELSE IF evid = 0 THEN ObsCmt ELSE 0)
             ELSE (IF amt > 0 THEN DoseCmt ELSE 0),
     rate |-> IF amt > 0 /\ f[4] = 2 THEN 2 ELSE 0,
     dv |-> dv, wgt |-> 50 + NewId(c), apgr |-> IF c = "same" THEN DosesSoFar(Last.blk) ELSE 0]
NoForm == <<0, 0, 0, 1>>
Gen == phase = "gen" /\ Len(data) < MaxLen
AddRec(r) == /\ data' = data \o <<r>>
             /\ UNCHANGED <<phase, cols, idmode, xdata, ei, k, w, out, xout>>
Amt == 10 + Len(data)       \* distinct amounts identify the dose records
\* the amount of a record is the exact rational  amt / amtden  (amtden = 1 or 4).  Fractional amounts 1/4, 2/4, 3/4:
\* a dose is a record with a POSITIVE amount, also when the amount is below one (doses recorded in g or mmol)
FracAmt == 1 + (Len(data) % 3)
FracForms == {<<0, 0, 0, 1>>, <<1, 1, 0, 1>>} \cup (IF Profile >= 2 THEN {<<2, 1, 0, 1>>, <<0, 0, 0, 2>>} ELSE {})

AddObs(c, dt) == Gen /\ AddRec(Rec(c, BaseTime(c) + dt, 0, 0, NoForm, 100 + Len(data)))
AddDose(c, dt, f) == Gen /\ FormOK(f) /\ AddRec(Rec(c, BaseTime(c) + dt, Amt, 1, f, 0))
AddSmallDose(c, dt, f) == Gen /\ FormOK(f) /\ AddRec([Rec(c, BaseTime(c) + dt, FracAmt, 1, f, 0) EXCEPT !.amtden = 4])
AddOther(c, dt) == Gen /\ "EVID" \in cols /\ AddRec(Rec(c, BaseTime(c) + dt, 0, 2, NoForm, 0))
\* the legal NM-TRAN record of a MISSING observation: EVID = 0 with MDV = 1 (DV present but ignored, or absent = 0).
\* It needs both columns to be told from an observation; it is NOT an observation (mdv 1, evid 0, no dose).
AddMissing(c, dt, withdv) ==
    /\ Gen /\ "EVID" \in cols /\ "MDV" \in cols
    /\ AddRec([Rec(c, BaseTime(c) + dt, 0, 0, NoForm, IF withdv THEN 100 + Len(data) ELSE 0) EXCEPT !.mdv = 1])
\* after a reset the clock may restart: time is BaseTime + dt or 0
AddReset(c, t) == Gen /\ "EVID" \in cols /\ c # "back" /\ AddRec(Rec(c, t, 0, 3, NoForm, 0))
AddResetDose(c, t, f) == Gen /\ "EVID" \in cols /\ c # "back" /\ FormOK(f) /\ AddRec(Rec(c, t, Amt, 4, f, 0))
ResetTimes(c) == {0} \cup {BaseTime(c) + dt : dt \in 0..MaxDelta}
ResetForms == {<<0, 0, 0, 1>>, <<1, 1, 0, 1>>, <<0, 0, 0, 2>>}

DoObs == \E c \in IdChoices, dt \in 0..MaxDelta : AddObs(c, dt)
DoDose == \E c \in IdChoices, dt \in 0..MaxDelta, f \in DoseForms : AddDose(c, dt, f)
DoSmallDose == Profile # 3 /\ \E c \in IdChoices, dt \in 0..MaxDelta, f \in FracForms : AddSmallDose(c, dt, f)
DoOther == Profile # 3 /\ \E c \in IdChoices, dt \in 0..MaxDelta : AddOther(c, dt)
DoMissing == Profile # 3 /\ \E c \in IdChoices, dt \in 0..MaxDelta, withdv \in BOOLEAN : AddMissing(c, dt, withdv)
DoReset == Profile # 3 /\ \E c \in IdChoices : \E t \in ResetTimes(c) : AddReset(c, t)
DoResetDose == Profile # 3 /\ \E c \in IdChoices : \E t \in ResetTimes(c), f \in ResetForms : AddResetDose(c, t, f)

\* ---------------------------------------------------------------- helpers on a record sequence
\* reset group of record i: number of reset events (EVID 3/4) of its individual up to and including i
RG(S, i) == Cardinality({j \in 1..i : S[j].blk = S[i].blk /\ S[j].evid >= 3})
SameSlot(S, i, j) == S[j].blk = S[i].blk /\ S[j].time = S[i].time /\ RG(S, j) = RG(S, i)
DosesInSlot(S, i) == {j \in 1..Len(S) : SameSlot(S, i, j) /\ S[j].amt > 0}
DosesBefore(S, i) == {j \in DosesInSlot(S, i) : j < i}
RECURSIVE SumAmt(_)
Q(r) == r.amt * (4 \div r.amtden)      \* the amount in quarters
SumAmt(S) == IF S = <<>> THEN 0 ELSE Q(Head(S)) + SumAmt(Tail(S))
RECURSIVE SumAll(_)
SumAll(S) == IF S = <<>> THEN 0 ELSE Q(Head(S)) * (Head(S).addl + 1) + SumAll(Tail(S))

\* ---------------------------------------------------------------- ADDL expansion (own action)
Tag(S) == [i \in 1..Len(S) |-> [r |-> S[i], src |-> i, j |-> 0, g |-> RG(S, i)]]
Close == /\ phase = "gen" /\ Len(data) >= 1
         /\ idmode = "desc" => NLab >= 2      \* descending labels only matter with two individuals
         /\ phase' = "expand" /\ xdata' = Tag(data) /\ ei' = 1
         /\ UNCHANGED <<cols, idmode, data, k, w, out, xout>>
\* position of a copy: inside its individual's reset group, ordered by (time, source record, copy number)
Before(a, b) == \/ a.r.time < b.r.time
                \/ a.r.time = b.r.time /\ a.src < b.src
                \/ a.r.time = b.r.time /\ a.src = b.src /\ a.j < b.j
InGroup(a, b) == a.r.blk = b.r.blk /\ a.g = b.g
InsertSorted(S, e) ==
    LET grp == {i \in 1..Len(S) : InGroup(S[i], e)}
        later == {i \in grp : Before(e, S[i])}
        pos == IF later # {} THEN CHOOSE i \in later : \A m \in later : i <= m
               ELSE (CHOOSE i \in grp : \A m \in grp : i >= m) + 1
    IN SubSeq(S, 1, pos - 1) \o <<e>> \o SubSeq(S, pos, Len(S))
RECURSIVE InsertCopies(_, _, _, _)
InsertCopies(S, i, j, n) ==
    IF j > n THEN S
    ELSE LET src == data[i]
             e == [r |-> [src EXCEPT !.time = src.time + j * src.ii], src |-> i, j |-> j, g |-> RG(data, i)]
         IN InsertCopies(InsertSorted(S, e), i, j + 1, n)
ExpandOne == /\ phase = "expand" /\ ei <= Len(data) /\ "ADDL" \in cols /\ data[ei].addl > 0
             /\ xdata' = InsertCopies(xdata, ei, 1, data[ei].addl)
             /\ ei' = ei + 1
             /\ UNCHANGED <<phase, cols, idmode, data, k, w, out, xout>>
SkipExpand == /\ phase = "expand" /\ ei <= Len(data) /\ ~("ADDL" \in cols /\ data[ei].addl > 0)
              /\ ei' = ei + 1
              /\ UNCHANGED <<phase, cols, idmode, data, xdata, k, w, out, xout>>
Fresh(b) == [blk |-> b, rg |-> 0, dc |-> 0, ld |-> -1, pd |-> -1, la |-> 0, lss |-> 0]
StartWalk == /\ phase = "expand" /\ ei > Len(data)
             /\ phase' = "walk" /\ k' = 1 /\ w' = Fresh(0)
             /\ UNCHANGED <<cols, idmode, data, xdata, ei, out, xout>>

\* ---------------------------------------------------------------- the walker
XS == [i \in 1..Len(xdata) |-> xdata[i].r]
Enter(S, i, ws) ==
    LET r == S[i]
        w0 == IF r.blk # ws.blk THEN Fresh(r.blk) ELSE ws
    IN IF r.evid >= 3 THEN [w0 EXCEPT !.rg = @ + 1, !.ld = -1, !.pd = -1] ELSE w0
\* how record i relates to dose records at its own time point
\* the time value of record i re-occurs in another reset group of its individual (class of finding C14-F9: not judged here)
SlotRecurs(S, i) == \E j \in 1..Len(S) : S[j].blk = S[i].blk /\ S[j].time = S[i].time /\ RG(S, j) # RG(S, i)
\* "sskeep": an observation after a steady-state dose (any SS > 0) that is not the individual's first dose keeps the dose
\* period of that dose (get_doseid: "Except for steady state dose where the dose group is kept"); its TAD stays open
TieClass(S, i, w0) ==
    LET r == S[i] IN
    IF r.amt > 0 THEN "dose"
    ELSE IF DosesBefore(S, i) = {} THEN "plain"
    ELSE IF Cardinality(DosesInSlot(S, i)) >= 2 THEN "free"       \* several doses at one time point
    ELSE IF r.mdv # 0 THEN "free"                                  \* not an observation (EVID 2, or EVID 0 with MDV 1)
    ELSE IF "SS" \in cols /\ w0.lss > 0                             \* steady-state dose (SS = 1 or SS = 2)
         THEN (IF w0.dc = 1 \/ SlotRecurs(S, i) THEN "choice" ELSE "sskeep")
    ELSE IF w0.dc = 1 THEN "choice"                                \* first dose of the individual
    ELSE IF w0.pd = -1 THEN "free"                                 \* preceding dose is beyond a reset
    ELSE "prev"
Evid(r) == IF "EVID" \in cols THEN r.evid ELSE r.mdv
\* one step: record i of S under walker state ws; ch resolves a nondeterministic tie
Step(S, i, ws, ch) ==
    LET r == S[i]
        w0 == Enter(S, i, ws)
        tc == TieClass(S, i, w0)
        adm == IF "CMT" \in cols THEN r.cmt ELSE DefaultAdm
        base == [mdv |-> r.mdv, evid |-> Evid(r),
                 cmt |-> IF "CMT" \in cols THEN r.cmt ELSE IF Evid(r) \in {1, 4} THEN DoseCmt ELSE 0,
                 isobs |-> r.mdv = 0, isdose |-> r.amt > 0, nd |-> tc = "choice", tc |-> tc]
        adm0 == [admid |-> w0.la, afree |-> w0.la = 0]
        \* the two admitted readings of a nondeterministic tie
        prev == [doseid |-> w0.dc - 1, dfree |-> FALSE, tad |-> IF w0.pd = -1 THEN 0 ELSE r.time - w0.pd, tfree |-> w0.pd = -1]
        cur == [doseid |-> w0.dc, dfree |-> FALSE, tad |-> 0, tfree |-> FALSE]
        Alt(x) == [adoseid |-> x.doseid, atad |-> x.tad, atfree |-> x.tfree]
    IN CASE tc = "dose" ->
              LET d == [doseid |-> w0.dc + 1, dfree |-> FALSE, tad |-> 0, tfree |-> FALSE] IN
              [w |-> [w0 EXCEPT !.dc = @ + 1, !.pd = w0.ld, !.ld = r.time, !.la = adm, !.lss = r.ss],
               o |-> base @@ d @@ Alt(d) @@ [admid |-> adm, afree |-> FALSE]]
         [] tc = "plain" ->
              LET d == [doseid |-> w0.dc, dfree |-> FALSE,
                        tad |-> IF w0.ld = -1 THEN 0 ELSE r.time - w0.ld, tfree |-> w0.ld = -1] IN
              [w |-> w0, o |-> base @@ adm0 @@ d @@ Alt(d)]
         [] tc = "free" ->
              LET d == [doseid |-> w0.dc, dfree |-> TRUE, tad |-> 0, tfree |-> TRUE] IN
              [w |-> w0, o |-> base @@ adm0 @@ d @@ Alt(d)]
         [] tc = "prev" -> [w |-> w0, o |-> base @@ adm0 @@ prev @@ Alt(prev)]
         [] tc = "sskeep" -> [w |-> w0, o |-> base @@ adm0 @@ cur @@ Alt([cur EXCEPT !.tad = prev.tad, !.tfree = prev.tfree])]
         [] tc = "choice" /\ ch = "prev" -> [w |-> w0, o |-> base @@ adm0 @@ prev @@ Alt(cur)]
         [] tc = "choice" /\ ch = "cur" -> [w |-> w0, o |-> base @@ adm0 @@ cur @@ Alt(prev)]
IsChoice(S, i, ws) == TieClass(S, i, Enter(S, i, ws)) = "choice"

Walking == phase = "walk" /\ k <= Len(data)
WalkDo(ch) == LET s == Step(data, k, w, ch) IN
              /\ w' = s.w /\ out' = Append(out, s.o) /\ k' = k + 1
              /\ UNCHANGED <<phase, cols, idmode, data, xdata, ei, xout>>
Walk == Walking /\ ~IsChoice(data, k, w) /\ WalkDo("prev")
WalkTie == Walking /\ IsChoice(data, k, w) /\ \E ch \in {"prev", "cur"} : WalkDo(ch)
StartXWalk == /\ phase = "walk" /\ k > Len(data)
              /\ phase' = "xwalk" /\ k' = 1 /\ w' = Fresh(0)
              /\ UNCHANGED <<cols, idmode, data, xdata, ei, out, xout>>
XWalking == phase = "xwalk" /\ k <= Len(xdata)
XWalkDo(ch) == LET s == Step(XS, k, w, ch) IN
               /\ w' = s.w /\ xout' = Append(xout, s.o) /\ k' = k + 1
               /\ UNCHANGED <<phase, cols, idmode, data, xdata, ei, out>>
XWalk == XWalking /\ ~IsChoice(XS, k, w) /\ XWalkDo("prev")
XWalkTie == XWalking /\ IsChoice(XS, k, w) /\ \E ch \in {"prev", "cur"} : XWalkDo(ch)
Finish == /\ phase = "xwalk" /\ k > Len(xdata)
          /\ phase' = "done"
          /\ UNCHANGED <<cols, idmode, data, xdata, ei, k, w, out, xout>>

Init == /\ phase = "gen" /\ cols \in (IF Profile = 3 THEN {c \in ColConfigs : "SS" \in c} ELSE ColConfigs) /\ idmode \in IdModes
        /\ data = <<>> /\ xdata = <<>> /\ ei = 0 /\ k = 0 /\ w = Fresh(0) /\ out = <<>> /\ xout = <<>>
Next == DoObs \/ DoMissing \/ DoDose \/ DoSmallDose \/ DoOther \/ DoReset \/ DoResetDose \/ Close
        \/ ExpandOne \/ SkipExpand \/ StartWalk \/ Walk \/ WalkTie \/ StartXWalk
        \/ XWalk \/ XWalkTie \/ Finish
Spec == Init /\ [][Next]_vars

\* ---------------------------------------------------------------- derived columns of the finished case
Done == phase = "done"
\* position in the expanded dataset of original record i
XPos(i) == CHOOSE p \in 1..Len(xdata) : xdata[p].src = i /\ xdata[p].j = 0
TadCol == [i \in 1..Len(data) |-> xout[XPos(i)].tad]
TadFree == [i \in 1..Len(data) |-> xout[XPos(i)].tfree]
TadNd == [i \in 1..Len(data) |-> xout[XPos(i)].nd]
TadAlt == [i \in 1..Len(data) |-> xout[XPos(i)].atad]
TadAltFree == [i \in 1..Len(data) |-> xout[XPos(i)].atfree]
Ids == {data[i].id : i \in 1..Len(data)}
Contiguous == \A i, j \in 1..Len(data) : data[i].id = data[j].id => data[i].blk = data[j].blk

\* ---------------------------------------------------------------- invariants on the reference itself
TadNonNegative == Done => \A i \in 1..Len(xout) : ~xout[i].tfree => xout[i].tad >= 0
TadZeroOnDose == Done => \A i \in 1..Len(xout) : XS[i].amt > 0 => (xout[i].tad = 0 /\ ~xout[i].tfree)
Expanded == phase = "walk" /\ k = 1      \* checked once, right after the expansion
ExpansionKeepsOriginals ==
    Expanded => SelectSeq(xdata, LAMBDA e : e.j = 0) = Tag(data)
ExpansionKeepsAmount ==
    Expanded => SumAmt(XS) = (IF "ADDL" \in cols THEN SumAll(data) ELSE SumAmt(data))
ExpansionChronological ==   \* inside an individual's reset group the expanded records are in time order
    Expanded => \A i, j \in 1..Len(xdata) : (i < j /\ InGroup(xdata[i], xdata[j])) => xdata[i].r.time <= xdata[j].r.time
RowCountUnchanged == Done => Len(out) = Len(data) /\ Len(xout) = Len(xdata) /\ DOMAIN TadCol = 1..Len(data)
DoseIdSane == Done => \A i \in 1..Len(out) : out[i].doseid >= 0 /\ (out[i].isdose => out[i].doseid >= 1)
TypeOK == /\ phase \in {"gen", "expand", "walk", "xwalk", "done"}
          /\ Len(data) <= MaxLen
          /\ \A i \in 1..Len(data) : data[i].time >= 0 /\ (data[i].addl > 0 => data[i].ii > 0)

\* ---------------------------------------------------------------- design layer: pharmpy's algorithms transcribed
\* get_doseid: cumulative count of AMT>0 per id, then the tie adjustment loop.
HasEvid == "EVID" \in cols
IRG(S, i) == IF HasEvid THEN Cardinality({j \in 1..i : S[j].id = S[i].id /\ S[j].evid >= 3}) ELSE 1
Cum(S, i) == Cardinality({j \in 1..i : S[j].id = S[i].id /\ S[j].amt > 0})
\* reset groups g in which (id, time, g) occurs more than once
NonUnique(S, i) == {g \in 0..Len(S) : Cardinality({j \in 1..Len(S) : S[j].id = S[i].id /\ S[j].time = S[i].time /\ IRG(S, j) = g}) > 1}
GroupInd(S, i) == {j \in 1..Len(S) : S[j].id = S[i].id /\ S[j].time = S[i].time}    \* ignores the reset group
DoseInd(S, i) == {j \in GroupInd(S, i) : S[j].amt # 0}
MaxOf(T) == CHOOSE m \in T : \A n \in T : m >= n
Adjusted(S, i) == /\ S[i].amt = 0 /\ DoseInd(S, i) # {}
                  /\ 1 \notin GroupInd(S, i)                       \* "if 0 in groupind: continue"
                  /\ MaxOf(DoseInd(S, i)) < i
                  /\ ~("SS" \in cols /\ S[MaxOf(DoseInd(S, i))].ss > 0)
ImplDoseId(S, i) == Cum(S, i) - (IF Adjusted(S, i) THEN Cardinality(NonUnique(S, i)) ELSE 0)
\* add_time_after_dose: stable sort by dose id inside the id, TAD = time - first time of the (id, doseid) group
ImplTad(S, i) == LET d == ImplDoseId(S, i)
                     f == CHOOSE m \in 1..Len(S) : /\ S[m].id = S[i].id /\ ImplDoseId(S, m) = d
                                                    /\ \A n \in 1..Len(S) : (S[n].id = S[i].id /\ ImplDoseId(S, n) = d) => m <= n
                 IN S[i].time - S[f].time
\* divergence classes of the transcribed algorithm (each is a defect of the algorithm, see notes/C14.md):
\*   the adjustment selects rows by id and time only, so a time point that re-occurs after a reset
\*   (EVID 3/4, clock restarted) mixes rows of different reset groups
TimeRecurs(S, i) == \E j \in 1..Len(S) : S[j].id = S[i].id /\ S[j].time = S[i].time /\ IRG(S, j) # IRG(S, i)
ImplDoseIdAgrees ==
    (Done /\ Contiguous) =>
        \A i \in 1..Len(data) : out[i].dfree \/ out[i].nd \/ TimeRecurs(data, i) \/ ImplDoseId(data, i) = out[i].doseid
ImplTadAgrees ==
    (Done /\ Contiguous) =>
        \A i \in 1..Len(xout) : xout[i].tfree \/ xout[i].nd \/ TimeRecurs(XS, i) \/ ImplTad(XS, i) = xout[i].tad

\* ---------------------------------------------------------------- case emission (spec -> code)
RECURSIVE Hash(_, _)
Hash(S, h) == IF S = <<>> THEN h
              ELSE LET r == Head(S) IN
                   Hash(Tail(S), (h * 37 + r.id + 3 * r.time + 7 * r.evid + 11 * r.addl + 13 * r.ii
                                  + 17 * r.ss + 19 * r.cmt + 23 * r.amt + 5 * r.amtden + 29 * r.mdv + (r.dv % 2)) % 1000003)
Selected == Hash(data, Cardinality(cols) + (IF idmode = "asc" THEN 0 ELSE 5)) % EmitMod = EmitSel
SetToSeq(T) == LET RECURSIVE L(_)
                   L(U) == IF U = {} THEN <<>> ELSE LET x == CHOOSE y \in U : \A z \in U : y <= z IN <<x>> \o L(U \ {x})
               IN L(T)
FirstIdx(id) == CHOOSE i \in 1..Len(data) : data[i].id = id /\ \A j \in 1..Len(data) : data[j].id = id => i <= j
NObs(id) == Cardinality({i \in 1..Len(data) : data[i].id = id /\ out[i].isobs})
Varies(id, f(_)) == \E i, j \in 1..Len(data) : data[i].id = id /\ data[j].id = id /\ f(data[i]) # f(data[j])
Case ==
    [cols |-> cols, idmode |-> idmode, contiguous |-> Contiguous,
     data |-> data, out |-> out,
     tad |-> TadCol, tfree |-> TadFree, tnd |-> TadNd, atad |-> TadAlt, atfree |-> TadAltFree,
     xdata |-> [i \in 1..Len(xdata) |-> [id |-> xdata[i].r.id, time |-> xdata[i].r.time, amt |-> xdata[i].r.amt, amtden |-> xdata[i].r.amtden,
                                         src |-> xdata[i].src, x |-> xdata[i].j > 0, g |-> xdata[i].g]],
     total4 |-> SumAmt(XS),        \* total administered amount, in quarters
     obs |-> SelectSeq([i \in 1..Len(data) |-> [id |-> data[i].id, time |-> data[i].time, dv |-> data[i].dv, o |-> out[i].isobs]], LAMBDA e : e.o),
     doses |-> SelectSeq([i \in 1..Len(data) |-> [id |-> data[i].id, time |-> data[i].time, amt |-> data[i].amt, amtden |-> data[i].amtden]], LAMBDA e : e.amt > 0),
     nobs |-> [i \in 1..Cardinality(Ids) |-> <<SetToSeq(Ids)[i], NObs(SetToSeq(Ids)[i])>>],
     base |-> [i \in 1..Cardinality(Ids) |-> <<SetToSeq(Ids)[i], FirstIdx(SetToSeq(Ids)[i])>>],
     tv |-> {c \in {"WGT", "APGR"} : \E id \in Ids : IF c = "WGT" THEN Varies(id, LAMBDA r : r.wgt) ELSE Varies(id, LAMBDA r : r.apgr)},
     recurs |-> \E i \in 1..Len(data) : TimeRecurs(data, i),
     xrecurs |-> \E i \in 1..Len(XS) : TimeRecurs(XS, i)]
EmitCase == (Done /\ Selected) => PrintT(<<"CASE", ToJson(Case)>>)
=============================================================================
