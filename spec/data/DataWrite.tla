------------------------------ MODULE DataWrite ------------------------------
(* C13, last clause: "A dataset written by pharmpy for a model and read back through the
   generated code is equal to the model's dataset."

   State: a numeric frame under construction (rows of cells), one action per cell
   (AddCell) / per completed row (EndRow).  Cells are doubles, named by an exact rational
   n/d * 10^e (the nearest double is meant), by a name, or the missing value (NaN); equality
   is exact equality of doubles - that is what the property states.  The law is the identity:  ReadBack(Written(frame)) = frame,
   cell by cell, NaN at the same places, same column names and order, same number of rows.
   TLC enumerates every frame of the bound and emits it; the driver adds the ID and TIME
   columns a NONMEM dataset needs (rendering), writes the model (write_model / write_csv)
   and reads the generated control stream + data file back.                       *)
EXTENDS Integers, Sequences, FiniteSets, TLC, Json

CONSTANTS MaxRows, MaxCols, Profile, EmitMod, EmitSel
VARIABLES phase, ncols, rows, cur
vars == <<phase, ncols, rows, cur>>

\* a cell is  n/d * 10^e  rounded to the nearest double (k = "num"), a named double that has no small exact
\* description (k = "named": the driver holds the table of names), or the missing value (k = "nan").
\* TLC integers are 32-bit, hence rationals and names instead of binary fractions.
Rat(n, d, e) == [k |-> "num", n |-> n, d |-> d, e |-> e, name |-> ""]
Num(m, e) == Rat(m, 1, e)
Named(x) == [k |-> "named", n |-> 0, d |-> 1, e |-> 0, name |-> x]
NaN == [k |-> "nan", n |-> 0, d |-> 1, e |-> 0, name |-> ""]
\* short decimals, values that need all 17 significant digits of a double, values that collide with tokens
\* of the file format (-99 is the missing-data token, 0 the NULL value)
Vals == {Num(0, 0), Num(1, 0), Num(-1, 0), Num(5, -1), NaN,
         Rat(1, 3, 0), Named("0.1+0.2"), Rat(2, 3, -5), Rat(1, 3, 22), Num(-99, 0)}
        \cup (IF Profile >= 2 THEN {Num(-225, -2), Num(1, 10), Num(123456789, -4), Num(1, -7), Num(-3, 3), Rat(-2, 7, 0), Rat(22, 7, -100),
                                    Named("nextafter(1)"), Named("2**53+2"), Named("min subnormal"), Named("-max double"),
                                    Named("-0.0"), Named("pi*1e-5"), Num(99, 0), Num(-990, -1)}
              ELSE {})

AddCell(v) == /\ phase = "build" /\ Len(cur) < ncols /\ Len(rows) < MaxRows
              /\ cur' = Append(cur, v) /\ UNCHANGED <<phase, ncols, rows>>
DoAddCell == \E v \in Vals : AddCell(v)
EndRow == /\ phase = "build" /\ Len(cur) = ncols
          /\ rows' = Append(rows, cur) /\ cur' = <<>> /\ UNCHANGED <<phase, ncols>>
Close == /\ phase = "build" /\ cur = <<>> /\ Len(rows) >= 1
         /\ phase' = "done" /\ UNCHANGED <<ncols, rows, cur>>
Init == phase = "build" /\ ncols \in 1..MaxCols /\ rows = <<>> /\ cur = <<>>
Next == DoAddCell \/ EndRow \/ Close
Spec == Init /\ [][Next]_vars

\* what has to come back
Written == rows
ReadBack(f) == f
Done == phase = "done"
Rectangular == \A i \in 1..Len(rows) : Len(rows[i]) = ncols
RoundTrip == Done => ReadBack(Written) = rows /\ Len(ReadBack(Written)) = Len(rows)
TypeOK == Len(rows) <= MaxRows /\ Len(cur) <= ncols

RECURSIVE HashR(_, _)
HashR(s, h) == IF s = <<>> THEN h ELSE HashR(Tail(s), (h * 31 + (Head(s).n % 97) + 5 * Head(s).d + 7 * Head(s).e + (IF Head(s).k = "nan" THEN 50 ELSE 0) + 3 * Len(Head(s).name) + 200) % 1000003)
RECURSIVE HashF(_, _)
HashF(t, h) == IF t = <<>> THEN h ELSE HashF(Tail(t), HashR(Head(t), h))
Selected == HashF(rows, ncols) % EmitMod = EmitSel
EmitCase == (Done /\ Selected) => PrintT(<<"CASE", ToJson([ncols |-> ncols, rows |-> ReadBack(Written)])>>)
=============================================================================
