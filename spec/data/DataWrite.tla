------------------------------ MODULE DataWrite ------------------------------
(* C13, last clause: "A dataset written by pharmpy for a model and read back through the
   generated code is equal to the model's dataset."

   State: a numeric frame under construction (rows of cells), one action per cell
   (AddCell) / per completed row (EndRow).  Cells are exact decimals m * 10^e or the
   missing value (NaN).  The law is the identity:  ReadBack(Written(frame)) = frame,
   cell by cell, NaN at the same places, same column names and order, same number of rows.
   TLC enumerates every frame of the bound and emits it; the driver adds the ID and TIME
   columns a NONMEM dataset needs (rendering), writes the model (write_model / write_csv)
   and reads the generated control stream + data file back.                       *)
EXTENDS Integers, Sequences, FiniteSets, TLC, Json

CONSTANTS MaxRows, MaxCols, Profile, EmitMod, EmitSel
VARIABLES phase, ncols, rows, cur
vars == <<phase, ncols, rows, cur>>

Num(m, e) == [k |-> "num", m |-> m, e |-> e]
NaN == [k |-> "nan", m |-> 0, e |-> 0]
Vals == {Num(0, 0), Num(1, 0), Num(-1, 0), Num(5, -1), Num(-225, -2), NaN}
        \cup (IF Profile >= 2 THEN {Num(1, 10), Num(123456789, -4), Num(1, -7), Num(-3, 3)} ELSE {})

AddCell(v) == /\ phase = "build" /\ Len(cur) < ncols /\ Len(rows) < MaxRows
              /\ cur' = Append(cur, v) /\ UNCHANGED <<phase, ncols, rows>>
DoAddCell == \E v \in Vals : AddCell(v)
EndRow == /\ phase = "build" /\ Len(cur) = ncols
          /\ rows' = Append(rows, cur) /\ cur' = <<>> /\ UNCHANGED <<phase, ncols>>
Close == /\ phase = "build" /\ cur = <<>> /\ Len(rows) >= 1
         /\ phase' = "done" /\ UNCHANGED <<ncols, rows, cur>>
Init == phase = "build" /\ ncols \in 1..MaxCols /\ rows = <<>> /\ cur = <<>>
Next == DoAddCell \/ EndRow \/ Close
Spec == Init /\ [][Next]_vars

\* what has to come back
Written == rows
ReadBack(f) == f
Done == phase = "done"
Rectangular == \A i \in 1..Len(rows) : Len(rows[i]) = ncols
RoundTrip == Done => ReadBack(Written) = rows /\ Len(ReadBack(Written)) = Len(rows)
TypeOK == Len(rows) <= MaxRows /\ Len(cur) <= ncols

RECURSIVE HashR(_, _)
HashR(s, h) == IF s = <<>> THEN h ELSE HashR(Tail(s), (h * 31 + (Head(s).m % 97) + 7 * Head(s).e + (IF Head(s).k = "nan" THEN 50 ELSE 0) + 200) % 1000003)
RECURSIVE HashF(_, _)
HashF(t, h) == IF t = <<>> THEN h ELSE HashF(Tail(t), HashR(Head(t), h))
Selected == HashF(rows, ncols) % EmitMod = EmitSel
EmitCase == (Done /\ Selected) => PrintT(<<"CASE", ToJson([ncols |-> ncols, rows |-> ReadBack(Written)])>>)
=============================================================================
