CONSTANTS
  MaxRows = 2
  MaxCols = 2
  Profile = 1
  EmitMod = 1
  EmitSel = 0
INIT Init
NEXT Next
INVARIANT TypeOK
INVARIANT Rectangular
INVARIANT RoundTrip
INVARIANT EmitCase
CHECK_DEADLOCK FALSE
