------------------------------ MODULE DataItem ------------------------------
(* Conversion of ONE data item (docs/NONMEM.rst, "NM-TRAN dataset parsing").

   An item is a sequence of one-character tokens.  Stand-ins used in all C13 specs
   (the driver renders them):   "_" space, "T" TAB, "N" newline, "Z" = a run of 22 zeros.

   Documented rules transcribed here:
     * "." or an empty item is NULL
     * a lone + or - means 0
     * 2-1 means 2e-1, 2+1 means 2e1 (Fortran short form); D/d/E/e exponent letters
     * only the characters Ee+-0123456789 (and . D d) are allowed  -> anything else is an ERROR
     * an item can be at most 24 characters long                    -> longer is an ERROR
   The documentation does not define which strings over the allowed characters are
   numbers; the reference uses the Fortran real grammar
        [sign] (digits [. [digits]] | . digits) [ (E|D) [sign] digits | sign digits ]
   and classifies every other string over the allowed characters as "unspec"
   (not judged).                                                              *)
EXTENDS Integers, Sequences

Digit == {"0", "1", "2", "9", "Z"}
Sign == {"+", "-"}
ExpLetter == {"D", "E"}
Allowed == Digit \cup Sign \cup ExpLetter \cup {"."}
TokLen(t) == IF t = "Z" THEN 22 ELSE 1
RECURSIVE ItemLen(_)
ItemLen(s) == IF s = <<>> THEN 0 ELSE TokLen(Head(s)) + ItemLen(Tail(s))
AllAllowed(s) == \A i \in 1..Len(s) : s[i] \in Allowed

\* number automaton: st in s0 sg in pt fr ex es ed bad; a = [sign, int, frac, esign, exp] (token sequences)
Empty == [sign |-> "+", int |-> <<>>, frac |-> <<>>, esign |-> "+", exp |-> <<>>]
RECURSIVE Run(_, _, _)
Run(s, st, a) ==
    IF s = <<>> THEN [st |-> st, a |-> a]
    ELSE LET c == Head(s)  r == Tail(s) IN
      CASE st = "s0" /\ c \in Sign  -> Run(r, "sg", [a EXCEPT !.sign = c])
        [] st \in {"s0", "sg"} /\ c \in Digit -> Run(r, "in", [a EXCEPT !.int = <<c>>])
        [] st \in {"s0", "sg"} /\ c = "." -> Run(r, "pt", a)
        [] st = "in" /\ c \in Digit -> Run(r, "in", [a EXCEPT !.int = Append(@, c)])
        [] st = "in" /\ c = "." -> Run(r, "fr", a)
        [] st \in {"pt", "fr"} /\ c \in Digit -> Run(r, "fr", [a EXCEPT !.frac = Append(@, c)])
        [] st \in {"in", "fr"} /\ c \in ExpLetter -> Run(r, "ex", a)
        [] st \in {"in", "fr"} /\ c \in Sign -> Run(r, "es", [a EXCEPT !.esign = c])     \* 2-1, 2+1
        [] st = "ex" /\ c \in Sign -> Run(r, "es", [a EXCEPT !.esign = c])
        [] st \in {"ex", "es", "ed"} /\ c \in Digit -> Run(r, "ed", [a EXCEPT !.exp = Append(@, c)])
        [] OTHER -> [st |-> "bad", a |-> a]

\* canonical decimal notation  s I . F E s X   (token sequence; the driver joins it and expands Z)
Canon(a) == <<a.sign>> \o (IF a.int = <<>> THEN <<"0">> ELSE a.int) \o <<".">>
            \o (IF a.frac = <<>> THEN <<"0">> ELSE a.frac) \o <<"E", a.esign>>
            \o (IF a.exp = <<>> THEN <<"0">> ELSE a.exp)
Zero == <<"+", "0", ".", "0", "E", "+", "0">>

\* pharmpy's missing-data token (DataInfo.missing_data_token / conf.missing_data_token, default -99): an item that IS the
\* token text is a missing value (NaN), not the number -99
MissingToken == <<"-", "9", "9">>

\* result: [k |-> "null"] | [k |-> "missing"] | [k |-> "num", canon] | [k |-> "err"] | [k |-> "unspec"]
Classify(s) ==
    IF s = <<>> \/ s = <<".">> THEN [k |-> "null", canon |-> <<>>]
    ELSE IF s = MissingToken THEN [k |-> "missing", canon |-> <<>>]
    ELSE IF ~AllAllowed(s) THEN [k |-> "err", canon |-> <<>>]
    ELSE IF ItemLen(s) > 24 THEN [k |-> "err", canon |-> <<>>]
    ELSE IF Len(s) = 1 /\ s[1] \in Sign THEN [k |-> "num", canon |-> Zero]
    ELSE LET r == Run(s, "s0", Empty) IN
         IF r.st \in {"in", "fr", "ed"} THEN [k |-> "num", canon |-> Canon(r.a)]
         ELSE [k |-> "unspec", canon |-> <<>>]

\* ---- exact value of a number item as <<m, e>> = m * 10^e  (small items only: digits 0 1 2, used by Filter.tla)
DigitVal(c) == CASE c = "0" -> 0 [] c = "1" -> 1 [] c = "2" -> 2 [] c = "9" -> 9 [] OTHER -> 0
RECURSIVE DigitsVal(_, _)
DigitsVal(s, v) == IF s = <<>> THEN v ELSE DigitsVal(Tail(s), 10 * v + DigitVal(Head(s)))
NumOf(s) == IF Len(s) = 1 /\ s[1] \in Sign THEN <<0, 0>>
            ELSE LET a == Run(s, "s0", Empty).a
                     m == DigitsVal(a.int \o a.frac, 0)
                     x == DigitsVal(a.exp, 0) IN
                 <<IF a.sign = "-" THEN 0 - m ELSE m, (IF a.esign = "-" THEN 0 - x ELSE x) - Len(a.frac)>>
RECURSIVE Pow10(_)
Pow10(n) == IF n <= 0 THEN 1 ELSE 10 * Pow10(n - 1)
\* sign of a - b for a = <<m1, e1>>, b = <<m2, e2>>
Cmp(a, b) == LET e == IF a[2] < b[2] THEN a[2] ELSE b[2]
                 x == a[1] * Pow10(a[2] - e)
                 y == b[1] * Pow10(b[2] - e) IN
             IF x < y THEN -1 ELSE IF x > y THEN 1 ELSE 0
=============================================================================
