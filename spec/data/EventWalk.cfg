CONSTANTS
  MaxLen = 3
  MaxDelta = 1
  Profile = 1
  AllowBack = 1
  EmitMod = 1
  EmitSel = 0
INIT Init
NEXT Next
INVARIANT TypeOK
INVARIANT TadNonNegative
INVARIANT TadZeroOnDose
INVARIANT ExpansionKeepsOriginals
INVARIANT ExpansionKeepsAmount
INVARIANT ExpansionChronological
INVARIANT RowCountUnchanged
INVARIANT DoseIdSane
INVARIANT ImplDoseIdAgrees
INVARIANT ImplTadAgrees
INVARIANT EmitCase
CHECK_DEADLOCK FALSE
