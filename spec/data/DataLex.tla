------------------------------- MODULE DataLex -------------------------------
(* C13 - character-level reference scanner for NM-TRAN data files (docs/NONMEM.rst,
   sections "NM-TRAN dataset parsing", "Comment lines", "NULL items in datasets").

   A behaviour: Feed(c) appends ONE character to the file text and advances the
   scanner  <<mode, lead, sp, cur, items, rows>>  by that character (the scanner is
   on-line, so every prefix of every text is a state); Finish is the end of file;
   Fit converts the items, pads short rows with NULL / discards surplus items against
   $INPUT for every number of columns n in 1..MaxCols and every choice d in 0..n of a
   DROPped column, and names the columns from the $INPUT item forms.

   Characters (stand-ins rendered by the driver):
     "_" space   "T" TAB   "N" newline   "Z" 22 zeros   everything else is itself.

   Rules implemented (each from the document):
     separators comma / space / TAB; spaces before or after a comma and after a TAB are
     absorbed; space before a TAB = ERROR; leading/trailing blanks of a row ignored;
     a comma at the beginning / end of a row inserts NULL before / after it; two commas or
     two TABs enclose a NULL; blank line = ERROR; comment lines: default ^#, IGNORE=c ^c,
     IGNORE=@ first non-blank is a letter or #; item conversion: DataItem.tla.
   Left open by the document (flag `unspec`, such files are not judged):
     leading TAB, single trailing TAB, a comma next to a TAB, files without data rows,
     blanks without a newline at the very end of the file,
     strings over the legal characters that are not Fortran reals.

   Design layer: ImplSplit transcribes pharmpy's separator regex  ' *, *| *[\t] *| +'
   applied to the stripped line; TLC proves it equal to the scanner on every single-line
   text of the bound that is not an error and not flagged unspec.               *)
EXTENDS Integers, Sequences, FiniteSets, TLC, Json, DataItem

CONSTANTS MaxLen, MaxCols, Profile, EmitMod, EmitSel

VARIABLES phase, ign, text, sc, result
vars == <<phase, ign, text, sc, result>>

Alphabet == IF Profile = 3 THEN {"Z", "1", ".", "-", ",", "_"}       \* long items: the 24 character limit
            ELSE {"1", "2", ".", "-", "+", "D", ",", "_", "T", "#", "A", "N"}
                 \cup (IF Profile >= 2 THEN {"Z"} ELSE {})
Letters == {"A", "D", "E"}
IgnModes == {"#", "A", "@"}     \* no IGNORE=c option / IGNORE=A / IGNORE=@

NoLead == [sp |-> FALSE, tab |-> FALSE, bad |-> FALSE, any |-> FALSE]
S0 == [mode |-> "BOL", lead |-> NoLead, sp |-> FALSE, cur |-> <<>>, items |-> <<>>, rows |-> <<>>,
       unspec |-> {}, err |-> ""]
NULL == <<>>

CommentStart(c, lead) ==
    CASE ign = "@" -> c \in Letters \cup {"#"}
      [] OTHER -> c = ign /\ ~lead.any

EndRow(s, its) == [s EXCEPT !.rows = Append(@, its), !.items = <<>>, !.cur = <<>>, !.mode = "BOL",
                            !.lead = NoLead, !.sp = FALSE]
Fail(s, why) == [s EXCEPT !.err = why]
Flag(s, f) == [s EXCEPT !.unspec = @ \cup {f}]
StartItem(s, c) == [s EXCEPT !.mode = "ITEM", !.cur = <<c>>, !.sp = FALSE]

\* ---- one character
Scan(s, c) ==
    CASE s.mode = "BOL" ->
           IF c = "_" THEN [s EXCEPT !.lead.sp = TRUE, !.lead.any = TRUE]
           ELSE IF c = "T" THEN [s EXCEPT !.lead.bad = @ \/ s.lead.sp, !.lead.tab = TRUE, !.lead.sp = FALSE, !.lead.any = TRUE]
           ELSE IF c = "N" THEN Fail(s, IF s.lead.bad THEN "space before TAB" ELSE "blank line")
           ELSE IF CommentStart(c, s.lead) THEN [s EXCEPT !.mode = "COMMENT", !.lead = NoLead]
           ELSE IF s.lead.bad THEN Fail(s, "space before TAB")
           ELSE LET t == IF s.lead.tab THEN Flag(s, "leading TAB") ELSE s IN
                IF c = "," THEN [t EXCEPT !.items = <<NULL>>, !.mode = "COMMA", !.sp = FALSE]    \* leading comma
                ELSE StartItem(t, c)
      [] s.mode = "ITEM" ->
           IF c = "_" THEN [s EXCEPT !.items = Append(@, s.cur), !.cur = <<>>, !.mode = "SP"]
           ELSE IF c = "," THEN [s EXCEPT !.items = Append(@, s.cur), !.cur = <<>>, !.mode = "COMMA", !.sp = FALSE]
           ELSE IF c = "T" THEN [s EXCEPT !.items = Append(@, s.cur), !.cur = <<>>, !.mode = "TAB", !.sp = FALSE]
           ELSE IF c = "N" THEN EndRow(s, Append(s.items, s.cur))
           ELSE [s EXCEPT !.cur = Append(@, c)]
      [] s.mode = "SP" ->            \* after an item and one or more spaces
           IF c = "_" THEN s
           ELSE IF c = "," THEN [s EXCEPT !.mode = "COMMA", !.sp = FALSE]      \* spaces before a comma are ignored
           ELSE IF c = "T" THEN Fail(s, "space before TAB")
           ELSE IF c = "N" THEN EndRow(s, s.items)                             \* trailing spaces are ignored
           ELSE StartItem(s, c)
      [] s.mode = "COMMA" ->         \* after a comma (and spaces after it)
           IF c = "_" THEN [s EXCEPT !.sp = TRUE]
           ELSE IF c = "," THEN [s EXCEPT !.items = Append(@, NULL), !.sp = FALSE]
           ELSE IF c = "T" THEN IF s.sp THEN Fail(s, "space before TAB")
                                ELSE [Flag(s, "comma next to TAB") EXCEPT !.items = Append(@, NULL), !.mode = "TAB", !.sp = FALSE]
           ELSE IF c = "N" THEN EndRow(s, Append(s.items, NULL))               \* trailing comma
           ELSE StartItem(s, c)
      [] s.mode = "TAB" ->           \* after a TAB (and spaces after it)
           IF c = "_" THEN [s EXCEPT !.sp = TRUE]
           ELSE IF c = "T" THEN IF s.sp THEN Fail(s, "space before TAB") ELSE [s EXCEPT !.items = Append(@, NULL)]
           ELSE IF c = "," THEN [Flag(s, "comma next to TAB") EXCEPT !.items = Append(@, NULL), !.mode = "COMMA", !.sp = FALSE]
           ELSE IF c = "N" THEN EndRow(Flag(s, "trailing TAB"), Append(s.items, NULL))
           ELSE StartItem(s, c)
      [] s.mode = "COMMENT" ->
           IF c = "N" THEN [s EXCEPT !.mode = "BOL", !.lead = NoLead] ELSE s

\* ---- end of file
AtEOF(s) ==
    CASE s.mode = "BOL" -> IF ~s.lead.any THEN s
                           ELSE IF s.lead.bad THEN Fail(s, "space before TAB")
                           ELSE Flag(s, "blanks without newline at the end")     \* is that a (blank) line?  not judged
      [] s.mode = "ITEM" -> EndRow(s, Append(s.items, s.cur))
      [] s.mode = "SP" -> EndRow(s, s.items)
      [] s.mode = "COMMA" -> EndRow(s, Append(s.items, NULL))
      [] s.mode = "TAB" -> EndRow(Flag(s, "trailing TAB"), Append(s.items, NULL))
      [] s.mode = "COMMENT" -> [s EXCEPT !.mode = "BOL"]

Feed(c) == /\ phase = "scan" /\ Len(text) < MaxLen /\ sc.err = "" /\ c \in Alphabet
           /\ text' = Append(text, c) /\ sc' = Scan(sc, c)
           /\ UNCHANGED <<phase, ign, result>>
FeedDigit == \E c \in Alphabet \cap (Digit \cup {"."}) : Feed(c)
FeedSignOrLetter == \E c \in Alphabet \cap (Sign \cup ExpLetter \cup {"A"}) : Feed(c)
FeedComma == Feed(",")
FeedSpace == Feed("_")
FeedTab == Feed("T")
FeedHash == Feed("#")
FeedNewline == Feed("N")
Finish == /\ phase = "scan" /\ Len(text) >= 1
          /\ phase' = "fit" /\ sc' = (IF sc.err = "" THEN AtEOF(sc) ELSE sc)
          /\ UNCHANGED <<ign, text, result>>

\* ---- $INPUT item forms (parse_column_info): which forms drop a column and what the column is called
DropForms == <<"NAME=DROP", "DROP=NAME", "NAME=SKIP", "SKIP=NAME", "DROP", "SKIP">>
SynForms == <<"RES=SYN", "SYN=RES">>
FormOf(n, d, j) ==
    IF j = d THEN DropForms[((Len(text) + n) % 6) + 1]
    ELSE IF j = (Len(text) % n) + 1 /\ (Len(text) + d) % 3 = 0 THEN SynForms[(Len(text) % 2) + 1]
    ELSE "NAME"
\* the column name is the given name, for a synonym pair the NON-reserved name; anonymous DROP/SKIP has no name
NameKind(f) == CASE f \in {"DROP", "SKIP"} -> "anonymous" [] f \in {"RES=SYN", "SYN=RES"} -> "synonym" [] OTHER -> "given"

\* ---- the NULL=c option of $DATA: one character out of [0-9+-]; a digit is itself, + and - mean 0; default 0
NullOpts == {"0", "1", "2", "-", "+"}
NullValue(o) == CASE o = "1" -> 1 [] o = "2" -> 2 [] OTHER -> 0

\* ---- conversion, padding, surplus
Cell(row, j, d) ==
    IF j > Len(row) THEN [k |-> IF j = d THEN "text" ELSE "null", canon |-> <<>>]        \* padding with NULL
    ELSE IF j = d THEN [k |-> "text", canon |-> row[j]]                                  \* DROPped: any content
    ELSE Classify(row[j])
FitRow(row, n, d) == [j \in 1..n |-> Cell(row, j, d)]
Kinds(n, d) == {Cell(sc.rows[i], j, d).k : i \in 1..Len(sc.rows), j \in 1..n}
Outcome(n, d) ==
    IF sc.err # "" THEN "error"
    ELSE IF sc.unspec # {} \/ sc.rows = <<>> THEN "unspec"
    ELSE IF "unspec" \in Kinds(n, d) THEN "unspec"
    ELSE IF "err" \in Kinds(n, d) THEN "error"
    ELSE "ok"
Table == [n \in 1..MaxCols |-> [dd \in 1..(n + 1) |->
            LET d == dd - 1 IN
            [n |-> n, d |-> d, outcome |-> Outcome(n, d),
             input |-> [j \in 1..n |-> [form |-> FormOf(n, d, j), drop |-> j = d, name |-> NameKind(FormOf(n, d, j))]],
             rows |-> IF Outcome(n, d) = "ok" THEN [i \in 1..Len(sc.rows) |-> FitRow(sc.rows[i], n, d)] ELSE <<>>]]]
Fit == /\ phase = "fit" /\ phase' = "done" /\ result' = Table
       /\ UNCHANGED <<ign, text, sc>>

Init == phase = "scan" /\ ign \in IgnModes /\ text = <<>> /\ sc = S0 /\ result = <<>>
Next == FeedDigit \/ FeedSignOrLetter \/ FeedComma \/ FeedSpace \/ FeedTab \/ FeedHash \/ FeedNewline \/ Finish \/ Fit
Spec == Init /\ [][Next]_vars

\* ---------------------------------------------------------------- invariants
Done == phase = "done"
TypeOK == /\ phase \in {"scan", "fit", "done"}
          /\ sc.mode \in {"BOL", "ITEM", "SP", "COMMA", "TAB", "COMMENT"}
          /\ sc.mode = "ITEM" <=> sc.cur # <<>>
\* the scanner is total: every text ends in rows of items or in a documented error
ScannerTotal == Done => (sc.err \in {"space before TAB", "blank line"} \/ (sc.err = "" /\ sc.mode = "BOL" /\ sc.items = <<>> /\ sc.cur = <<>>))
NoEmptyRow == \A i \in 1..Len(sc.rows) : Len(sc.rows[i]) >= 1
\* after padding / discarding surplus every row has exactly the number of $INPUT columns
FitWidth == Done => \A n \in 1..MaxCols : \A dd \in 1..(n + 1) : \A i \in 1..Len(result[n][dd].rows) : Len(result[n][dd].rows[i]) = n
\* items never contain separator characters
ItemsClean == \A i \in 1..Len(sc.rows) : \A j \in 1..Len(sc.rows[i]) : \A m \in 1..Len(sc.rows[i][j]) :
                 sc.rows[i][j][m] \notin {",", "_", "T", "N"}

\* ---------------------------------------------------------------- design layer: the separator regex of pharmpy
Blank == {"_", "T"}
RECURSIVE LStrip(_)
LStrip(s) == IF s # <<>> /\ Head(s) \in Blank THEN LStrip(Tail(s)) ELSE s
RECURSIVE RStrip(_)
RStrip(s) == IF s # <<>> /\ s[Len(s)] \in Blank THEN RStrip(SubSeq(s, 1, Len(s) - 1)) ELSE s
RECURSIVE Spaces(_)
Spaces(s) == IF s # <<>> /\ Head(s) = "_" THEN 1 + Spaces(Tail(s)) ELSE 0
\* length of a match of   ' *, *| *[\t] *| +'   at the head of s (0 = no match)
SepLen(s) == LET a == Spaces(s)
                 r == SubSeq(s, a + 1, Len(s)) IN
             IF r # <<>> /\ Head(r) \in {",", "T"} THEN a + 1 + Spaces(Tail(r))
             ELSE a
RECURSIVE Split(_, _, _)
Split(s, cur, acc) ==
    IF s = <<>> THEN Append(acc, cur)
    ELSE LET m == SepLen(s) IN
         IF m > 0 THEN Split(SubSeq(s, m + 1, Len(s)), <<>>, Append(acc, cur))
         ELSE Split(Tail(s), Append(cur, Head(s)), acc)
ImplSplit(line) == Split(RStrip(LStrip(line)), <<>>, <<>>)
SingleLine == \A i \in 1..Len(text) : text[i] # "N"
ImplSplitAgrees ==
    (Done /\ SingleLine /\ sc.err = "" /\ sc.unspec = {} /\ Len(sc.rows) = 1) => ImplSplit(text) = sc.rows[1]

\* ---------------------------------------------------------------- case emission
TokCode(c) == CASE c = "1" -> 1 [] c = "2" -> 2 [] c = "." -> 3 [] c = "-" -> 4 [] c = "+" -> 5 [] c = "D" -> 6 [] c = "," -> 7
                [] c = "_" -> 8 [] c = "T" -> 9 [] c = "#" -> 10 [] c = "A" -> 11 [] c = "N" -> 12 [] OTHER -> 13
RECURSIVE Hash(_, _)
Hash(s, h) == IF s = <<>> THEN h ELSE Hash(Tail(s), (h * 31 + TokCode(Head(s))) % 1000003)
Selected == Hash(text, IF ign = "#" THEN 1 ELSE IF ign = "A" THEN 2 ELSE 3) % EmitMod = EmitSel
Case == [ign |-> ign, text |-> text, err |-> sc.err, unspec |-> sc.unspec, items |-> sc.rows, table |-> result,
         nulls |-> [o \in NullOpts |-> NullValue(o)]]
EmitCase == (Done /\ Selected) => PrintT(<<"CASE", ToJson(Case)>>)
=============================================================================
