------------------------------- MODULE Filter -------------------------------
(* C13 - IGNORE / ACCEPT filters of $DATA (docs/NONMEM.rst, section "IGNORE/ACCEPT").

   State: the table of raw items (rows still present = `live`), the list of filters,
   the index of the next filter.  One action per filter (ApplyFilter), in the order
   given; then Convert parses the columns that are not DROPped of the rows that are
   still present.

   Rules implemented (from the document):
     * IGNOREs are performed one at a time in the order given; order is critical when an
       illegal item gets ignored before it has to be parsed for a numeric comparison
     * .EQ. / .NE. compare TEXT (the raw item with the comparison text), rows with text can
       be ignored that way; .EQN. .NEN. .LT. .LE. .GT. .GE. compare NUMBERS: the item is
       converted like any data item (Fortran forms), an item that is not a number is an ERROR
     * it is possible to filter on a DROPped column
     * an item that is the missing-data token (-99) is a missing value, not the number -99: under a numeric operator
       it matches nothing (IGNORE=(X.LT.0) keeps the record, ACCEPT=(X.LT.0) drops it); in the frame it is NaN
   Left open (not judged):
     * numeric comparison of a NULL item ("." / empty): the document says filters cannot act
       on NULL, pharmpy compares the NULL value                      -> outcome "unspec"
     * several ACCEPT conditions: the document only orders IGNOREs; both readings
       (all conditions / any condition) are admitted                  -> rows, altrows   *)
EXTENDS Integers, Sequences, FiniteSets, TLC, Json, DataItem

CONSTANTS MaxRows, MaxFilters, Profile, EmitMod, EmitSel

VARIABLES phase, fmode, table, drop, filters, fi, live, alive2, err, unspec, result
vars == <<phase, fmode, table, drop, filters, fi, live, alive2, err, unspec, result>>

Col1Items == {<<"1">>, <<"2">>, <<".">>, <<"1", ".", "0">>, <<"A">>, <<"2", "-", "1">>, MissingToken}
             \cup (IF Profile >= 2 THEN {<<"0">>, <<"-", "1">>, <<"1", "D", "1">>} ELSE {})
Col2Items == {<<"1">>, <<"A">>} \cup (IF Profile >= 2 THEN {<<"2">>} ELSE {})
TextOps == {"EQ", "NE"}
NumOps == {"EQN", "NEN", "LT", "LE", "GT", "GE"}
TextVals == {<<"1">>, <<"2">>, <<"A">>} \cup (IF Profile >= 2 THEN {<<"0">>} ELSE {})
NumVals == {<<"1">>, <<"2">>} \cup (IF Profile >= 2 THEN {<<"0">>} ELSE {})
Filters == {[col |-> c, op |-> o, val |-> v] : c \in 1..2, o \in TextOps, v \in TextVals}
           \cup {[col |-> c, op |-> o, val |-> v] : c \in 1..2, o \in NumOps, v \in NumVals}

Gen == phase = "gen"
AddRow(a, b) == /\ Gen /\ filters = <<>> /\ Len(table) < MaxRows
                /\ table' = Append(table, <<a, b>>)
                /\ UNCHANGED <<phase, fmode, drop, filters, fi, live, alive2, err, unspec, result>>
AddFilter(f) == /\ Gen /\ Len(table) >= 1 /\ Len(filters) < MaxFilters
                /\ filters' = Append(filters, f)
                /\ UNCHANGED <<phase, fmode, table, drop, fi, live, alive2, err, unspec, result>>
DoAddRow == \E a \in Col1Items, b \in Col2Items : AddRow(a, b)
DoAddFilter == \E f \in Filters : AddFilter(f)
Start == /\ Gen /\ Len(filters) >= 1
         /\ phase' = "apply" /\ fi' = 1 /\ live' = [i \in 1..Len(table) |-> TRUE] /\ alive2' = [i \in 1..Len(table) |-> FALSE]
         /\ UNCHANGED <<fmode, table, drop, filters, err, unspec, result>>

\* ---- one condition on one row: "T" / "F" / "E" (item is not a number) / "U" (numeric comparison of NULL)
Match(row, f) ==
    LET it == row[f.col] IN
    IF f.op = "EQ" THEN (IF it = f.val THEN "T" ELSE "F")
    ELSE IF f.op = "NE" THEN (IF it # f.val THEN "T" ELSE "F")
    ELSE LET c == Classify(it) IN
         IF c.k = "null" THEN "U"
         \* a missing value satisfies no equality / ordering comparison; "not equal" of a missing value is left open
         ELSE IF c.k = "missing" THEN (IF f.op = "NEN" THEN "U" ELSE "F")
         ELSE IF c.k # "num" THEN "E"
         ELSE LET s == Cmp(NumOf(it), NumOf(f.val)) IN
              IF CASE f.op = "EQN" -> s = 0 [] f.op = "NEN" -> s # 0 [] f.op = "LT" -> s < 0
                   [] f.op = "LE" -> s <= 0 [] f.op = "GT" -> s > 0 [] f.op = "GE" -> s >= 0
              THEN "T" ELSE "F"
\* ---- apply filter number fi to the rows still present
ApplyFilter ==
    /\ phase = "apply" /\ fi <= Len(filters) /\ err = ""
    /\ LET f == filters[fi]
           res == [i \in 1..Len(table) |-> IF live[i] THEN Match(table[i], f) ELSE "F"]
           seen == {res[i] : i \in {j \in 1..Len(table) : live[j]}}
       IN /\ err' = IF "E" \in seen THEN "not a number" ELSE ""
          /\ unspec' = (unspec \/ "U" \in seen)
          /\ live' = [i \in 1..Len(table) |-> live[i] /\ (IF fmode = "IGNORE" THEN res[i] # "T" ELSE res[i] = "T")]
          \* second reading of several ACCEPTs: a row is kept if ANY condition holds
          /\ alive2' = [i \in 1..Len(table) |-> alive2[i] \/ (fmode = "ACCEPT" /\ Match(table[i], f) = "T")]
    /\ fi' = fi + 1
    /\ UNCHANGED <<phase, fmode, table, drop, filters, result>>

\* ---- write/read law for a model that carries the list (C13, last clause)
\* The dataset of the model IS Rows(live).  When pharmpy writes it (write_csv) and generates the code for it (write_model),
\* reading the generated code must give exactly these rows: the generated $DATA must not apply the list once more, because
\* the list is not idempotent on the WRITTEN text - .EQ./.NE. compare text and the number 1 is written as 1.0, NULL as its
\* value, ...  `Sensitive` is TLC's prediction of the cases in which a retained list would change the rows again.
Written(it) == CASE it = <<"1">> -> <<"1", ".", "0">> [] it = <<"2">> -> <<"2", ".", "0">> [] it = <<"0">> -> <<"0", ".", "0">>
                 [] it = <<"2", "-", "1">> -> <<"0", ".", "2">> [] it = <<"-", "1">> -> <<"-", "1", ".", "0">>
                 [] it = <<"1", "D", "1">> -> <<"1", "0", ".", "0">> [] it = <<".">> -> <<"0", ".", "0">> [] OTHER -> it
WrittenRow(row) == [j \in 1..2 |-> IF j = drop THEN row[j] ELSE Written(row[j])]
KeptAgain(row) == IF fmode = "IGNORE" THEN \A n \in 1..Len(filters) : Match(row, filters[n]) = "F"
                  ELSE \A n \in 1..Len(filters) : Match(row, filters[n]) = "T"
Sensitive == \E i \in 1..Len(table) : live[i] /\ ~KeptAgain(WrittenRow(table[i]))

Cell(row, j) == IF j = drop THEN [k |-> "text", canon |-> row[j]] ELSE Classify(row[j])
Rows(keep) == LET idx == SelectSeq([i \in 1..Len(table) |-> i], LAMBDA i : keep[i])
              IN [n \in 1..Len(idx) |-> [j \in 1..2 |-> Cell(table[idx[n]], j)]]
KindsOf(rs) == {rs[i][j].k : i \in 1..Len(rs), j \in 1..2}
Outcome(rs) == IF unspec THEN "unspec" ELSE IF err # "" THEN "error"
               ELSE IF "unspec" \in KindsOf(rs) THEN "unspec" ELSE IF "err" \in KindsOf(rs) THEN "error" ELSE "ok"
Convert ==
    /\ phase = "apply" /\ (fi > Len(filters) \/ err # "")
    /\ phase' = "done"
    /\ result' = [outcome |-> Outcome(Rows(live)), rows |-> IF Outcome(Rows(live)) = "ok" THEN Rows(live) ELSE <<>>,
                  sensitive |-> Sensitive,
                  altoutcome |-> IF fmode = "ACCEPT" /\ Len(filters) > 1 THEN Outcome(Rows(alive2)) ELSE "none",
                  altrows |-> IF fmode = "ACCEPT" /\ Len(filters) > 1 /\ Outcome(Rows(alive2)) = "ok" THEN Rows(alive2) ELSE <<>>]
    /\ UNCHANGED <<fmode, table, drop, filters, fi, live, alive2, err, unspec>>

ReadBackOfWritten == Rows(live)          \* the law: identity on the model's dataset

Init == /\ phase = "gen" /\ fmode \in {"IGNORE", "ACCEPT"} /\ drop \in 0..1
        /\ table = <<>> /\ filters = <<>> /\ fi = 0 /\ live = <<>> /\ alive2 = <<>> /\ err = "" /\ unspec = FALSE /\ result = <<>>
Next == DoAddRow \/ DoAddFilter \/ Start \/ ApplyFilter \/ Convert
Spec == Init /\ [][Next]_vars

\* ---------------------------------------------------------------- invariants
Done == phase = "done"
TypeOK == phase \in {"gen", "apply", "done"} /\ Len(table) <= MaxRows /\ Len(filters) <= MaxFilters
\* IGNORE with text operators never raises: rows with text can be ignored (documented)
TextNeverFails == (Done /\ \A i \in 1..Len(filters) : filters[i].op \in TextOps) => err = ""
\* second, order-free definition for IGNORE lists WITHOUT numeric conversion problems: a row survives iff it matches none
SetDefinition ==
    (Done /\ fmode = "IGNORE" /\ err = "" /\ ~unspec) =>
        \A i \in 1..Len(table) : live[i] <=> (\A n \in 1..Len(filters) : Match(table[i], filters[n]) \in {"F", "E"})
\* order matters: a row removed by an earlier IGNORE is never converted by a later one
OrderShields ==
    (Done /\ fmode = "IGNORE" /\ err = "not a number") =>
        \E n \in 1..Len(filters), i \in 1..Len(table) :
            /\ Match(table[i], filters[n]) = "E"
            /\ \A m \in 1..(n - 1) : Match(table[i], filters[m]) # "T"

\* ---------------------------------------------------------------- emission
\* the token is never confused with a number by the comparison: a row whose compared item is the token survives
\* every IGNORE list made of .EQN. / ordering conditions on that column
MissingMatchesNothing ==
    (Done /\ fmode = "IGNORE" /\ err = "" /\ ~unspec) =>
        \A i \in 1..Len(table) :
            (\A n \in 1..Len(filters) : filters[n].op \in NumOps /\ table[i][filters[n].col] = MissingToken) => live[i]
RECURSIVE HashS(_, _)
HashS(s, h) == IF s = <<>> THEN h ELSE HashS(Tail(s), (h * 31 + Len(Head(s)) * 7 + (IF Head(s)[1] = "1" THEN 1 ELSE IF Head(s)[1] = "2" THEN 2 ELSE IF Head(s)[1] = "A" THEN 3 ELSE 4)) % 1000003)
RECURSIVE HashT(_, _)
HashT(t, h) == IF t = <<>> THEN h ELSE HashT(Tail(t), HashS(Head(t), h))
RECURSIVE HashF(_, _)
HashF(fs, h) == IF fs = <<>> THEN h
                ELSE HashF(Tail(fs), HashS(<<Head(fs).val>>, (h * 13 + Head(fs).col + (CASE Head(fs).op = "EQ" -> 1 [] Head(fs).op = "NE" -> 2 [] Head(fs).op = "EQN" -> 3
                      [] Head(fs).op = "NEN" -> 4 [] Head(fs).op = "LT" -> 5 [] Head(fs).op = "LE" -> 6 [] Head(fs).op = "GT" -> 7 [] OTHER -> 8) * 3) % 1000003))
HashCase == HashF(filters, HashT(table, drop + (IF fmode = "IGNORE" THEN 0 ELSE 2)))
\* cases in which a retained list would bite (Sensitive) are emitted eight times as densely
WMod == (EmitMod \div 8) + 1
Selected == \/ HashCase % EmitMod = EmitSel
            \/ (result.outcome = "ok" /\ result.sensitive /\ HashCase % WMod = EmitSel % WMod)
Case == [fmode |-> fmode, drop |-> drop, table |-> table, filters |-> filters, result |-> result]
EmitCase == (Done /\ Selected) => PrintT(<<"CASE", ToJson(Case)>>)
=============================================================================
