CONSTANTS
  MaxRows = 1
  MaxFilters = 2
  Profile = 1
  EmitMod = 1
  EmitSel = 0
INIT Init
NEXT Next
INVARIANT TypeOK
INVARIANT TextNeverFails
INVARIANT SetDefinition
INVARIANT OrderShields
INVARIANT MissingMatchesNothing
INVARIANT EmitCase
CHECK_DEADLOCK FALSE
