\* -simulate: histories of MaxHist requests over the full alphabet (thorough tier)
CONSTANTS
  Acts = {"A:INST", "A:FO", "A:ZO", "A:SEQ", "E:FO", "E:ZO", "E:MM", "E:MIX", "P:0", "P:1", "P:2", "P+", "P-", "T:0", "T:1", "T:3", "T:1N", "T:2N", "T:4N", "L:1", "L:0", "B:1", "B:0", "M:BASIC", "M:PSC", "X:LIN"}
  StartNames = {"iv1", "oral1"}
  TrackHist = TRUE
  MaxHist = 6
INIT Init
NEXT Next
INVARIANT TypeOK
INVARIANT EmitHist
CHECK_DEADLOCK FALSE
