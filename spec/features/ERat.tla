-------------------------------- MODULE ERat --------------------------------
(* Small exact rational arithmetic for the Effects / Preserve contracts (DESIGN 3.3).

   A value is a pair <<n, d>>:
       d > 0          the rational n/d in lowest terms (normalised)
       <<0, 0>>       UNDEF     - outside the domain of the function model (x/0, EXP of a
                                  non-integer, LOG of a non-power of two, a probe value the
                                  driver could not compute in Q)
       <<1, 0>>       OVERFLOW  - an intermediate result would leave TLC's 32-bit integers
   Both special values are absorbing.  A comparison that meets one of them is "skip":
   the event is not judged.  Function model:  EXP(x) := 2^x for integer x,  LOG(2^k) := k. *)
EXTENDS Integers, Sequences

Limit == 1000000000

UNDEF == <<0, 0>>
OVF   == <<1, 0>>
IsVal(r) == r[2] > 0
Bad1(x)    == ~IsVal(x)
Bad2(x, y) == ~IsVal(x) \/ ~IsVal(y)
Pick2(x, y) == IF ~IsVal(x) THEN x ELSE y

AbsI(x) == IF x < 0 THEN -x ELSE x
SgnI(x) == IF x < 0 THEN -1 ELSE IF x = 0 THEN 0 ELSE 1
MulOK(a, b) == a = 0 \/ b = 0 \/ AbsI(a) <= Limit \div AbsI(b)

RECURSIVE Gcd(_, _)
Gcd(a, b) == IF b = 0 THEN a ELSE Gcd(b, a % b)

Norm(n, d) == IF n = 0 THEN <<0, 1>>
              ELSE LET g == Gcd(AbsI(n), d) IN <<n \div g, d \div g>>

RInt(k) == <<k, 1>>
Zero == <<0, 1>>
One  == <<1, 1>>
Two  == <<2, 1>>
IsInt(r) == IsVal(r) /\ r[2] = 1

RNeg(x) == IF Bad1(x) THEN x ELSE <<-x[1], x[2]>>

RAdd(x, y) ==
    IF Bad2(x, y) THEN Pick2(x, y)
    ELSE LET g  == Gcd(x[2], y[2])
             dx == x[2] \div g
             dy == y[2] \div g
         IN IF MulOK(x[1], dy) /\ MulOK(y[1], dx) /\ MulOK(dx, y[2])
            THEN LET n == x[1] * dy + y[1] * dx
                     r == Norm(n, dx * y[2])
                 IN IF AbsI(r[1]) <= Limit THEN r ELSE OVF
            ELSE OVF
RSub(x, y) == RAdd(x, RNeg(y))

RMul(x, y) ==
    IF Bad2(x, y) THEN Pick2(x, y)
    ELSE LET g1 == Gcd(AbsI(x[1]), y[2])
             g2 == Gcd(AbsI(y[1]), x[2])
             a  == x[1] \div (IF g1 = 0 THEN 1 ELSE g1)
             d  == y[2] \div (IF g1 = 0 THEN 1 ELSE g1)
             c  == y[1] \div (IF g2 = 0 THEN 1 ELSE g2)
             b  == x[2] \div (IF g2 = 0 THEN 1 ELSE g2)
         IN IF MulOK(a, c) /\ MulOK(b, d) THEN Norm(a * c, b * d) ELSE OVF

RInv(x) == IF Bad1(x) THEN x
           ELSE IF x[1] = 0 THEN UNDEF
           ELSE IF x[1] < 0 THEN <<-x[2], -x[1]>> ELSE <<x[2], x[1]>>
RDiv(x, y) == IF Bad2(x, y) THEN Pick2(x, y) ELSE IF y[1] = 0 THEN UNDEF ELSE RMul(x, RInv(y))

\* -1 / 0 / 1, or 2 when not comparable
RCmp(x, y) ==
    IF Bad2(x, y) THEN 2
    ELSE IF MulOK(x[1], y[2]) /\ MulOK(y[1], x[2])
         THEN SgnI(x[1] * y[2] - y[1] * x[2])
         ELSE 2
RAbs(x) == IF Bad1(x) THEN x ELSE <<AbsI(x[1]), x[2]>>
RSign(x) == IF Bad1(x) THEN x ELSE <<SgnI(x[1]), 1>>

MaxExp == 40
RECURSIVE RPowN(_, _)
RPowN(x, k) == IF k = 0 THEN One
               ELSE IF k = 1 THEN x
               ELSE LET h == RPowN(x, k \div 2)
                        hh == RMul(h, h)
                    IN IF k % 2 = 0 THEN hh ELSE RMul(hh, x)
\* x ** k for an integer k  (x**0 = 1)
RPowInt(x, k) ==
    IF Bad1(x) THEN x
    ELSE IF AbsI(k) > MaxExp THEN OVF
    ELSE IF k >= 0 THEN RPowN(x, k)
    ELSE IF x[1] = 0 THEN UNDEF ELSE RInv(RPowN(x, -k))
\* x ** y: decided for integer y only (fractional powers are outside Q), except 1 ** y = 1
RPow(x, y) ==
    IF Bad2(x, y) THEN Pick2(x, y)
    ELSE IF y[2] = 1 THEN RPowInt(x, y[1])
    ELSE IF x = One THEN One
    ELSE UNDEF

\* EXP(x) := 2^x   (defined for integer x)
RExp2(x) == IF Bad1(x) THEN x ELSE IF x[2] # 1 THEN UNDEF ELSE RPowInt(Two, x[1])

\* LOG(2^k) := k
RECURSIVE Log2I(_)
Log2I(n) == IF n = 1 THEN 0 ELSE IF n % 2 = 0 THEN (LET r == Log2I(n \div 2) IN IF r < 0 THEN -1 ELSE r + 1) ELSE -1
RLog2(x) ==
    IF Bad1(x) THEN x
    ELSE IF x[1] <= 0 THEN UNDEF
    ELSE IF x[2] = 1 THEN (LET k == Log2I(x[1]) IN IF k < 0 THEN UNDEF ELSE <<k, 1>>)
    ELSE IF x[1] = 1 THEN (LET k == Log2I(x[2]) IN IF k < 0 THEN UNDEF ELSE <<-k, 1>>)
    ELSE UNDEF

\* ---- three-valued judgements: "ok" | "bad" | "skip" (an operand undefined / overflowed: never judged)
\* Eq(l, c): l = a value LOGGED from the real code (exact; OVF there means "known, but does not fit"),
\*           c = a value COMPUTED here (OVF = some intermediate result did not fit: unknown).
\* A logged value that does not fit can still be told apart from a computed value that does: normalised
\* representations are unique, so the two numbers differ.
Eq(l, c) == IF l = UNDEF \/ c = UNDEF \/ c = OVF THEN "skip"
            ELSE IF l = OVF THEN "bad"
            ELSE IF l = c THEN "ok" ELSE "bad"
\* both values logged
EqLL(x, y) == IF x = UNDEF \/ y = UNDEF THEN "skip"
              ELSE IF x = OVF /\ y = OVF THEN "skip"
              ELSE IF x = y THEN "ok" ELSE "bad"
Combine(S) == IF "bad" \in S THEN "bad" ELSE IF "ok" \in S THEN "ok" ELSE "skip"
\* a JSON rational [n, d] is already the pair; re-normalise defensively
FromJson(r) == IF r[2] <= 0 THEN <<r[1], r[2]>> ELSE Norm(r[1], r[2])
=============================================================================
