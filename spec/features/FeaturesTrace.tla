--------------------------- MODULE FeaturesTrace ---------------------------
(* C08, code -> spec: every observation the driver made on real pharmpy models is judged here,
   by the same operators the history machine is built from (FeaturesDefs).

   RECS is a JSON array of observations:
     kind "step"  one call of a public setter on a real model (via "setter"), or of the function the MFL
                  feature -> function table stores under MFLKey[act] (via "mfl") - same obligation
          pre     vector the detectors reported before the call
          act     action token
          out     "applied" | "refused" (exception raised by the setter's own validation)
                  | "error" (any other exception, a model without generated code, failing detectors)
          post    vector after the call (abs / elim "NONE" when no detector answers)
          wf      [connected, doses_same]: every compartment still connected, number of doses kept
     kind "idem"  fingerprints of f(m) and f(f(m)) compared       res "same" | "diff" | "skip"
     kind "undo"  fingerprints of m and g(f(m)) compared (g = inv) res "same" | "diff" | "skip"
     kind "obl"   no observation: the driver asks for the obligations of vector pre under the
                  requests acts (states outside the exhaustively emitted table); answered as <<"CASE", json>>
   Verdicts (printed as <<"V", json>>): "ok", "na" (no obligation in this state), "unspecified"
   (silent documentation, not judged) or a rejection: "internal-error", "undocumented-refusal",
   "illformed", "unclassifiable", "frame" (+ the categories that differ), "idem", "undo".     *)
EXTENDS FeaturesDefs, Json, IOUtils

Recs == JsonDeserialize(IOEnv.RECS)
VARIABLE tid

TraceInit == tid \in 1..Len(Recs)
TraceNext == UNCHANGED tid

R == Recs[tid]
V(verdict, bad) == [id |-> tid, v |-> verdict, bad |-> bad]

StepVerdict ==
    LET p == R.pre
        a == ActDef[R.act]
        t == Tmpl(p, a)
        f == Free(p, a)
        q == R.post
        bad == {c \in Cats \ f : q[c] # t[c]}
        absorptionOpen == AbsStruct \subseteq f
    IN CASE ~Enabled(p, a) -> V("na", {})
         [] R.via = "mfl" /\ R.act \notin MFLActs -> V("na", {})   \* no entry of the MFL table makes this request
         [] R.out = "error" -> V("internal-error", {})
         [] R.out = "refused" -> IF Refuse(p, a) THEN V("ok", {}) ELSE V("undocumented-refusal", {})
         [] ~(R.wf.connected /\ R.wf.doses_same) -> V("illformed", {})
         [] q.abs = "NONE" \/ q.elim = "NONE" ->
                IF (q.abs = "NONE" => "abs" \in f) /\ (q.elim = "NONE" => "elim" \in f)
                THEN V("unspecified", {}) ELSE V("unclassifiable", {})
         [] bad # {} -> V("frame", bad)
         [] ~Consistent(q) -> IF absorptionOpen THEN V("unspecified", {}) ELSE V("illformed", {})
         [] OTHER -> V("ok", {})

RelVerdict ==
    LET p == R.pre IN
    CASE R.kind = "idem" ->
           IF ~IdemReq(p, R.act) THEN V("na", {})
           ELSE IF R.res = "diff" THEN V("idem", {}) ELSE V("ok", {})
      [] OTHER ->
           IF ~(UndoReq(p, R.act) /\ Inverse(p, R.act) = R.inv) THEN V("na", {})
           ELSE IF R.res = "diff" THEN V("undo", {}) ELSE V("ok", {})

SeqSet(q) == {q[i] : i \in 1..Len(q)}
Emit == IF R.kind = "obl"
        THEN PrintT(<<"CASE", ToJson([s |-> R.pre, acts |-> Obls(R.pre, SeqSet(R.acts))])>>)
        ELSE PrintT(<<"V", ToJson(IF R.kind = "step" THEN StepVerdict ELSE RelVerdict)>>)
=============================================================================
