------------------------------ MODULE Features ------------------------------
(* C08 - history machine of the structural feature setters.

   State s = feature vector (FeaturesDefs), one action per public setter call.  Each
   action has the outcomes
       Applied   s' \in Posts(s, a)    requested category = requested value, every other
                                       category unchanged; the members of a documented
                                       "never run" pair touched by the request unconstrained
       Refused   s' = s                only where Refuse(s, a) (documented refusals)
   TLC explores the reachable graph from every start vector, checks the design-level
   theorems (abstract idempotence, abstract undo pairs, MFL rendering round trip) and
   emits one CASE per reachable state: the obligations the driver must discharge on a
   real model that reports this vector - every enabled request with its expected
   post-vector, the categories left open, whether f.f ~ f is demanded and which request
   undoes it.  With TrackHist the machine records the history (used with -simulate to
   produce long histories for replay).                                          *)
EXTENDS FeaturesDefs, Json

CONSTANTS Acts,        \* action tokens of this configuration (subset of AllActs)
          StartNames,  \* names of start vectors
          TrackHist,   \* BOOLEAN
          MaxHist      \* length of emitted histories when TrackHist

VARIABLES s, hist
vars == <<s, hist>>

ASSUME Acts \subseteq AllActs /\ StartNames \subseteq DOMAIN StartVec
ASSUME PrintT(<<"META", ToJson([space |-> MFLSpace, keys |-> MFLKey])>>)

Init == /\ \E n \in StartNames : s = StartVec[n]
        /\ hist = <<>>

Step(tok) ==
    LET a == ActDef[tok] IN
    /\ tok \in Acts /\ Enabled(s, a)
    /\ (TrackHist => Len(hist) < MaxHist)
    /\ \/ \E u \in Posts(s, a) : s' = u          \* Applied
       \/ Refuse(s, a) /\ s' = s                 \* Refused (documented)
    /\ hist' = IF TrackHist THEN Append(hist, tok) ELSE hist

\* one named disjunct per public setter (coverage / vacuity guard)
DoSetAbsorption   == \E tok \in {"A:INST", "A:FO", "A:ZO", "A:SEQ"} : tok \in Acts /\ Step(tok)
DoSetElimination  == \E tok \in {"E:FO", "E:ZO", "E:MM", "E:MIX"} : tok \in Acts /\ Step(tok)
DoSetPeripherals  == \E tok \in {"P:0", "P:1", "P:2"} : tok \in Acts /\ Step(tok)
DoAddPeripheral   == "P+" \in Acts /\ Step("P+")
DoRemovePeripheral == "P-" \in Acts /\ Step("P-")
DoSetTransits     == \E tok \in {"T:0", "T:1", "T:3"} : tok \in Acts /\ Step(tok)
DoSetTransitsNoDepot == \E tok \in {"T:1N", "T:2N", "T:4N"} : tok \in Acts /\ Step(tok)
DoAddLag          == "L:1" \in Acts /\ Step("L:1")
DoRemoveLag       == "L:0" \in Acts /\ Step("L:0")
DoAddBio          == "B:1" \in Acts /\ Step("B:1")
DoRemoveBio       == "B:0" \in Acts /\ Step("B:0")
DoAddMetabolite   == \E tok \in {"M:BASIC", "M:PSC"} : tok \in Acts /\ Step(tok)
DoAddEffectComp   == "X:LIN" \in Acts /\ Step("X:LIN")

\* the same request performed through the MFL feature -> function table: the function stored under MFLKey[tok]
\* is applied instead of the setter call it is supposed to be - same outcomes, same obligation
DoRequestViaMFL   == \E tok \in MFLActs : tok \in Acts /\ Step(tok)

Next == \/ DoRequestViaMFL \/ DoSetAbsorption \/ DoSetElimination \/ DoSetPeripherals \/ DoAddPeripheral
        \/ DoRemovePeripheral \/ DoSetTransits \/ DoSetTransitsNoDepot \/ DoAddLag \/ DoRemoveLag
        \/ DoAddBio \/ DoRemoveBio \/ DoAddMetabolite \/ DoAddEffectComp

Spec == Init /\ [][Next]_vars

\* ---------------------------------------------------------------- invariants / design-level theorems
TypeOK == s \in States /\ Consistent(s) /\ (TrackHist \/ hist = <<>>)

\* the ghost never changes and normal form is kept: a lone transit without depot is never a state
\* reached by a determined step
RouteGhost == \E n \in StartNames : s.route = StartVec[n].route

\* abstract idempotence: where the property determines f(s) and f(f(s)), f(f(s)) = f(s)
IdemAbstract ==
    \A tok \in Acts \cap IdemActs :
        LET a == ActDef[tok] IN
        (Enabled(s, a) /\ Determined(s, a) /\ Determined(Tmpl(s, a), a)) => Tmpl(Tmpl(s, a), a) = Tmpl(s, a)

\* abstract undo: an undo pair whose two steps the property determines restores the vector
UndoAbstract ==
    \A tok \in Acts :
        LET a == ActDef[tok]
            inv == Inverse(s, tok)
        IN (inv # "none" /\ inv \in Acts /\ Enabled(s, a) /\ Determined(s, a) /\ Tmpl(s, a) # s
            /\ Determined(Tmpl(s, a), ActDef[inv]))
           => Tmpl(Tmpl(s, a), ActDef[inv]) = s

\* a determined step lands where the detectors' normal form lives, and on the requested value
AppliedSound ==
    \A tok \in Acts :
        LET a == ActDef[tok] IN
        (Enabled(s, a) /\ Determined(s, a)) =>
            LET t == Tmpl(s, a) IN
            /\ t \in States /\ Norm(t) = t
            /\ (a.k = "A" => t.abs = a.v) /\ (a.k = "E" => t.elim = a.v)
            /\ (a.k = "P" /\ a.v = "set" => t.periph = a.n)
            /\ (a.k = "L" => t.lag = (a.v = "on")) /\ (a.k = "B" => t.bio = (a.v = "on"))
            /\ (a.k = "M" => t.metab = a.v) /\ (a.k = "X" => t.effect)
            /\ (a.k = "T" => (t.tr = a.n \/ (a.n = 1 /\ t.tr = 0 /\ t.depot)))

MFLRender == MFLRoundTrip(s)

\* ---------------------------------------------------------------- case emission (spec -> code)
EmitCase ==
    ~TrackHist => PrintT(<<"CASE", ToJson([s |-> s, acts |-> Obls(s, Acts)])>>)

EmitHist ==
    (TrackHist /\ Len(hist) = MaxHist) => PrintT(<<"HIST", ToJson(hist)>>)
=============================================================================
