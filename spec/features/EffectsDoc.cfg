CONSTANTS
  Models = {"pheno"}
  MaxHist = 1
  Groups = {"cov", "eta"}
INIT Init
NEXT Next
INVARIANT NeutralAll
CHECK_DEADLOCK FALSE
