------------------------------- MODULE Preserve -------------------------------
(* C07 - refactorings and pharmpy's own evaluators preserve the model function.

   Every public transformation of the alphabet is classified by the constant table Class:
       Preserving  documented as not changing the model function (possibly up to a renaming it declares)
       Extension   changes the function as documented (C09)
       Structural  changes the structural model (C08)
       Data        changes parameter attributes / the dataset attachment, not the statements
       Observe     an extractor / evaluator: returns a value, leaves the model alone
   The machine tracks what decides enabledness (ODE system present, format, dataset attached,
   names, joint distribution, ...) and an abstract fingerprint: `ver` = version of the model
   function (a fresh number after every Structural / Extension step), `nm` = the name map
   (original symbol -> current symbol).  Next-state relation for a Preserving action f:
           ver' = ver   /\   nm' = Renaming(f) o nm          i.e.  fp' = Rename(fp, renaming)
   Histories: Structural / Extension / Data steps interleaved with Preserving steps and
   observations at every position (Next == DoStructural \/ DoExtension \/ DoData \/ DoPreserving
   \/ DoObserve), so that a refactoring meets reassigned symbols, Piecewise definitions and ODE
   systems produced by earlier transformations.  TLC emits every history that ends in a
   Preserving or Observe step as a CASE; PreserveTrace validates what the real code did.        *)
EXTENDS ERat, FiniteSets, TLC, Json

CONSTANTS Models,      \* subset of {"pheno", "mox2", "linear", "pred", "flag"}; "pred" = a $PRED model with one eta, two parameters
                       \* without eta and a logical-IF covariate statement after the eta assignments
          MaxHist,
          Acts         \* tokens enabled in this configuration

VARIABLES m, hist, ver, nm
vars == <<m, hist, ver, nm>>

Structural == {"S:IVORAL", "S:FO", "S:PER", "S:TR", "S:LAG", "S:ZOE", "S:MM"}
Extension  == {"X:REDEF", "X:ADDIIV", "X:COVLIN", "X:COVCAT", "X:COVPW", "X:IOV", "X:BOXCOX", "X:COMB", "X:IIVRUV", "X:POWER", "X:TV"}
Data       == {"D:FIXTH", "D:ZEROOM", "D:FIXVAR1"}
Preserving == {"P:MU", "P:DECL", "P:CLEAN", "P:SIMP", "P:GREEK", "P:RENAME", "P:SOLVE", "P:GENERIC", "P:NONMEM",
               "P:UNLOAD", "P:LOAD", "P:UNUSED", "P:JOINT", "P:SPLIT", "P:FIXED", "P:NONRANDOM"}
Observe    == {"O:OBS", "O:IPRED", "O:PRED", "O:ETAGRAD", "O:EPSGRAD", "O:EVAL"}
AllActs == Structural \cup Extension \cup Data \cup Preserving \cup Observe

\* the public function behind each token (documentation of the binding; the driver has the same table)
Function ==
    [t \in AllActs |->
        CASE t = "S:IVORAL" -> "CompartmentalSystemBuilder.set_dose(CENTRAL, Bolus(AMT, admid=2)) on a model with depot"
          [] t = "S:FO" -> "set_first_order_absorption" [] t = "S:PER" -> "add_peripheral_compartment"
          [] t = "S:TR" -> "set_transit_compartments(2)" [] t = "S:LAG" -> "add_lag_time"
          [] t = "S:ZOE" -> "set_zero_order_elimination" [] t = "S:MM" -> "set_michaelis_menten_elimination"
          [] t = "X:ADDIIV" -> "add_iiv(parameter without eta, exp)"
          [] t = "X:REDEF" -> "interleaved reassignments: R = th_a; T = T*R; R = R + th_b; T = T + 1 after the first definition of T"
          [] t = "X:COVLIN" -> "add_covariate_effect(lin)" [] t = "X:COVCAT" -> "add_covariate_effect(cat)"
          [] t = "X:COVPW" -> "add_covariate_effect(piece_lin)" [] t = "X:IOV" -> "add_iov"
          [] t = "X:BOXCOX" -> "transform_etas_boxcox" [] t = "X:COMB" -> "set_combined_error_model"
          [] t = "X:IIVRUV" -> "set_iiv_on_ruv" [] t = "X:POWER" -> "set_power_on_ruv"
          [] t = "X:TV" -> "set_time_varying_error_model"
          [] t = "D:FIXTH" -> "fix_parameters(theta)" [] t = "D:ZEROOM" -> "fix_parameters_to(omega, 0)"
          [] t = "D:FIXVAR1" -> "fix_parameters_to({first omega: 1, first sigma: 1})"
          [] t = "P:MU" -> "mu_reference_model" [] t = "P:DECL" -> "make_declarative" [] t = "P:CLEAN" -> "cleanup_model"
          [] t = "P:SIMP" -> "simplify_expression" [] t = "P:GREEK" -> "greekify_model" [] t = "P:RENAME" -> "rename_symbols"
          [] t = "P:SOLVE" -> "solve_ode_system" [] t = "P:GENERIC" -> "convert_model(generic)"
          [] t = "P:NONMEM" -> "convert_model(nonmem)" [] t = "P:UNLOAD" -> "unload_dataset" [] t = "P:LOAD" -> "load_dataset"
          [] t = "P:UNUSED" -> "remove_unused_parameters_and_rvs" [] t = "P:JOINT" -> "create_joint_distribution"
          [] t = "P:SPLIT" -> "split_joint_distribution" [] t = "P:FIXED" -> "replace_fixed_thetas"
          [] t = "P:NONRANDOM" -> "replace_non_random_rvs"
          [] t = "O:OBS" -> "get_observation_expression" [] t = "O:IPRED" -> "get_individual_prediction_expression"
          [] t = "O:PRED" -> "get_population_prediction_expression" [] t = "O:ETAGRAD" -> "calculate_eta_gradient_expression"
          [] t = "O:EPSGRAD" -> "calculate_epsilon_gradient_expression" [] OTHER -> "evaluate_*"]

Class == [t \in AllActs |-> CASE t \in Structural -> "Structural" [] t \in Extension -> "Extension" [] t \in Data -> "Data"
                              [] t \in Preserving -> "Preserving" [] OTHER -> "Observe"]
\* the renaming a Preserving action declares: "greek" (theta_i / eta_i / epsilon_i / omega_ij / sigma_ij by position),
\* "given" (the mapping passed to rename_symbols), "id"
Renaming == [t \in Preserving |-> CASE t = "P:GREEK" -> "greek" [] t = "P:RENAME" -> "given" [] OTHER -> "id"]

ASSUME Acts \subseteq AllActs

Start(name) ==
    [model |-> name,
     ode  |-> name \notin {"linear", "pred", "flag"},   \* the model still has its ODE system
     fmt  |-> IF name = "linear" THEN "nonmem" ELSE "nonmem",
     data |-> TRUE,
     names |-> "orig",                \* "orig" | "greek" | "given"
     joint |-> FALSE,
     abs  |-> name = "mox2",          \* has a depot
     per  |-> 0, tr |-> 0, lag |-> FALSE, elim |-> "FO",
     ext  |-> {},                     \* extensions applied
     \* "flag": a $PRED model with a fixed theta, an initialisation FLAG = 1 and an IF/ELSE whose last branch is 0
     fixth |-> name = "flag", zeroom |-> FALSE,
     fixvar |-> FALSE,
     ivoral |-> FALSE]                \* a second dosing compartment (IV bolus into CENTRAL besides the oral dose into DEPOT)                \* a variance fixed to a NON-ZERO value: its eta / epsilon is still random

Init == /\ \E n \in Models : m = Start(n)
        /\ hist = <<>> /\ ver = 0 /\ nm = <<>>

\* linear, at most two compartments (one compartment with or without depot, or central + one peripheral):
\* the systems whose eigenvalues the driver can make rational through the probe values
Linear1 == m.ode /\ m.tr = 0 /\ ~m.lag /\ m.elim = "FO" /\ (m.per = 0 \/ (m.per = 1 /\ ~m.abs))
PK == m.model \in {"pheno", "mox2"}

\* enabledness = documented preconditions + what the corpus offers; the "never run" pairs and the known
\* totality defects of setter sequences are C08's, not part of this alphabet
Enabled(t) ==
    \* two dosing compartments: the closed form of solve_ode_system has to start EVERY dosed compartment at its dose.
    \* (the other structural setters are not defined for such systems: they end the structural part of a history)
    CASE t = "S:IVORAL" -> PK /\ m.ode /\ m.abs /\ m.per = 0 /\ m.tr = 0 /\ ~m.lag /\ m.elim = "FO" /\ ~m.ivoral /\ m.names = "orig"
      [] t \in Structural /\ m.ivoral -> FALSE
      [] t = "S:FO"  -> PK /\ m.ode /\ ~m.abs /\ m.tr = 0 /\ m.names = "orig"
      [] t = "S:PER" -> PK /\ m.ode /\ m.per < 2 /\ m.elim = "FO" /\ m.names = "orig"
      [] t = "S:TR"  -> PK /\ m.ode /\ m.tr = 0 /\ ~m.lag /\ m.abs /\ m.elim = "FO" /\ m.names = "orig"
      [] t = "S:LAG" -> PK /\ m.ode /\ ~m.lag /\ m.tr = 0 /\ m.names = "orig"
      [] t = "S:ZOE" -> PK /\ m.ode /\ m.elim = "FO" /\ m.tr = 0 /\ m.per = 0 /\ m.names = "orig"
      [] t = "S:MM"  -> PK /\ m.ode /\ m.elim = "FO" /\ m.tr = 0 /\ m.per = 0 /\ m.names = "orig"
      \* a new eta assignment after the existing ones: what a second mu_reference_model has to splice in correctly
      \* a symbol assigned three times whose middle definition reads another reassigned symbol that changes again before the
      \* last definition (interleaved redefinitions): what make_declarative / cleanup_model have to bind to the value AT that point
      [] t = "X:REDEF" -> m.model \in {"pheno", "pred", "flag"} /\ t \notin m.ext /\ m.names = "orig"
      [] t = "X:ADDIIV" -> m.model = "pred" /\ t \notin m.ext /\ m.names = "orig"
      [] t \in {"X:COVLIN", "X:COVCAT", "X:COVPW"} -> PK /\ m.data /\ t \notin m.ext /\ m.names = "orig" /\ m.ode
      [] t = "X:IOV"    -> PK /\ m.data /\ t \notin m.ext /\ "X:BOXCOX" \notin m.ext /\ m.names = "orig" /\ ~m.joint /\ m.ode
      [] t = "X:BOXCOX" -> PK /\ t \notin m.ext /\ "X:IOV" \notin m.ext /\ m.names = "orig" /\ m.ode
      [] t = "X:COMB"   -> PK /\ m.ext \cap {"X:COMB", "X:IIVRUV", "X:POWER", "X:TV"} = {} /\ m.names = "orig"
      [] t \in {"X:IIVRUV", "X:POWER", "X:TV"} -> PK /\ m.ext \cap {"X:IIVRUV", "X:POWER", "X:TV"} = {} /\ m.names = "orig"
      [] t = "D:FIXTH"  -> PK /\ ~m.fixth /\ m.names = "orig"
      [] t = "D:ZEROOM" -> ~m.zeroom /\ m.names = "orig" /\ ~m.joint
      [] t = "D:FIXVAR1" -> ~m.fixvar /\ m.names = "orig" /\ ~m.joint
      [] t = "P:SOLVE"  -> PK /\ Linear1 /\ m.names = "orig"
      [] t = "P:GENERIC" -> m.fmt = "nonmem"
      [] t = "P:NONMEM" -> m.fmt = "generic"
      [] t = "P:UNLOAD" -> m.data
      [] t = "P:LOAD"   -> ~m.data
      [] t = "P:JOINT"  -> ~m.joint /\ ~m.zeroom /\ "X:IOV" \notin m.ext /\ m.names = "orig"
      [] t = "P:SPLIT"  -> m.joint /\ m.names = "orig"
      [] t = "P:GREEK"  -> m.names = "orig"
      [] t = "P:RENAME" -> m.names = "orig"
      [] t = "P:MU"     -> m.names = "orig"
      [] t = "O:EVAL"   -> m.data
      [] OTHER -> TRUE

Apply(t) ==
    CASE t = "S:IVORAL" -> [m EXCEPT !.ivoral = TRUE]
      [] t = "S:FO"  -> [m EXCEPT !.abs = TRUE]
      [] t = "S:PER" -> [m EXCEPT !.per = @ + 1]
      [] t = "S:TR"  -> [m EXCEPT !.tr = 2]
      [] t = "S:LAG" -> [m EXCEPT !.lag = TRUE]
      [] t = "S:ZOE" -> [m EXCEPT !.elim = "ZO"]
      [] t = "S:MM"  -> [m EXCEPT !.elim = "MM"]
      [] t \in Extension -> [m EXCEPT !.ext = @ \cup {t}]
      [] t = "D:FIXTH"  -> [m EXCEPT !.fixth = TRUE]
      [] t = "D:ZEROOM" -> [m EXCEPT !.zeroom = TRUE]
      [] t = "D:FIXVAR1" -> [m EXCEPT !.fixvar = TRUE]
      [] t = "P:SOLVE"  -> [m EXCEPT !.ode = FALSE]
      [] t = "P:GENERIC" -> [m EXCEPT !.fmt = "generic"]
      [] t = "P:NONMEM" -> [m EXCEPT !.fmt = "nonmem"]
      [] t = "P:UNLOAD" -> [m EXCEPT !.data = FALSE]
      [] t = "P:LOAD"   -> [m EXCEPT !.data = TRUE]
      [] t = "P:JOINT"  -> [m EXCEPT !.joint = TRUE]
      [] t = "P:SPLIT"  -> [m EXCEPT !.joint = FALSE]
      [] t = "P:GREEK"  -> [m EXCEPT !.names = "greek"]
      [] t = "P:RENAME" -> [m EXCEPT !.names = "given"]
      [] t = "P:FIXED"  -> [m EXCEPT !.fixth = FALSE]
      [] t = "P:NONRANDOM" -> [m EXCEPT !.zeroom = FALSE]
      [] OTHER -> m

Step(t) == /\ t \in Acts /\ Len(hist) < MaxHist /\ Enabled(t)
           /\ (IF Len(hist) = 0 THEN TRUE ELSE Class[hist[Len(hist)]] # "Observe")   \* an observation ends a history
           /\ m' = Apply(t)
           /\ hist' = Append(hist, t)
           \* the contract: only Structural / Extension steps give a new function; a Preserving step composes its renaming
           /\ ver' = IF Class[t] \in {"Structural", "Extension"} THEN ver + 1 ELSE ver
           /\ nm' = IF Class[t] = "Preserving" /\ Renaming[t] # "id" THEN Append(nm, Renaming[t]) ELSE nm

DoStructural == \E t \in Structural : Step(t)
DoExtension  == \E t \in Extension : Step(t)
DoData       == \E t \in Data : Step(t)
DoPreserving == \E t \in Preserving : Step(t)
DoObserve    == \E t \in Observe : Step(t)
Next == DoStructural \/ DoExtension \/ DoData \/ DoPreserving \/ DoObserve
Spec == Init /\ [][Next]_vars

\* The result of a transformation of a NONMEM model is also the code generated for it: where the re-read code can be
\* compared by name (no ODE system whose compartments the ADVAN template renames - C02's ground -, original names),
\* the fingerprint of read_model_from_string(result.code) must be the preserved one as well.
CodeBacked(mm) == mm.fmt = "nonmem" /\ ~mm.ode /\ mm.names = "orig"

\* ---------------------------------------------------------------- design-level checks
TypeOK == /\ m.per \in 0..2 /\ m.tr \in {0, 2} /\ m.elim \in {"FO", "ZO", "MM"} /\ m.fmt \in {"nonmem", "generic"}
          /\ m.names \in {"orig", "greek", "given"} /\ ver \in 0..MaxHist
\* every token is classified, every Preserving token declares its renaming
ASSUME ClassTotal == /\ DOMAIN Class = AllActs /\ DOMAIN Renaming = Preserving /\ DOMAIN Function = AllActs
                     /\ \A t \in AllActs : Class[t] \in {"Preserving", "Extension", "Structural", "Data", "Observe"}
\* the function version counts exactly the Structural / Extension steps of the history
VersionCounts == ver = Cardinality({i \in 1..Len(hist) : Class[hist[i]] \in {"Structural", "Extension"}})
\* at most one renaming layer is ever stacked (renamings are declared relative to original names)
OneRenaming == Len(nm) <= 1 /\ (Len(nm) = 1 <=> m.names # "orig")
\* a model without ODE system never gets one back; structural setters need one
NoOdeNoStructure == \A i \in 1..Len(hist) : hist[i] = "P:SOLVE" => \A j \in (i + 1)..Len(hist) : hist[j] \notin Structural

EmitCase == (Len(hist) >= 1 /\ Class[hist[Len(hist)]] \in {"Preserving", "Observe"}) =>
    PrintT(<<"CASE", ToJson([model |-> m.model, hist |-> hist])>>)
=============================================================================
