----------------------------- MODULE KeysTrace -----------------------------
(* C12, code -> spec.  TRACES is a JSON array of runs [events |-> <<...>>]; events
     key  proc, seed, conf, hist, label, m, p, r, s, e, d (content classes assigned by the driver with pharmpy's own ==
          and dataset equality), k (str(ModelHash(model)) computed by process proc under PYTHONHASHSEED seed)
     rt   via, cin, cout (class of the object put in / read back; 0: failed), what (type of the object)
   Every event must be an enabled action of Keys whose effect keeps Functional / Injective / TripsEqual.
   An event that is not is reported as <<"REJ", [tid, l, why, other]>> (other = an earlier observation it conflicts
   with) and skipped; runs without rejected events are reported as <<"ACC", tid>>.                       *)
EXTENDS Keys, Json, IOUtils

Traces == JsonDeserialize(IOEnv.TRACES)
VARIABLES tid, l, nrej
tvars == <<tid, l, nrej, key, seen, trips>>
Events == Traces[tid].events
Ev == Events[l]
Sig == [m |-> Ev.m, p |-> Ev.p, r |-> Ev.r, s |-> Ev.s, e |-> Ev.e, d |-> Ev.d]

TraceInit == tid \in 1..Len(Traces) /\ l = 1 /\ nrej = 0 /\ key = <<>> /\ seen = {} /\ trips = {}

CanKey == Ev.ev = "key" /\ FunctionalG(Sig, Ev.k) /\ InjectiveG(Sig, Ev.k)
CanTrip == Ev.ev = "rt" /\ Ev.cout = Ev.cin
Can == l <= Len(Events) /\ (CanKey \/ CanTrip)

TraceKey == Ev.ev = "key" /\ Key(Ev.proc, Ev.seed, Ev.conf, Ev.hist, Ev.label, Sig, Ev.k)
TraceTrip == Ev.ev = "rt" /\ RoundTrip(Ev.via, Ev.cin, Ev.cout)
Explained == /\ Can = TRUE
             /\ (TraceKey \/ TraceTrip)
             /\ l' = l + 1 /\ UNCHANGED <<tid, nrej>>
Skip == /\ l <= Len(Events) /\ Can = FALSE
        /\ l' = l + 1 /\ nrej' = nrej + 1 /\ UNCHANGED <<tid, key, seen, trips>>
TraceNext == Explained \/ Skip

Conflicting == IF Ev.ev # "key" THEN {}
               ELSE {o \in seen : (o.m = Ev.m /\ o.k # Ev.k) \/ (Listed(o, Sig) /\ o.k = Ev.k)}
Why == IF Ev.ev = "rt" THEN "roundtrip_unequal"
       ELSE IF ~FunctionalG(Sig, Ev.k) THEN "same_content_different_key"
       ELSE IF ~InjectiveG(Sig, Ev.k) THEN "different_content_same_key"
       ELSE "event not of the contract"
Other == IF Conflicting = {} THEN [hist |-> "", label |-> "", proc |-> "", seed |-> "", conf |-> "", m |-> 0]
         ELSE LET o == CHOOSE x \in Conflicting : TRUE
              IN [hist |-> o.hist, label |-> o.label, proc |-> o.proc, seed |-> o.seed, conf |-> o.conf, m |-> o.m]
EmitRej == (l <= Len(Events) /\ ~Can) => PrintT(<<"REJ", ToJson([tid |-> tid, l |-> l, why |-> Why, other |-> Other])>>)
EmitAcc == (l = Len(Events) + 1 /\ nrej = 0) => PrintT(<<"ACC", ToJson(tid)>>)
=============================================================================
