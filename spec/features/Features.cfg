\* quick tier: the five MFL categories of the PK structural search space
CONSTANTS
  Acts = {"A:INST", "A:FO", "A:ZO", "A:SEQ", "E:FO", "E:ZO", "E:MM", "E:MIX", "P:0", "P:1", "P:2", "P+", "P-", "T:0", "T:1", "T:3", "T:1N", "T:2N", "T:4N", "L:1", "L:0"}
  StartNames = {"iv1", "oral1", "iv2", "oral2", "iv3", "oral3", "zo1", "seq1", "tr2", "der1"}
  TrackHist = FALSE
  MaxHist = 0
INIT Init
NEXT Next
INVARIANT TypeOK
INVARIANT RouteGhost
INVARIANT IdemAbstract
INVARIANT UndoAbstract
INVARIANT AppliedSound
INVARIANT MFLRender
INVARIANT EmitCase
CHECK_DEADLOCK FALSE
