CONSTANTS
  MaxObjs = 3
  Contents = {c1, c2}
  Labels = {n1, n2}
  Hashes = {h1}
  Funcs = {f}
  WfBits = {"w"}
  MaxCalls = 2
  MaxObs = 0
  MaxCopies = 0
  Arity = 1
  Fault = "none"
SPECIFICATION Spec
INVARIANT TypeOK
INVARIANT ResultsWellFormed
PROPERTY Frame
CHECK_DEADLOCK FALSE
