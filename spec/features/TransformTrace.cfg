CONSTANTS
  MaxObjs = 100000
  Contents = {c1}
  Labels = {n1}
  Hashes = {h1}
  Funcs = {f}
  WfBits = {"bounds", "names", "symbols", "code"}
  MaxCalls = 100000
  MaxObs = 100000
  MaxCopies = 100000
  Arity = 1
  Fault = "none"
INIT TraceInit
NEXT TraceNext
INVARIANT EmitRej
INVARIANT EmitAcc
CHECK_DEADLOCK FALSE
