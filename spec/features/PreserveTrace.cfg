CONSTANTS
  Models = {"pheno", "mox2", "linear", "pred", "flag"}
  MaxHist = 9
  Acts = {"S:IVORAL", "S:FO", "S:PER", "S:TR", "S:LAG", "S:ZOE", "S:MM", "X:REDEF", "X:ADDIIV", "X:COVLIN", "X:COVCAT", "X:COVPW", "X:IOV", "X:BOXCOX", "X:COMB", "X:IIVRUV", "X:POWER", "X:TV", "D:FIXTH", "D:ZEROOM", "D:FIXVAR1", "P:MU", "P:DECL", "P:CLEAN", "P:SIMP", "P:GREEK", "P:RENAME", "P:SOLVE", "P:GENERIC", "P:NONMEM", "P:UNLOAD", "P:LOAD", "P:UNUSED", "P:JOINT", "P:SPLIT", "P:FIXED", "P:NONRANDOM", "O:OBS", "O:IPRED", "O:PRED", "O:ETAGRAD", "O:EPSGRAD", "O:EVAL"}
INIT TraceInit
NEXT TraceNext
INVARIANT EmitVer
CHECK_DEADLOCK FALSE
