----------------------------- MODULE EffectsDefs -----------------------------
(* C09 - the documented formulas of the model-extending transformations, as operators over
   exact rationals (ERat), and the per-event contract ("judgement") the trace validator
   applies to values logged from the real code.

   Sources: docstrings of pharmpy.modeling.add_covariate_effect (templates lin / exp / pow /
   piece_lin / cat / cat2, operation * or +), add_iiv (add / prop / exp / log / re_log),
   add_iov, transform_etas_boxcox / _tdist / _john_draper, add_allometry  P*(X/Z)**T,
   set_additive / _proportional / _combined_error_model (tables incl. the log(y) rows),
   set_power_on_ruv, set_iiv_on_ruv, set_time_varying_error_model, set_weighted_error_model,
   and the absorption / transit relations  KA = 1/MAT,  D1 = 2*MAT,  rate = n/MDT.

   Judgements are three-valued (ERat!Eq): "ok" | "bad" | "skip".  "skip" = some operand is
   UNDEF / OVERFLOW at this probe: never judged.                                         *)
EXTENDS ERat, FiniteSets, TLC

SeqSet(s) == {s[i] : i \in 1..Len(s)}

Op(op, a, b) == IF op = "*" THEN RMul(a, b) ELSE RAdd(a, b)
NeutralOf(op) == IF op = "*" THEN One ELSE Zero

ContEffects == {"lin", "exp", "pow", "piece_lin"}
CatEffects  == {"cat", "cat2"}
AllEffects  == ContEffects \cup CatEffects
\* the statistic each template is documented to be centred on
Centre == [e \in AllEffects |-> IF e \in CatEffects THEN "mode" ELSE "median"]

\* ---- covariate effect templates.  th = sequence of theta values (piece_lin: <<th1, th2>>)
CovEffect(effect, th, c, ref) ==
    LET d == RSub(c, ref) IN
    CASE effect = "lin"       -> RAdd(One, RMul(th[1], d))
      [] effect = "exp"       -> RExp2(RMul(th[1], d))
      [] effect = "pow"       -> RPow(RDiv(c, ref), th[1])
      [] effect = "piece_lin" -> LET k == RCmp(c, ref)
                                 IN IF k = 2 THEN UNDEF
                                    ELSE IF k <= 0 THEN RAdd(One, RMul(th[1], d))
                                    ELSE RAdd(One, RMul(th[2], d))
      [] OTHER -> UNDEF
\* categorical templates: value for a category other than the most common one, given ITS theta
CatVal(effect, thk) == IF effect = "cat" THEN RAdd(One, thk) ELSE thk

\* ---- eta forms of add_iiv
EtaForm(form, op, P, eta) ==
    CASE form = "add"  -> RAdd(P, eta)
      [] form = "prop" -> RMul(P, RAdd(One, eta))
      [] form = "exp"  -> Op(op, P, RExp2(eta))
      [] form = "log"  -> RMul(P, RDiv(RExp2(eta), RAdd(One, RExp2(eta))))
      \* re_log: exp(phi*eta)/(1+exp(phi*eta)), phi = log(P/(1-P))
      [] form = "re_log" -> LET phi == RLog2(RDiv(P, RSub(One, P)))
                                x == RExp2(RMul(phi, eta))
                            IN RDiv(x, RAdd(One, x))
      [] OTHER -> UNDEF

\* ---- eta transformations
EtaTransform(tr, eta, lam) ==
    CASE tr = "boxcox" -> RDiv(RSub(RPow(RExp2(eta), lam), One), lam)
      [] tr = "john_draper" -> RMul(RSign(eta), RDiv(RSub(RPow(RAdd(RAbs(eta), One), lam), One), lam))
      [] tr = "tdist" ->
            LET e2 == RMul(eta, eta)
                e4 == RMul(e2, e2)
                e6 == RMul(e4, e2)
                t1 == RDiv(RAdd(e2, One), RMul(RInt(4), lam))
                t2 == RDiv(RAdd(RMul(RInt(5), e4), RAdd(RMul(RInt(16), e2), RInt(3))),
                           RMul(RInt(96), RMul(lam, lam)))
                t3 == RDiv(RAdd(RMul(RInt(3), e6), RAdd(RMul(RInt(19), e4), RSub(RMul(RInt(17), e2), RInt(15)))),
                           RMul(RInt(384), RMul(lam, RMul(lam, lam))))
            IN RMul(eta, RAdd(One, RAdd(t1, RAdd(t2, t3))))
      [] OTHER -> UNDEF

\* ---- allometry  P*(X/Z)**T
Allometry(P, x, z, t) == RMul(P, RPow(RDiv(x, z), t))

\* ---- error models:  e1 = the proportional epsilon (or the only one), e2 = the additive one
ErrKinds == {"add", "prop", "comb"}
ErrY(kind, trans, f, e1, e2) ==
    IF trans \in {"none", "nozp"}
    THEN CASE kind = "add"  -> RAdd(f, e1)
           [] kind = "prop" -> RAdd(f, RMul(f, e1))
           [] kind = "comb" -> RAdd(f, RAdd(RMul(f, e1), e2))
           [] OTHER -> UNDEF
    ELSE \* data on the log scale
         CASE kind = "add"  -> RAdd(RLog2(f), RDiv(e1, f))
           [] kind = "prop" -> RAdd(RLog2(f), e1)
           [] kind = "comb" -> RAdd(RLog2(f), RAdd(e1, RDiv(e2, f)))
           [] OTHER -> UNDEF

\* ---- absorption / transit relations
RelKA(mat)      == RInv(mat)              \* KA = 1/MAT
RelDur(mat)     == RMul(Two, mat)         \* D1 = 2*MAT
RelTransit(n, mdt) == RDiv(RInt(n), mdt)  \* rate = n/MDT

\* =========================================================================== judgements
None == "none"
Pairs(ps) == IF Len(ps) = 0 THEN None ELSE Combine({EqLL(x[1], x[2]) : x \in SeqSet(ps)})
Rank(v) == CASE v = "ok" -> 2 [] v = "bad" -> 0 [] OTHER -> 1
V(formula, neutral, frame, undo, design) ==
    [formula |-> formula, neutral |-> neutral, frame |-> frame, undo |-> undo, design |-> design]

\* -- add_covariate_effect.  e.pts[i] = [c, th, b, a];  e.stat.median / e.stat.mode = admissible readings
CovRefs(e) == SeqSet(e.stat[Centre[e.effect]])
CatJ(e, pt) == {j \in 1..Len(pt.th) : Eq(pt.a, Op(e.op, pt.b, CatVal(e.effect, pt.th[j]))) = "ok"}
CovPt(e, pt, ref) ==
    IF e.effect \in CatEffects
    THEN IF pt.c = ref THEN Eq(pt.a, Op(e.op, pt.b, One))
         ELSE IF CatJ(e, pt) # {} THEN "ok"
         ELSE Combine({Eq(pt.a, Op(e.op, pt.b, CatVal(e.effect, pt.th[j]))) : j \in 1..Len(pt.th)})
    ELSE Eq(pt.a, Op(e.op, pt.b, CovEffect(e.effect, pt.th, pt.c, ref)))
\* each additional category has a theta of its own
CatInjective(e, ref) ==
    \A i, j \in 1..Len(e.pts) :
        (i < j /\ e.pts[i].c # ref /\ e.pts[j].c # ref /\ e.pts[i].c # e.pts[j].c)
            => CatJ(e, e.pts[i]) \cap CatJ(e, e.pts[j]) = {}
CovFormula(e, ref) ==
    LET v == Combine({CovPt(e, e.pts[i], ref) : i \in 1..Len(e.pts)})
    IN IF v = "ok" /\ e.effect \in CatEffects /\ ~CatInjective(e, ref) THEN "bad" ELSE v
CovNeutral(e, ref) == Combine({EqLL(e.pts[i].a, e.pts[i].b) : i \in {k \in 1..Len(e.pts) : e.pts[k].c = ref}})
CovScore(e, ref) == 3 * Rank(CovFormula(e, ref)) + Rank(CovNeutral(e, ref))
CovBest(e) == CHOOSE r \in CovRefs(e) : \A r2 \in CovRefs(e) : CovScore(e, r) >= CovScore(e, r2)
Unchanged(e) == Combine({EqLL(e.pts[i].a, e.pts[i].b) : i \in 1..Len(e.pts)})

JudgeAddCov(e, noop) ==
    IF noop THEN V(Unchanged(e), None, Pairs(e.frame), None, None)
    \* ref = the admissible centre under which the event is explained best (reported: which reading the code follows)
    ELSE LET r == CovBest(e) IN V(CovFormula(e, r), CovNeutral(e, r), Pairs(e.frame), None, None) @@ [ref |-> r]

\* -- remove_covariate_effect: the parameter no longer depends on the covariate (pts: [a1, a2] at two
\*    values of the covariate); everything else unchanged; undo pairs when it follows its own add
JudgeRmCov(e, undoes) ==
    V(Pairs(e.indep), None, Pairs(e.frame), IF undoes THEN Pairs(e.undo) ELSE None, None)

\* -- add_iiv: pts [eta, b, a]
JudgeAddIIV(e) ==
    V(Combine({Eq(e.pts[i].a, EtaForm(e.form, e.op, e.pts[i].b, e.pts[i].eta)) : i \in 1..Len(e.pts)}),
      Combine({EqLL(e.pts[i].a, e.pts[i].b) : i \in {k \in 1..Len(e.pts) : e.pts[k].eta = Zero}}),
      Pairs(e.frame), None, None)
\* -- remove_iiv: pts [b0, a]  (b0 = the parameter before, with its etas at zero)
JudgeRmIIV(e, undoes) ==
    V(Pairs(e.indep), None, Pairs(e.frame), IF undoes THEN Pairs(e.undo) ELSE None,
      Combine({EqLL(e.pts[i].a, e.pts[i].b0) : i \in 1..Len(e.pts)}))

\* -- add_iov: pts [eta, kap, a, bt] with bt = <<<<eta value, parameter value before>>, ...>>:
\*    the parameter after, on an occasion whose new eta is kap, is the parameter before at eta + kap
Lookup(bt, x) == IF \E i \in 1..Len(bt) : bt[i][1] = x
                 THEN bt[CHOOSE i \in 1..Len(bt) : bt[i][1] = x][2] ELSE UNDEF
\* each occasion has an eta of its own: pt.kaps = values of all new etas, the occasion's eta is one of them
IovJ(pt) == {j \in 1..Len(pt.kaps) : Eq(pt.a, Lookup(pt.bt, RAdd(pt.eta, pt.kaps[j]))) = "ok"}
IovPt(pt) == IF IovJ(pt) # {} THEN "ok"
             ELSE Combine({Eq(pt.a, Lookup(pt.bt, RAdd(pt.eta, pt.kaps[j]))) : j \in 1..Len(pt.kaps)})
IovInjective(e) ==
    \A i, j \in 1..Len(e.pts) :
        (e.pts[i].lev # e.pts[j].lev /\ e.pts[i].kaps[1] # Zero /\ e.pts[j].kaps[1] # Zero)
            => IovJ(e.pts[i]) \cap IovJ(e.pts[j]) = {}
JudgeAddIOV(e) ==
    LET f == Combine({IovPt(e.pts[i]) : i \in 1..Len(e.pts)})
    IN V(IF f = "ok" /\ ~IovInjective(e) THEN "bad" ELSE f,
         Combine({Eq(e.pts[i].a, Lookup(e.pts[i].bt, e.pts[i].eta)) : i \in {k \in 1..Len(e.pts) : e.pts[k].kaps[1] = Zero}}),
         Pairs(e.frame), None, None)
\* remove_iov / remove_iiv: "the etas at zero" is the natural reading but not stated: design layer; the property is the undo
JudgeRmIOV(e, undoes) ==
    V(None, None, None, IF undoes THEN Pairs(e.undo) ELSE None,
      Combine({EqLL(e.pts[i].a, e.pts[i].b0) : i \in 1..Len(e.pts)}))

\* -- eta transformations: pts [eta, lam, t, b, a]; t = value of the transformed eta variable.
\*    boxcox / john_draper formulas are shown in full in the docstrings (property layer); the
\*    t-distribution series is only partly shown: design layer.
JudgeTransform(e) ==
    LET f == Combine({Eq(e.pts[i].t, EtaTransform(e.tr, e.pts[i].eta, e.pts[i].lam)) : i \in 1..Len(e.pts)})
    IN V(IF e.tr = "tdist" THEN None ELSE f,
         Combine({EqLL(e.pts[i].a, e.pts[i].b) : i \in {k \in 1..Len(e.pts) : e.pts[k].eta = Zero}}),
         Pairs(e.frame), None, IF e.tr = "tdist" THEN f ELSE None)

\* -- add_allometry: pts [x, z, t, b, a]
\* must = the volume parameters the machine expects to be scaled: each of them got an exponent (e.targets)
JudgeAllometry(e, noop, must) ==
    IF noop THEN V(Unchanged(e), None, Pairs(e.frame), None, None)
    ELSE V(Combine({Eq(e.pts[i].a, Allometry(e.pts[i].b, e.pts[i].x, e.pts[i].z, e.pts[i].t)) : i \in 1..Len(e.pts)}
                   \cup {IF must \subseteq SeqSet(e.targets) THEN "ok" ELSE "bad"}),
           Combine({EqLL(e.pts[i].a, e.pts[i].b) : i \in {k \in 1..Len(e.pts) : e.pts[k].x = e.pts[k].z}}),
           Pairs(e.frame), None, None)

\* -- error model setters: pts [e1, e2, f, a]; frame = the prediction and everything before it
JudgeSetErr(e) ==
    V(Combine({Eq(e.pts[i].a, ErrY(e.kind, e.trans, e.pts[i].f, e.pts[i].e1, e.pts[i].e2)) : i \in 1..Len(e.pts)}),
      None, Pairs(e.frame), None, None)
JudgeRmErr(e) ==
    V(Combine({EqLL(e.pts[i].a, e.pts[i].f) : i \in 1..Len(e.pts)}), None, Pairs(e.frame), None, None)
\* -- set_power_on_ruv: the factor of each epsilon becomes f**theta: pts [e1, e2, th1, th2, f, yb, a, nref]
JudgePower(e) ==
    V(Combine({Eq(e.pts[i].a, RAdd(e.pts[i].f, RAdd(RMul(e.pts[i].e1, RPow(e.pts[i].f, e.pts[i].th1)),
                                                    RMul(e.pts[i].e2, RPow(e.pts[i].f, e.pts[i].th2)))))
               : i \in 1..Len(e.pts)}),
      Combine({EqLL(e.pts[i].a, e.pts[i].yb) : i \in {k \in 1..Len(e.pts) : e.pts[k].nref}}),
      Pairs(e.frame), None, None)
\* -- set_iiv_on_ruv: every epsilon is multiplied with EXP(eta): pts [eta, f, yb, a]
JudgeIIVRuv(e) ==
    V(Combine({Eq(e.pts[i].a, RAdd(e.pts[i].f, RMul(RSub(e.pts[i].yb, e.pts[i].f), RExp2(e.pts[i].eta)))) : i \in 1..Len(e.pts)}),
      Combine({EqLL(e.pts[i].a, e.pts[i].yb) : i \in {k \in 1..Len(e.pts) : e.pts[k].eta = Zero}}),
      Pairs(e.frame), None, None)
\* -- set_time_varying_error_model: before the cutoff every epsilon is scaled by theta: pts [t, cut, th, f, yb, a]
JudgeTimeVar(e) ==
    V(Combine({LET pt == e.pts[i]
                   k == RCmp(pt.t, pt.cut)
               IN IF k = 2 THEN "skip"
                  ELSE IF k < 0 THEN Eq(pt.a, RAdd(pt.f, RMul(RSub(pt.yb, pt.f), pt.th)))
                  ELSE EqLL(pt.a, pt.yb) : i \in 1..Len(e.pts)}),
      Combine({EqLL(e.pts[i].a, e.pts[i].yb) : i \in {k \in 1..Len(e.pts) : e.pts[k].th = One \/ RCmp(e.pts[k].t, e.pts[k].cut) \in {0, 1}}}),
      Pairs(e.frame), None, None)
\* -- set_weighted_error_model on a one-epsilon model: same function of the epsilon: pts [yb, a]
JudgeWeighted(e) ==
    V(Combine({EqLL(e.pts[i].a, e.pts[i].yb) : i \in 1..Len(e.pts)}), None, Pairs(e.frame), None, None)

\* -- create_joint_distribution on the epsilons: the model function is the same function of the epsilons: pts [yb, a]
JudgeJoinEps(e) ==
    V(Combine({EqLL(e.pts[i].a, e.pts[i].yb) : i \in 1..Len(e.pts)}), None, Pairs(e.frame), None, None)

\* -- absorption / transit setters: obs = [ka, dur, mat, mdt, rates, n], absent observables are UNDEF
AbsRel(kind, o) ==
    CASE kind = "FO"  -> {Eq(o.ka, RelKA(o.mat))}
      \* (coming from SEQ-ZO-FO the zero-order part keeps its own time parameter, MDT)
      [] kind = "ZO"  -> {IF Eq(o.dur, RelDur(o.mdt)) = "ok" THEN "ok" ELSE Eq(o.dur, RelDur(o.mat))}
      [] kind = "SEQ" -> {Eq(o.ka, RelKA(o.mat)), Eq(o.dur, RelDur(o.mdt))}
      [] kind = "TRANSIT" -> {Eq(o.rates[i], RelTransit(o.n, o.mdt)) : i \in 1..Len(o.rates)}
                             \cup {IF Len(o.rates) = o.n THEN "ok" ELSE "bad"}
      [] OTHER -> {}
\* abs = absorption model of the post-state, transits = its number of transit compartments
JudgeAbs(e, abs, transits) ==
    V(Combine(UNION {AbsRel(abs, e.obs[i]) \cup (IF transits > 0 THEN AbsRel("TRANSIT", e.obs[i]) ELSE {})
                     : i \in 1..Len(e.obs)}),
      Pairs(e.keep), Pairs(e.frame), None, None)
=============================================================================
