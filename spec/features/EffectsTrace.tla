---------------------------- MODULE EffectsTrace ----------------------------
(* C09, code -> spec.  Every history the driver executed on the real pharmpy functions is a
   trace: one event per call, carrying the action record (the one TLC emitted) and exact
   rational probe values computed on the real models before / after the call (harness
   qeval: individual parameters, F, Y at eps in {-1, 0, 1}, the thetas the driver assigned,
   the covariate probe value, the dataset statistics the driver computed from model.dataset).

   The validator re-uses the machine of Effects: the logged call must be an enabled action
   of the state reached so far (m' = Apply(m, act)); whether the call is a documented no-op
   and whether it undoes the previous call is decided here, from the machine state.  TLC then
   evaluates the documented formula (EffectsDefs) on the logged values and records a
   judgement per event; the judgements of a completely explained trace are printed.        *)
EXTENDS Effects, IOUtils

Traces == JsonDeserialize(IOEnv.TRACES)
VARIABLES tid, l, ver
tvars == <<tid, l, ver, m, hist, ms>>

Events == Traces[tid].events
Ev == Events[l]

TraceInit == /\ tid \in 1..Len(Traces) /\ l = 1 /\ ver = <<>>
             /\ m = Start(Traces[tid].model) /\ hist = <<>> /\ ms = <<m>>

Judge(e, mm, h, mseq) ==
    LET a == e.act
        undoes == Len(h) >= 1 /\ Undoes(mseq[Len(mseq) - 1], h[Len(h)], a)
    IN CASE a.k = "addcov"    -> JudgeAddCov(e, Noop(mm, a))
         [] a.k = "rmcov"     -> JudgeRmCov(e, undoes)
         [] a.k = "addiiv"    -> JudgeAddIIV(e)
         [] a.k = "rmiiv"     -> JudgeRmIIV(e, undoes)
         [] a.k = "addiov"    -> JudgeAddIOV(e)
         [] a.k = "rmiov"     -> JudgeRmIOV(e, undoes)
         [] a.k = "transform" -> JudgeTransform(e)
         [] a.k = "allometry" -> JudgeAllometry(e, Noop(mm, a), AlloVolumeTargets(mm, a))
         [] a.k = "seterr"    -> JudgeSetErr(e)
         [] a.k = "rmerr"     -> JudgeRmErr(e)
         [] a.k = "power"     -> JudgePower(e)
         [] a.k = "iivruv"    -> JudgeIIVRuv(e)
         [] a.k = "timevar"   -> JudgeTimeVar(e)
         [] a.k = "weighted"  -> JudgeWeighted(e)
         [] a.k = "joineps"   -> JudgeJoinEps(e)
         [] a.k \in {"abs", "transit"} -> JudgeAbs(e, Apply(mm, a).abs, Apply(mm, a).transits)
         [] a.k \in {"reread", "elim"} -> V(None, None, None, None, None)      \* a generator step: nothing of this property to judge
         [] OTHER -> V("bad", None, None, None, None)

\* one event = one action of the machine + the contract on the logged values
TraceStep == /\ l <= Len(Events)
             /\ Enabled(m, Ev.act)
             /\ m' = Apply(m, Ev.act)
             /\ hist' = Append(hist, Ev.act)
             /\ ms' = Append(ms, m')
             /\ ver' = Append(ver, Judge(Ev, m, hist, ms))
             /\ l' = l + 1 /\ UNCHANGED tid
TraceNext == TraceStep
TraceSpec == TraceInit /\ [][TraceNext]_tvars

Done == l = Len(Events) + 1
EmitVer == Done => PrintT(<<"VER", ToJson([tid |-> tid, ver |-> ver])>>)
=============================================================================
