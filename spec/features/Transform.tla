------------------------------ MODULE Transform ------------------------------
(* C06 -- "Models are immutable values: no API call changes its input; equal means equal".

   A contract specification over an OBJECT STORE.  Objects (models and their components) have
   ids 1..Len(snap); snap[o] is the digest of everything observable about o (dataset bytes,
   dtypes, columns, index, column metadata, parameters, random variables, statements, generated
   code, name, description ...), wf[o] the set of well-formedness bits that hold for o.

   Named actions = what a client can do with values of the public API:
     Load       an object enters the store (read from a file / built by a constructor)
     CallFresh  f(args) returned an object that was not in the store
     CallSame   f(args) returned an object of the store (e.g. its own argument: nothing to do)
     CallValue  f(args) returned a plain value (number, table, text) that is not tracked
     CallRaise  f(args) raised
     CopyOf     copy.copy / copy.deepcopy
     Observe    a == b and hash(a), hash(b) were evaluated
   The FRAME condition is built into every action: entries of snap / wf that exist are kept,
   whether the call returns or raises (property Frame); results of calls on well-formed arguments
   are well formed (ResultsWellFormed; garbage in is not judged).

   Reference model of "immutable value" used for the design-level theorem: the digest of an object
   IS its value, a pair <<content, label>>; == compares contents only (pharmpy's == ignores name
   and description), hash is a function hfun of the content chosen arbitrarily in Init (collisions
   allowed).  TLC proves in the bounded instance that in this model equality is an equivalence
   (on every logged triple), a == b => hash(a) = hash(b), copies are equal to their originals and
   the frame holds -- and, with Fault # "none" (TransformBad*.cfg), that each of the invariants is
   violated by the corresponding faulty implementation (non-vacuity).

   code -> spec: TransformTrace.tla re-uses these actions with the digests / eq / hash values that
   the monitor logged on real pharmpy objects.
   spec -> code: with TransformPlans.cfg TLC enumerates all call plans over the function alphabet
   Funcs (sequence of calls, each applied to the base object or to the result of an earlier call);
   the driver replays them on real models under the monitor.                                   *)
EXTENDS Naturals, Sequences, FiniteSets, TLC, Json

CONSTANTS MaxObjs,   \* bound on the store
          Contents,  \* what == compares
          Labels,    \* what == ignores (name, description)
          Hashes,
          Funcs,     \* function alphabet
          WfBits,    \* names of the well-formedness bits
          MaxCalls, MaxObs, MaxCopies,
          Arity,     \* calls take 1..Arity store objects
          Fault      \* "none" | "mutate" | "idhash" | "stalehash" | "novalidate" | "badcopy" | "eqstate"

Vals == Contents \X Labels
Cls(v) == v[1]

VARIABLES snap,    \* Seq of digests, one per object
          wf,      \* Seq of subsets of WfBits
          hfun,    \* the hash function of this process: content -> hash
          eqobs,   \* logged observations [a, b, eq]
          hobs,    \* logged hashes: set of <<object, hash>>
          copies,  \* logged <<original, copy>>
          calls    \* history of calls [f, args, out, res]

vars == <<snap, wf, hfun, eqobs, hobs, copies, calls>>
Objs == 1..Len(snap)
AllWf(args) == \A i \in DOMAIN args : wf[args[i]] = WfBits
ArgsOK(args) == args # <<>> /\ \A i \in DOMAIN args : args[i] \in Objs
Logged(f, args, out, res) == calls' = Append(calls, [f |-> f, args |-> args, out |-> out, res |-> res])
NoObs == UNCHANGED <<hfun, eqobs, hobs, copies>>

Init == /\ snap = <<>> /\ wf = <<>> /\ eqobs = {} /\ hobs = {} /\ copies = {} /\ calls = <<>>
        /\ hfun \in [Contents -> Hashes]

\* Every action is  guard (a state predicate, named ...G, re-used by TransformTrace) /\ effect.
LoadG == Len(snap) < MaxObjs
Load(v, w) ==
    /\ LoadG
    /\ snap' = Append(snap, v) /\ wf' = Append(wf, w)
    /\ UNCHANGED calls /\ NoObs

CallFreshG(args, w) ==
    /\ Len(calls) < MaxCalls /\ Len(snap) < MaxObjs /\ ArgsOK(args)
    /\ AllWf(args) => w = WfBits                 \* results are well formed (garbage in is not judged)
CallFresh(f, args, v, w) ==
    /\ CallFreshG(args, w)
    /\ snap' = Append(snap, v) /\ wf' = Append(wf, w)        \* frame: every existing entry is kept
    /\ Logged(f, args, "returned", Len(snap) + 1) /\ NoObs

CallSameG(args, o) ==
    /\ Len(calls) < MaxCalls /\ ArgsOK(args) /\ o \in Objs
    /\ AllWf(args) => wf[o] = WfBits
CallSame(f, args, o) ==
    /\ CallSameG(args, o)
    /\ UNCHANGED <<snap, wf>>
    /\ Logged(f, args, "returned", o) /\ NoObs

CallOtherG(args) == Len(calls) < MaxCalls /\ ArgsOK(args)
CallValue(f, args) ==
    /\ CallOtherG(args)
    /\ UNCHANGED <<snap, wf>>
    /\ Logged(f, args, "value", 0) /\ NoObs

CallRaise(f, args) ==
    /\ CallOtherG(args)
    /\ UNCHANGED <<snap, wf>>                      \* frame: also when the call raises
    /\ Logged(f, args, "raised", 0) /\ NoObs

\* c = o (Immutable.__copy__ returns self) or a new object with the same digest
CopyOfG(o, c, v) ==
    /\ o \in Objs /\ Cardinality(copies) < MaxCopies
    /\ c = o \/ (c = Len(snap) + 1 /\ Len(snap) < MaxObjs /\ v = snap[o])
CopyOf(o, c, v) ==
    /\ CopyOfG(o, c, v)
    /\ IF c = o THEN UNCHANGED <<snap, wf>>
                ELSE snap' = Append(snap, v) /\ wf' = Append(wf, wf[o])
    /\ copies' = copies \cup {<<o, c>>}
    /\ UNCHANGED <<hfun, eqobs, hobs, calls>>

\* a == b evaluated to r; hash(a) = ha, hash(b) = hb.  The hash of an object never changes.
ObserveG(a, b, ha, hb) ==
    /\ a \in Objs /\ b \in Objs /\ Cardinality(eqobs) < MaxObs
    /\ \A p \in hobs : (p[1] = a => p[2] = ha) /\ (p[1] = b => p[2] = hb)
    /\ a = b => ha = hb
Observe(a, b, r, ha, hb) ==
    /\ ObserveG(a, b, ha, hb)
    /\ eqobs' = eqobs \cup {[a |-> a, b |-> b, eq |-> r]}
    /\ hobs' = hobs \cup {<<a, ha>>, <<b, hb>>}
    /\ UNCHANGED <<snap, wf, hfun, copies, calls>>

\* ----- the reference model: values
Equal(a, b) == Cls(snap[a]) = Cls(snap[b])
H(o) == hfun[Cls(snap[o])]

ArgSeqs == UNION {[1..n -> Objs] : n \in 1..Arity}
DoLoad == \E v \in Vals, w \in SUBSET WfBits : Load(v, w)
DoCallFresh == \E f \in Funcs, args \in ArgSeqs, v \in Vals, w \in SUBSET WfBits : CallFresh(f, args, v, w)
DoCallSame == \E f \in Funcs, args \in ArgSeqs, o \in Objs : CallSame(f, args, o)
DoCallValue == \E f \in Funcs, args \in ArgSeqs : CallValue(f, args)
DoCallRaise == \E f \in Funcs, args \in ArgSeqs : CallRaise(f, args)
DoCopy == \E o \in Objs : CopyOf(o, o, snap[o]) \/ CopyOf(o, Len(snap) + 1, snap[o])
DoObserve == \E a, b \in Objs : Observe(a, b, Equal(a, b), H(a), H(b))

\* ----- faulty implementations (only enabled by the TransformBad*.cfg controls)
\* a call that assigns into its argument (df[col] = ... on model.dataset) before returning or raising
BadMutate == /\ Fault = "mutate" /\ Len(calls) < MaxCalls
             /\ \E f \in Funcs, o \in Objs, v \in Vals :
                  /\ v # snap[o]
                  /\ snap' = [snap EXCEPT ![o] = v] /\ UNCHANGED wf
                  /\ Logged(f, <<o>>, "raised", 0) /\ NoObs
\* __hash__ computed from the identity of a mutable sub-object instead of its content
BadIdHash == /\ Fault = "idhash"
             /\ \E a, b \in Objs, ha, hb \in Hashes : a # b /\ Observe(a, b, Equal(a, b), ha, hb)
\* replace() that skips validation
BadNoValidate == /\ Fault = "novalidate"
                 /\ \E f \in Funcs, o \in Objs, v \in Vals, w \in SUBSET WfBits :
                      /\ Len(calls) < MaxCalls /\ Len(snap) < MaxObjs
                      /\ snap' = Append(snap, v) /\ wf' = Append(wf, w)
                      /\ Logged(f, <<o>>, "returned", Len(snap) + 1) /\ NoObs
\* copy that loses a field
BadCopy == /\ Fault = "badcopy" /\ Len(snap) < MaxObjs
           /\ \E o \in Objs, v \in Vals :
                /\ Cls(v) # Cls(snap[o])
                /\ snap' = Append(snap, v) /\ wf' = Append(wf, wf[o])
                /\ copies' = copies \cup {<<o, Len(snap) + 1>>}
                /\ UNCHANGED <<hfun, eqobs, hobs, calls>>
\* a derived object keeps the cached hash of the object it was derived from (replace() copying _hash): it reports the
\* hash of another content, while an equal object derived from a never-hashed original reports its own
BadStaleHash == /\ Fault = "stalehash"
                /\ \E a, b, c \in Objs : a # b /\ Equal(a, b) /\ ~Equal(a, c) /\ Observe(a, b, TRUE, H(c), H(b))
\* == that depends on something else than the two values (e.g. raises / answers differently per direction)
BadEq == /\ Fault = "eqstate"
         /\ \E a, b \in Objs, r \in BOOLEAN : Observe(a, b, r, H(a), H(b))

Next == DoLoad \/ DoCallFresh \/ DoCallSame \/ DoCallValue \/ DoCallRaise \/ DoCopy \/ DoObserve
NextBad == Next \/ BadMutate \/ BadIdHash \/ BadStaleHash \/ BadNoValidate \/ BadCopy \/ BadEq
Spec == Init /\ [][Next]_vars
SpecBad == Init /\ [][NextBad]_vars

\* ----- the property, over the logged observations only (so that it can be evaluated on real traces)
EqHashOK(E, Hs) == \A e \in E : e.eq = TRUE => \A p, q \in Hs : (p[1] = e.a /\ q[1] = e.b) => p[2] = q[2]
ReflexiveOK(E) == \A e \in E : e.a = e.b => e.eq = TRUE
SymmetricOK(E) == \A e1, e2 \in E : (e1.a = e2.b /\ e1.b = e2.a) => e1.eq = e2.eq
TransitiveOK(E) == \A e1, e2 \in E : (e1.eq = TRUE /\ e2.eq = TRUE /\ e1.b = e2.a) =>
                       \A e3 \in E : (e3.a = e1.a /\ e3.b = e2.b) => e3.eq = TRUE
CopyOK(E, C) == \A p \in C : \A e \in E : ((e.a = p[1] /\ e.b = p[2]) \/ (e.a = p[2] /\ e.b = p[1])) => e.eq = TRUE

EqImpliesHash == EqHashOK(eqobs, hobs)
EqReflexive == ReflexiveOK(eqobs)
EqSymmetric == SymmetricOK(eqobs)
EqTransitive == TransitiveOK(eqobs)
CopyEqual == CopyOK(eqobs, copies) /\ \A p \in copies : snap[p[1]] = snap[p[2]]
ResultsWellFormed == \A i \in DOMAIN calls : LET c == calls[i] IN
                        (c.out = "returned" /\ AllWf(c.args)) => wf[c.res] = WfBits
TypeOK == /\ Len(snap) = Len(wf) /\ Len(snap) <= MaxObjs
          /\ \A p \in hobs : p[1] \in Objs
          /\ \A e \in eqobs : e.a \in Objs /\ e.b \in Objs
Frame == [][\A o \in Objs : snap'[o] = snap[o] /\ wf'[o] = wf[o]]_vars

\* ----- case emission: call plans over the alphabet (TransformPlans.cfg)
AllFresh == \A i \in DOMAIN calls : calls[i].out = "returned" /\ calls[i].res = i + 1
PlanConstraint == AllFresh /\ Len(snap) <= Len(calls) + 1
Plan == [i \in DOMAIN calls |-> [f |-> calls[i].f, arg |-> calls[i].args[1]]]
EmitPlan == (Len(calls) >= 1 /\ AllFresh /\ Len(snap) = Len(calls) + 1) => PrintT(<<"CASE", ToJson(Plan)>>)
=============================================================================
