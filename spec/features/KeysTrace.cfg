CONSTANTS
  Sigmas = {}
  Labels = {}
  Procs = {}
  Seeds = {}
  Confs = {}
  Hists = {}
  Vias = {}
  MaxObs = 1000000
  MaxTrips = 1000000
  Fault = "none"
INIT TraceInit
NEXT TraceNext
INVARIANT EmitRej
INVARIANT EmitAcc
CHECK_DEADLOCK FALSE
