------------------------------- MODULE Effects -------------------------------
(* C09 - history machine of the model-extending transformations.

   State m = which extensions a model carries (per individual parameter an ordered list of
   covariate effects / eta forms / IOV / allometry; the error model and its decorations; the
   absorption model).  One named action per public function.  TLC chooses the histories
   (which parameter x covariate x effect x operation, which eta form, which error model ...)
   and emits each as a CASE for the driver.

   The machine carries an abstract semantics Sem(m, p, pt): the value of individual parameter
   p at a probe point, computed with the documented formulas of EffectsDefs in an abstract
   world (base values, covariate values, centres are small rationals).  On it TLC proves the
   design-level theorems of the property for every history in the bound:
       NeutralMul     a multiplicative covariate effect leaves p unchanged at cov = centre
       NeutralEta     add / prop / multiplicative exp etas, IOV and eta transformations leave p unchanged at eta = 0
       NeutralAllo    allometry leaves p unchanged at X = Z
       UndoRestores   Remove after its Add restores every value
       FrameAbs       an extension of p changes no other parameter
   and records where the *documented* formula itself is not neutral (DocOffsets): additive
   templates (p + 1 at the centre), exp etas with operation + (p + 1), logit etas (p / 2).
   The property layer demands neutrality there too: NeutralAll (checked with EffectsDoc.cfg)
   is violated by the documentation alone - the design-level form of the known findings.   *)
EXTENDS EffectsDefs, Json

CONSTANTS Models,     \* subset of {"pheno", "mox2"}
          MaxHist,    \* length of histories
          Groups      \* action groups enabled: subset of {"cov", "eta", "err", "abs"}

VARIABLES m, hist, ms   \* ms = states along the history (ms[1] = start), for the action properties
vars == <<m, hist, ms>>

\* ---------------------------------------------------------------- the corpus, abstractly
\* ctype: "cont" | "cat" | "both" (a few integer levels: usable with either family of templates)
\* noiiv: parameters of the start model without an eta.  "phenoexp" = pheno written by hand with the covariate
\* effect on CL inside an exponential, CL = TVCL*EXP(THETA(4)*(WGT - 1.3)), and no eta on CL: an exp eta added to it
\* shares the exponential with the covariate term
World(name) ==
    CASE name = "pheno" ->
         [params |-> {"CL", "VC"},
          ctype  |-> [WGT |-> "cont", APGR |-> "both", FA1 |-> "cat"],
          cov0   |-> {<<"CL", "WGT">>, <<"VC", "WGT">>, <<"VC", "APGR">>},
          occ    |-> "FA1", allovar |-> "WGT", abs0 |-> "INST", noiiv |-> {}, ndv |-> 1, err0 |-> "prop"]
      \* pheno with a metabolite compartment (add_metabolite): two dependent variables Y (DVID 1) and Y_M (DVID 2), both given
      \* an additive error model by the driver (err0), so that two steps reach "proportional on 1, then proportional on 2";
      \* only the error-model setters with a dv argument are explored on it
      [] name = "pheno2dv" ->
         [params |-> {"CL", "VC"},
          ctype  |-> [WGT |-> "cont", APGR |-> "both", FA1 |-> "cat"],
          cov0   |-> {<<"CL", "WGT">>, <<"VC", "WGT">>, <<"VC", "APGR">>},
          occ    |-> "FA1", allovar |-> "WGT", abs0 |-> "INST", noiiv |-> {}, ndv |-> 2, err0 |-> "add"]
      [] name = "phenoexp" ->
         [params |-> {"CL", "V"},
          ctype  |-> [WGT |-> "cont", APGR |-> "both", FA1 |-> "cat"],
          cov0   |-> {<<"CL", "WGT">>, <<"V", "WGT">>, <<"V", "APGR">>},
          occ    |-> "FA1", allovar |-> "WGT", abs0 |-> "INST", noiiv |-> {"CL"}, ndv |-> 1, err0 |-> "prop"]
      [] OTHER ->
         [params |-> {"CL", "VC", "MAT"},
          ctype  |-> [WT |-> "cont", AGE |-> "cont", SEX |-> "cat", CLCR |-> "cont"],
          cov0   |-> {},
          occ    |-> "VISI", allovar |-> "WT", abs0 |-> "FO", noiiv |-> {}, ndv |-> 1, err0 |-> "prop"]
CovsOf(w) == DOMAIN w.ctype
EffectsFor(t) == CASE t = "cont" -> ContEffects [] t = "cat" -> CatEffects [] OTHER -> AllEffects
AlloParams == {"CL", "VC", "V"}     \* clearance and volume parameters

Start(name) ==
    LET w == World(name) IN
    [model |-> name,
     ext   |-> [p \in w.params |->
                   \* effects of the start model are opaque ("base"), its etas are exponential
                   IF p \in w.noiiv THEN <<>> ELSE <<[k |-> "iiv", form |-> "exp", op |-> "*"]>>],
     cov   |-> w.cov0,
     iov   |-> {},
     tr    |-> "none",
     allo  |-> FALSE,
     err   |-> [kind |-> w.err0, trans |-> "none"],      \* error model of the first (default) dependent variable
     err2  |-> [kind |-> w.err0, trans |-> "none"],      \* ... of the second one (worlds with ndv = 2)
     elim  |-> "FO",                                     \* elimination: FO | MM | ZO | MIX
     nodepot |-> FALSE,                                  \* the transit chain was put on a model without depot
     deco  |-> {},
     epsjoint |-> FALSE,                                 \* the epsilons of the error model sit in ONE joint (BLOCK) distribution
     abs   |-> w.abs0,
     transits |-> 0]

Init == /\ \E n \in Models : m = Start(n)
        /\ hist = <<>>
        /\ ms = <<m>>

W == World(m.model)
NIiv(mm, p) == Cardinality({i \in 1..Len(mm.ext[p]) : mm.ext[p][i].k = "iiv"})

\* ---------------------------------------------------------------- actions (flat records: they travel as JSON)
A(k, p, c, x, y) == [k |-> k, p |-> p, c |-> c, x |-> x, y |-> y]
\* add_covariate_effect(model, p, c, effect=x, operation=y)
ActAddCov == {A("addcov", p, c, e, op) : p \in W.params, c \in CovsOf(W), e \in AllEffects, op \in {"*", "+"}}
ActRmCov  == {A("rmcov", p, c, "", "") : p \in W.params, c \in CovsOf(W)}
\* add_iiv(model, p, expression=x, operation=y)
IivForms  == {<<"add", "*">>, <<"prop", "*">>, <<"exp", "*">>, <<"exp", "+">>, <<"log", "*">>, <<"re_log", "*">>}
ActAddIIV == {A("addiiv", p, "", f[1], f[2]) : p \in W.params, f \in IivForms}
ActRmIIV  == {A("rmiiv", p, "", "", "") : p \in W.params}
ActAddIOV == {A("addiov", p, W.occ, "", "") : p \in W.params}
ActRmIOV  == {A("rmiov", "", "", "", "")}
ActTransform == {A("transform", p, "", t, "") : p \in W.params, t \in {"boxcox", "tdist", "john_draper"}}
ActAllometry == {A("allometry", "", W.allovar, "", "")}
\* set_<x>_error_model(model, dv=c, data_trans=y): c = "" is the default (first) dependent variable; on a model with
\* two dependent variables the dv argument "1" / "2" is part of the alphabet (additive / proportional, untransformed)
ActSetErr == IF W.ndv = 1 THEN {A("seterr", "", "", k, t) : k \in ErrKinds, t \in {"none", "log"}}
             \* y = "nozp": set_proportional_error_model(..., zero_protection=False); "none" = the default (protection on)
             ELSE {A("seterr", "", d, "add", "none") : d \in {"1", "2"}}
                  \cup {A("seterr", "", d, "prop", z) : d \in {"1", "2"}, z \in {"none", "nozp"}}
ActRmErr  == {A("rmerr", "", "", "", "")}
ActDeco   == {A(d, "", "", "", "") : d \in {"power", "iivruv", "timevar", "weighted"}}
\* create_joint_distribution(model, <all epsilons>): a generator step on the random-variable structure (correlated
\* residual errors); the model function does not change (judged: Y unchanged), but every later decoration that says
\* "every epsilon" has to find the epsilons inside one distribution
ActJoinEps == {A("joineps", "", "", "", "")}
ActAbs    == {A("abs", "", "", a, "") : a \in {"FO", "ZO", "SEQ", "INST"}}
ActTransit == {A("transit", "", "", n, "") : n \in {"0", "1", "3"}}
\* write the model and read it back (model.code -> read_model_from_string): the function is C02's to keep; here it
\* only puts a round trip between two setters, so that they meet the re-read form of the model (named rates K12 = n/MDT)
ActReread == {A("reread", "", "", "", "")}
\* set_michaelis_menten / zero_order / mixed_mm_fo_elimination: structural steps (C08's), here generators that change which
\* parameters are clearances and volumes before add_allometry
ActElim == {A("elim", "", "", e, "") : e \in {"MM", "ZO", "MIX"}}

\* the mean absorption time exists as an individual parameter only while the model has an absorption phase
\* ... and the clearance CL only while the elimination is (at least partly) first order
HasParam(mm, p) == /\ (p = "MAT" => mm.abs \in {"FO", "ZO", "SEQ"})
                   /\ (p = "CL" => mm.elim \in {"FO", "MIX"})
Enabled(mm, a) ==
    LET w == World(mm.model) IN
    HasParam(mm, a.p) /\
    CASE a.k = "addcov"  -> a.x \in EffectsFor(w.ctype[a.c])
      [] a.k = "rmcov"   -> <<a.p, a.c>> \in mm.cov
      \* a second eta on one parameter would need explicit names for the eta and its variance: not in the alphabet
      [] a.k = "addiiv"  -> NIiv(mm, a.p) = 0 /\ mm.tr = "none" /\ a.p \notin mm.iov
      [] a.k = "rmiiv"   -> NIiv(mm, a.p) >= 1 /\ mm.tr = "none" /\ a.p \notin mm.iov
      [] a.k = "addiov"  -> NIiv(mm, a.p) = 1 /\ a.p \notin mm.iov /\ mm.tr = "none"
      [] a.k = "rmiov"   -> mm.iov # {}
      [] a.k = "transform" -> mm.tr = "none" /\ NIiv(mm, a.p) = 1 /\ mm.iov = {}
      [] a.k = "allometry" -> ~mm.allo
      [] a.k = "seterr"  -> mm.deco = {} /\ (IF w.ndv = 1 THEN a.c = "" ELSE a.c \in {"1", "2"} /\ a.x \in {"add", "prop"} /\ a.y \in {"none", "nozp"})
      [] a.k = "rmerr"   -> w.ndv = 1 /\ mm.deco = {} /\ mm.err.kind # "none"
      [] a.k = "power"   -> w.ndv = 1 /\ mm.deco = {} /\ mm.err.kind # "none" /\ mm.err.trans = "none"
      [] a.k = "iivruv"  -> w.ndv = 1 /\ mm.deco = {} /\ mm.err.kind # "none" /\ mm.err.trans = "none"
      [] a.k = "timevar" -> w.ndv = 1 /\ mm.deco = {} /\ mm.err.kind # "none" /\ mm.err.trans = "none"
      [] a.k = "joineps" -> w.ndv = 1 /\ mm.deco = {} /\ mm.err.kind = "comb" /\ mm.err.trans = "none" /\ ~mm.epsjoint
      [] a.k = "weighted" -> w.ndv = 1 /\ mm.deco = {} /\ mm.err.kind \in {"add", "prop"} /\ mm.err.trans = "none"
      \* the documented "never run" combinations of C08 are not part of this property's alphabet
      \* (totality of setter sequences is C08's property; SEQ -> INST is its known finding C08-F4)
      [] a.k = "abs"     -> mm.transits = 0 /\ ~(mm.abs = "SEQ" /\ a.x = "INST") /\ mm.elim = "FO"
      \* (a single transit compartment without depot is reported as a depot by pharmpy itself; what the transit setter
      \* does from there is C08's known finding C08-F6, and the state is this property's finding C09-F6)
      [] a.k = "transit" -> mm.abs \in {"FO", "INST"} /\ mm.elim = "FO" /\ ~(mm.nodepot /\ mm.transits = 1)
      [] a.k = "elim"    -> mm.elim = "FO" /\ mm.transits = 0 /\ w.ndv = 1
      [] a.k = "reread"  -> mm.tr = "none" /\ mm.iov = {} /\ mm.deco = {} /\ ~mm.epsjoint
      [] OTHER -> FALSE

\* allometry scales the clearance / volume parameters that do not yet depend on the variable
AlloTargets(mm, a) == {p \in World(mm.model).params \cap AlloParams : <<p, a.c>> \notin mm.cov}
\* add_covariate_effect on a pair that already has an effect / add_allometry when the variable is
\* already used on every scaled parameter: documented no-op.   Setting the error model a model already has: no-op.
Noop(mm, a) ==
    \* (an IOV makes the parameter depend on the occasion column: add_covariate_effect then "already exists")
    CASE a.k = "addcov" -> <<a.p, a.c>> \in mm.cov \/ (a.p \in mm.iov /\ a.c = World(mm.model).occ)
      \* the dependent variable asked for already has this error model (what the OTHER dependent variable has is irrelevant)
      [] a.k = "seterr" -> LET cur == IF a.c = "2" THEN mm.err2 ELSE mm.err
                           IN cur.kind = a.x /\ (cur.trans = a.y \/ {cur.trans, a.y} \subseteq {"none", "nozp"})
      \* (after a Michaelis-Menten / zero-order / mixed elimination setter there is a new clearance-like parameter CLMM
      \* without any covariate effect: allometry then always has something to scale)
      [] a.k = "allometry" -> AlloTargets(mm, a) = {} /\ mm.elim = "FO"
      [] a.k = "abs"    -> mm.abs = a.x
      [] a.k = "transit" -> mm.transits = (CASE a.x = "0" -> 0 [] a.x = "1" -> 1 [] OTHER -> 3)
      [] OTHER -> FALSE

\* "Default is to automatically use clearance and volume parameters": whatever the elimination model, the central volume
\* is a volume parameter and is scaled unless it already depends on the variable (the clearance-like parameters change
\* their names with the elimination model: CL, CLMM - the driver reports which parameters got an exponent)
VolumeParams == {"VC", "V"}
AlloVolumeTargets(mm, a) == {p \in AlloTargets(mm, a) : p \in VolumeParams}
DropExt(s, keep(_)) == SelectSeq(s, keep)
Apply(mm, a) ==
    IF Noop(mm, a) THEN mm
    ELSE CASE a.k = "addcov" ->
                [mm EXCEPT !.cov = @ \cup {<<a.p, a.c>>},
                           !.ext[a.p] = Append(@, [k |-> "cov", c |-> a.c, effect |-> a.x, op |-> a.y])]
           [] a.k = "rmcov" ->
                [mm EXCEPT !.cov = @ \ {<<a.p, a.c>>},
                           !.ext[a.p] = DropExt(@, LAMBDA x : ~(x.k \in {"cov", "allo"} /\ x.c = a.c))]
           [] a.k = "addiiv" -> [mm EXCEPT !.ext[a.p] = Append(@, [k |-> "iiv", form |-> a.x, op |-> a.y])]
           [] a.k = "rmiiv"  -> [mm EXCEPT !.ext[a.p] = DropExt(@, LAMBDA x : x.k # "iiv")]
           [] a.k = "addiov" -> [mm EXCEPT !.iov = @ \cup {a.p}]
           [] a.k = "rmiov"  -> [mm EXCEPT !.iov = {}]
           [] a.k = "transform" -> [mm EXCEPT !.tr = a.x]
           [] a.k = "allometry" ->
                [mm EXCEPT !.allo = TRUE,
                           !.cov = @ \cup {<<p, a.c>> : p \in AlloTargets(mm, a)},
                           !.ext = [p \in DOMAIN @ |-> IF p \in AlloTargets(mm, a)
                                                       THEN Append(@[p], [k |-> "allo", c |-> a.c]) ELSE @[p]]]
           [] a.k = "seterr" -> IF a.c = "2" THEN [mm EXCEPT !.err2 = [kind |-> a.x, trans |-> a.y]]
                                \* (a new error model brings new, independent epsilons)
                                ELSE [mm EXCEPT !.err = [kind |-> a.x, trans |-> a.y], !.epsjoint = FALSE]
           [] a.k = "rmerr"  -> [mm EXCEPT !.err = [kind |-> "none", trans |-> "none"], !.epsjoint = FALSE]
           [] a.k = "joineps" -> [mm EXCEPT !.epsjoint = TRUE]
           [] a.k \in {"power", "iivruv", "timevar", "weighted"} -> [mm EXCEPT !.deco = @ \cup {a.k}]
           [] a.k = "elim" ->
                IF a.x = "MIX" THEN [mm EXCEPT !.elim = a.x]
                ELSE \* CL is replaced by CLMM / KM: its extensions go with it
                     [mm EXCEPT !.elim = a.x, !.ext["CL"] = <<>>, !.iov = @ \ {"CL"}, !.cov = {pc \in @ : pc[1] # "CL"}]
           [] a.k = "abs" ->
                IF a.x = "INST" /\ "MAT" \in DOMAIN mm.ext
                THEN \* the absorption parameter disappears with the depot; a later absorption setter creates a plain one
                     [mm EXCEPT !.abs = a.x, !.ext["MAT"] = <<>>, !.iov = @ \ {"MAT"},
                                !.cov = {pc \in @ : pc[1] # "MAT"}]
                ELSE [mm EXCEPT !.abs = a.x]
           [] a.k = "transit" ->
                LET n == (CASE a.x = "0" -> 0 [] a.x = "1" -> 1 [] OTHER -> 3)
                    nd == IF n = 0 THEN FALSE ELSE (mm.nodepot \/ mm.abs = "INST")
                IN [mm EXCEPT !.transits = n, !.nodepot = nd,
                              \* without depot the chain replaces the instantaneous absorption and n = 0 brings it back
                              !.abs = IF n > 0 /\ @ = "INST" THEN "FO" ELSE IF n = 0 /\ mm.nodepot THEN "INST" ELSE @]
           [] OTHER -> mm

\* `a` removes exactly what the previous action `b` (taken in state mb, not as a no-op) added
Undoes(mb, b, a) ==
    /\ ~Noop(mb, b)
    /\ \/ b.k = "addcov" /\ a.k = "rmcov" /\ a.p = b.p /\ a.c = b.c
       \/ b.k = "addiiv" /\ a.k = "rmiiv" /\ a.p = b.p
       \/ b.k = "addiov" /\ a.k = "rmiov" /\ mb.iov = {}    \* remove_iov() removes every IOV

Step(a) == /\ Len(hist) < MaxHist
           /\ Enabled(m, a)
           /\ m' = Apply(m, a)
           /\ hist' = Append(hist, a)
           /\ ms' = Append(ms, m')

DoAddCov     == "cov" \in Groups /\ \E a \in ActAddCov : Step(a)
DoRemoveCov  == "cov" \in Groups /\ \E a \in ActRmCov : Step(a)
DoAllometry  == "cov" \in Groups /\ \E a \in ActAllometry : Step(a)
DoAddIIV     == "eta" \in Groups /\ \E a \in ActAddIIV : Step(a)
DoRemoveIIV  == "eta" \in Groups /\ \E a \in ActRmIIV : Step(a)
DoAddIOV     == "eta" \in Groups /\ \E a \in ActAddIOV : Step(a)
DoRemoveIOV  == "eta" \in Groups /\ \E a \in ActRmIOV : Step(a)
DoTransform  == "eta" \in Groups /\ \E a \in ActTransform : Step(a)
DoSetErr     == "err" \in Groups /\ \E a \in ActSetErr : Step(a)
DoRemoveErr  == "err" \in Groups /\ \E a \in ActRmErr : Step(a)
DoDecorateErr == "err" \in Groups /\ \E a \in ActDeco : Step(a)
DoJoinEps == "err" \in Groups /\ \E a \in ActJoinEps : Step(a)
DoSetAbsorption == "abs" \in Groups /\ \E a \in ActAbs : Step(a)
DoSetTransits == "abs" \in Groups /\ \E a \in ActTransit : Step(a)
DoReread == "abs" \in Groups /\ \E a \in ActReread : Step(a)
DoSetElimination == "abs" \in Groups /\ \E a \in ActElim : Step(a)

Next == \/ DoAddCov \/ DoRemoveCov \/ DoAllometry \/ DoAddIIV \/ DoRemoveIIV \/ DoAddIOV \/ DoRemoveIOV
        \/ DoTransform \/ DoSetErr \/ DoRemoveErr \/ DoDecorateErr \/ DoJoinEps \/ DoSetAbsorption \/ DoSetTransits \/ DoReread \/ DoSetElimination
Spec == Init /\ [][Next]_vars

\* ---------------------------------------------------------------- abstract semantics
\* probe points: pt.at = the covariate sitting at its centre ("" = none), pt.eta0 = all etas zero
Points == {[at |-> c, eta0 |-> z] : c \in {""} \cup CovsOf(W), z \in BOOLEAN}
Base(p) == CASE p = "CL" -> <<3, 2>> [] p = "VC" -> <<5, 3>> [] OTHER -> <<7, 2>>
\* abstract dataset: median 3 / mean 4 for continuous readings, most common category 2, generic value 5 resp. 3
CentreOf(effect) == IF Centre[effect] = "median" THEN RInt(3) ELSE RInt(2)
GenOf(effect)    == IF Centre[effect] = "median" THEN RInt(5) ELSE RInt(3)
CovAt(c, effect, pt) == IF pt.at = c THEN CentreOf(effect) ELSE GenOf(effect)
AlloRef == RInt(3)
EtaAt(pt) == IF pt.eta0 THEN Zero ELSE One
KappaAt(pt) == IF pt.eta0 THEN Zero ELSE Two
Th == <<Two, RInt(-1)>>
Lam == Two

\* the eta a parameter sees: IOV adds the occasion eta, a transformation maps the sum
EtaSeen(mm, p, pt) ==
    LET e0 == IF p \in mm.iov THEN RAdd(EtaAt(pt), KappaAt(pt)) ELSE EtaAt(pt)
    IN IF mm.tr = "none" THEN e0 ELSE EtaTransform(mm.tr, e0, Lam)
ApplyExt(mm, p, pt, v, x) ==
    CASE x.k = "cov" -> Op(x.op, v, IF x.effect \in CatEffects
                                    THEN (IF CovAt(x.c, x.effect, pt) = CentreOf(x.effect) THEN One ELSE CatVal(x.effect, Th[1]))
                                    ELSE CovEffect(x.effect, Th, CovAt(x.c, x.effect, pt), CentreOf(x.effect)))
      [] x.k = "allo" -> Allometry(v, IF pt.at = x.c THEN AlloRef ELSE RInt(6), AlloRef, Two)
      [] x.k = "iiv" -> EtaForm(x.form, x.op, v, EtaSeen(mm, p, pt))
      [] OTHER -> v
RECURSIVE Fold(_, _, _, _, _)
Fold(mm, p, pt, v, s) == IF s = <<>> THEN v ELSE Fold(mm, p, pt, ApplyExt(mm, p, pt, v, Head(s)), Tail(s))
Sem(mm, p, pt) == Fold(mm, p, pt, Base(p), mm.ext[p])

\* ---------------------------------------------------------------- design-level theorems
Last == hist[Len(hist)]
Prev == ms[Len(ms) - 1]
Moved == Len(hist) >= 1 /\ ~Noop(Prev, Last)
SamePts(P, mm1, mm2, S) == \A p \in P : \A pt \in S : Eq(Sem(mm1, p, pt), Sem(mm2, p, pt)) # "bad"
AtCov(c) == {pt \in Points : pt.at = c}
AtEta0 == {pt \in Points : pt.eta0}

NeutralMul == (Moved /\ Last.k = "addcov" /\ Last.y = "*") => SamePts({Last.p}, Prev, m, AtCov(Last.c))
NeutralAllo == (Moved /\ Last.k = "allometry") => SamePts(W.params, Prev, m, AtCov(Last.c))
NeutralEta ==
    /\ (Moved /\ Last.k = "addiiv" /\ <<Last.x, Last.y>> \in {<<"add", "*">>, <<"prop", "*">>, <<"exp", "*">>})
           => SamePts({Last.p}, Prev, m, AtEta0)
    /\ (Moved /\ Last.k \in {"addiov", "transform"}) => SamePts(W.params, Prev, m, AtEta0)
\* what the documentation itself implies where it is NOT neutral (the design-level form of the findings)
DocOffsets ==
    /\ (Moved /\ Last.k = "addcov" /\ Last.y = "+") =>
           \A pt \in AtCov(Last.c) : Eq(Sem(m, Last.p, pt), RAdd(Sem(Prev, Last.p, pt), One)) # "bad"
    /\ (Moved /\ Last.k = "addiiv" /\ Last.x = "exp" /\ Last.y = "+") =>
           \A pt \in AtEta0 : Eq(Sem(m, Last.p, pt), RAdd(Sem(Prev, Last.p, pt), One)) # "bad"
    /\ (Moved /\ Last.k = "addiiv" /\ Last.x = "log") =>
           \A pt \in AtEta0 : Eq(Sem(m, Last.p, pt), RDiv(Sem(Prev, Last.p, pt), Two)) # "bad"

\* the property layer: every extension is neutral at its reference point (violated by the documentation
\* for the cases of DocOffsets; checked with EffectsDoc.cfg, where the violation is the expected result)
NeutralAll ==
    /\ (Moved /\ Last.k = "addcov") => SamePts({Last.p}, Prev, m, AtCov(Last.c))
    /\ (Moved /\ Last.k = "addiiv") => SamePts({Last.p}, Prev, m, AtEta0)
FrameAbs == (Moved /\ Last.k \in {"addcov", "rmcov", "addiiv", "rmiiv"}) => SamePts(W.params \ {Last.p}, Prev, m, Points)
UndoRestores == (Len(hist) >= 2 /\ Undoes(ms[Len(ms) - 2], hist[Len(hist) - 1], Last))
                    => SamePts(W.params, ms[Len(ms) - 2], m, Points)
\* each documented template, on its own, equals the neutral element of * at the centre (a grid of thetas / centres)
Grid == {RInt(-2), RInt(-1), One, Two, <<1, 2>>, <<3, 2>>}
ASSUME TemplatesNeutralMul == \A e \in ContEffects : \A t1 \in Grid : \A t2 \in Grid : \A r \in Grid \ {Zero} :
                                  Eq(CovEffect(e, <<t1, t2>>, r, r), One) # "bad"
\* the additive use of the same templates is off by one at the centre, and the logit forms halve / give 1/2
\* (2/3, 4/5: log2(P/(1-P)) = 1, 2)
ASSUME DocOffsetsStatic ==
    /\ \A e \in ContEffects : \A r \in Grid \ {Zero} : RAdd(r, CovEffect(e, <<Two, Two>>, r, r)) = RAdd(r, One)
    /\ \A P \in {<<2, 3>>, <<4, 5>>} : EtaForm("re_log", "*", P, Zero) = <<1, 2>>
    /\ \A P \in Grid : EtaForm("log", "*", P, Zero) = RDiv(P, Two)

\* ---------------------------------------------------------------- cases for the driver
EmitCase == Len(hist) >= 1 =>
    PrintT(<<"CASE", ToJson([model |-> m.model, hist |-> hist,
                             noop |-> [i \in 1..Len(hist) |-> Noop(ms[i], hist[i])],
                             undoes |-> [i \in 1..Len(hist) |-> i >= 2 /\ Undoes(ms[i - 1], hist[i - 1], hist[i])]])>>)
=============================================================================
