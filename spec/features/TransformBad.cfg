\* negative control: the faulty implementation named by Fault must violate the corresponding invariant
CONSTANTS
  MaxObjs = 3
  Contents = {c1, c2}
  Labels = {n1}
  Hashes = {h1, h2}
  Funcs = {f}
  WfBits = {"w"}
  MaxCalls = 1
  MaxObs = 2
  MaxCopies = 1
  Arity = 1
  Fault = "mutate"
SPECIFICATION SpecBad
INVARIANT TypeOK
INVARIANT EqImpliesHash
INVARIANT EqReflexive
INVARIANT EqSymmetric
INVARIANT EqTransitive
INVARIANT CopyEqual
INVARIANT ResultsWellFormed
PROPERTY Frame
CHECK_DEADLOCK FALSE
