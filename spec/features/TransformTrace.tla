--------------------------- MODULE TransformTrace ---------------------------
(* C06, code -> spec.  Every session the monitor recorded on real pharmpy objects must be a
   behaviour of Transform: each logged event has to be explained by one of its actions with the
   logged digests as the primed store.

   TRACES is a JSON array of sessions [events |-> <<e1, e2, ...>>]; every event carries
     post   the digests of ALL store objects after the event (sequence indexed by object id)
   and, by kind,
     load   wf (bits that hold for the new object = last of post)
     call   f, args (object ids), out "returned" | "value" | "raised", res (object id or 0), wf
     copy   o, res
     obs    a, b, eq "true" | "false" | "raised", ha, hb (hash as text, "unhashable" when the type
            declares no hash, "raised" when __hash__ raised)
   An event that no action explains is reported as <<"REJ", [tid, l, why]>>; the store is then
   re-synchronised with the logged digests (the rejected observation is not recorded) so that later
   events of the session are still judged.  Sessions without a rejected event: <<"ACC", tid>>.  *)
EXTENDS Transform, IOUtils

Traces == JsonDeserialize(IOEnv.TRACES)
VARIABLES tid, l, nrej,
          tainted   \* objects whose digest changed under a call: no longer values, their == / hash are not judged
tvars == <<tid, l, nrej, tainted, snap, wf, hfun, eqobs, hobs, copies, calls>>

Events == Traces[tid].events
Ev == Events[l]
SetOf(s) == {s[i] : i \in DOMAIN s}

TraceInit == /\ tid \in 1..Len(Traces) /\ l = 1 /\ nrej = 0 /\ tainted = {}
             /\ snap = <<>> /\ wf = <<>> /\ eqobs = {} /\ hobs = {} /\ copies = {} /\ calls = <<>>
             /\ hfun = <<>>

ObsOK(E, Hs, C) == EqHashOK(E, Hs) /\ ReflexiveOK(E) /\ SymmetricOK(E) /\ TransitiveOK(E) /\ CopyOK(E, C)

\* what Observe makes of eqobs / hobs
NewObs == [a |-> Ev.a, b |-> Ev.b, eq |-> (Ev.eq = "true")]
E2 == eqobs \cup {NewObs}
H2 == hobs \cup {<<Ev.a, Ev.ha>>, <<Ev.b, Ev.hb>>}

\* the frame on the logged digests: existing objects keep theirs; Grown: exactly one new object
Kept == Len(Ev.post) >= Len(snap) /\ \A o \in 1..Len(snap) : Ev.post[o] = snap[o]
Same == Kept /\ Len(Ev.post) = Len(snap)
Grown == Kept /\ Len(Ev.post) = Len(snap) + 1

\* Can: the logged event is an enabled action of Transform whose effect is the logged store.  A state predicate
\* (guards of the actions + frame); Explained performs the action, so a Can without an action leaves the session
\* neither accepted nor rejected, which the driver reports as a machinery error.
CanLoad == Ev.ev = "load" /\ LoadG /\ Grown
CanCall == /\ Ev.ev = "call"
           /\ \/ Ev.out = "returned" /\ Ev.res = Len(snap) + 1 /\ Grown /\ CallFreshG(Ev.args, SetOf(Ev.wf))
              \/ Ev.out = "returned" /\ Ev.res <= Len(snap) /\ Same /\ CallSameG(Ev.args, Ev.res)
              \/ Ev.out \in {"value", "raised"} /\ Same /\ CallOtherG(Ev.args)
CanCopy == /\ Ev.ev = "copy" /\ Ev.res >= 1 /\ Ev.res <= Len(Ev.post)
           /\ IF Ev.res = Ev.o THEN Same ELSE Grown
           /\ CopyOfG(Ev.o, Ev.res, Ev.post[Ev.res])
           /\ CopyOK(eqobs, copies \cup {<<Ev.o, Ev.res>>})
Tainted == Ev.ev = "obs" /\ ({Ev.a, Ev.b} \cap tainted # {})
CanObserve == /\ Ev.ev = "obs" /\ ~Tainted /\ Same /\ Ev.eq \in {"true", "false"}
              /\ Ev.ha # "raised" /\ Ev.hb # "raised"
              /\ ObserveG(Ev.a, Ev.b, Ev.ha, Ev.hb)
              /\ ObsOK(E2, H2, copies)
CanSkip == Tainted /\ Same           \* an observation on a mutated object: only the frame is judged
Can == l <= Len(Events) /\ (CanLoad \/ CanCall \/ CanCopy \/ CanObserve \/ CanSkip)

TraceLoad == Ev.ev = "load" /\ Load(Ev.post[Len(Ev.post)], SetOf(Ev.wf))
TraceCall == /\ Ev.ev = "call"
             /\ \/ Ev.out = "returned" /\ Ev.res = Len(snap) + 1
                   /\ CallFresh(Ev.f, Ev.args, Ev.post[Ev.res], SetOf(Ev.wf))
                \/ Ev.out = "returned" /\ Ev.res <= Len(snap) /\ CallSame(Ev.f, Ev.args, Ev.res)
                \/ Ev.out = "value" /\ CallValue(Ev.f, Ev.args)
                \/ Ev.out = "raised" /\ CallRaise(Ev.f, Ev.args)
TraceCopy == Ev.ev = "copy" /\ CopyOf(Ev.o, Ev.res, Ev.post[Ev.res])
TraceObserve == Ev.ev = "obs" /\ ~Tainted /\ Observe(Ev.a, Ev.b, Ev.eq = "true", Ev.ha, Ev.hb)
TraceSkip == Tainted /\ UNCHANGED <<snap, wf, hfun, eqobs, hobs, copies, calls>>

Explained == /\ Can = TRUE      \* (as an equation: TLC then evaluates the predicate as a value instead of
                              \*  unfolding its nested quantifiers recursively as an action)
             /\ (TraceLoad \/ TraceCall \/ TraceCopy \/ TraceObserve \/ TraceSkip)
             /\ snap' = Ev.post                 \* the frame, on the logged digests
             /\ l' = l + 1 /\ UNCHANGED <<tid, nrej, tainted>>

Changed == {o \in 1..Len(snap) : o <= Len(Ev.post) /\ Ev.post[o] # snap[o]}
\* re-synchronise after an unexplained event
Resync == /\ l <= Len(Events) /\ Can = FALSE
          /\ snap' = Ev.post
          /\ wf' = IF Len(Ev.post) > Len(wf)
                   THEN Append(wf, IF Ev.ev \in {"load", "call"} THEN SetOf(Ev.wf) ELSE WfBits) ELSE wf
          /\ calls' = IF Ev.ev = "call" THEN Append(calls, [f |-> Ev.f, args |-> Ev.args, out |-> "unjudged", res |-> Ev.res]) ELSE calls
          /\ hobs' = IF Ev.ev = "obs" THEN {p \in hobs : p[1] \notin {Ev.a, Ev.b}} ELSE hobs
          /\ UNCHANGED <<hfun, eqobs, copies, tid>>
          /\ tainted' = tainted \cup Changed
          /\ l' = l + 1 /\ nrej' = nrej + 1

TraceNext == Explained \/ Resync
TraceSpec == TraceInit /\ [][TraceNext]_tvars

\* ----- diagnosis of an unexplained event (only evaluated when it is reported)
ObsWhy == IF Ev.eq \notin {"true", "false"} THEN "eq_raised"
          ELSE IF Ev.ha = "raised" \/ Ev.hb = "raised" THEN "hash_raised"
          ELSE IF (\E p \in hobs : (p[1] = Ev.a /\ p[2] # Ev.ha) \/ (p[1] = Ev.b /\ p[2] # Ev.hb))
                  \/ (Ev.a = Ev.b /\ Ev.ha # Ev.hb) THEN "hash_unstable"
          ELSE IF ~ReflexiveOK(E2) THEN "not_reflexive"
          ELSE IF ~EqHashOK(E2, H2) THEN "equal_unequal_hash"
          ELSE IF ~CopyOK(E2, copies) THEN "copy_not_equal"
          ELSE IF ~SymmetricOK(E2) THEN "not_symmetric"
          ELSE IF ~TransitiveOK(E2) THEN "not_transitive"
          ELSE "other"
Why == IF Len(Ev.post) < Len(snap) THEN [k |-> "store", what |-> "shrunk", objs |-> {}]
       ELSE IF Changed # {} THEN [k |-> "frame", what |-> "argument_mutated", objs |-> Changed]
       ELSE IF Ev.ev = "obs" THEN [k |-> "obs", what |-> ObsWhy, objs |-> {Ev.a, Ev.b}]
       ELSE IF Ev.ev = "call" /\ Ev.out = "returned" /\ Ev.res >= 1 /\ Ev.res <= Len(Ev.post) /\ SetOf(Ev.wf) # WfBits
            THEN [k |-> "wf", what |-> "illformed_result", objs |-> {Ev.res}]
       ELSE IF Ev.ev = "copy" THEN [k |-> "copy", what |-> "copy_differs", objs |-> {Ev.o, Ev.res}]
       ELSE [k |-> "shape", what |-> "event not of the contract", objs |-> {}]

EmitRej == (l <= Len(Events) /\ ~Can) => PrintT(<<"REJ", ToJson([tid |-> tid, l |-> l, why |-> Why])>>)
EmitAcc == (l = Len(Events) + 1 /\ nrej = 0) => PrintT(<<"ACC", ToJson(tid)>>)
=============================================================================
