-------------------------------- MODULE Keys --------------------------------
(* C12 -- "Serialisation round-trips and model hashes identify models across processes".

   Abstract content of a model: a record sigma
       [m, p, r, s, e, d]   m  the model's content class  (pharmpy's own == on models + equal dataset)
                            p, r, s, e   the classes of its parameters, random variables, statements and
                                         execution steps (pharmpy's own == on the components)
                            d  the class of its dataset (values, dtypes, columns, index)
   What is NOT content: the label (name, description, dataset path), the process, PYTHONHASHSEED, the interpreter
   configuration (pharmpy.conf of the site / user) and the history (the order of operations by which the object was built).

   State:  key   partial function  m -> digest  (the database key observed for that content)
           seen  the observations [m, p, r, s, e, d, label, proc, seed, hist, k] (first one per content, label and digest)
           trips round trips observed [via, cin, cout]
   Actions:
     Key(proc, seed, conf, hist, label, sigma, k)   a process (hash seed seed, configuration conf) computed the content hash k of a model of content
                                              sigma that was built by history hist and carries label
     RoundTrip(via, cin, cout)                an object of class cin was serialised (to_dict / JSON text /
                                              generic model code / results JSON) and read back as an object of
                                              class cout  (0: reading back failed)
   Properties (over the observations, so that they can be evaluated on real traces):
     Functional    same m  => same k            -- across processes, hash seeds, configurations, histories AND labels
     Independent   (the part of Functional that concerns labels, stated separately)
     Injective     sigma, sigma' differ in p, r, s, e or d  => k # k'
     TripsEqual    cout = cin

   Reference model for the design-level theorem (bounded exploration): the digest of a model is an injective
   encoding of its canonical dictionary form, Digest(sigma, ...) below with Fault = "none".  With Fault set, the
   digest leaks what the property excludes (negative controls):
     "order"  the dictionary form enumerates a graph / set in construction order   -> Functional fails
     "seed"   ... in hash order                                                     -> Functional fails
     "name"   the name is not blanked                                               -> Independent fails
     "conf"   the dictionary form omits a field when it equals the CONFIGURED default    -> Functional fails
     "drop"   to_dict drops a field (here: the execution steps)                     -> Injective fails
     "trip"   from_dict(to_dict(x)) loses a field                                   -> TripsEqual fails   *)
EXTENDS Naturals, Sequences, FiniteSets, TLC

CONSTANTS Sigmas,    \* the contents that can be built: set of records [m, p, r, s, e, d]
          Labels, Procs, Seeds, Confs, Hists,
          Vias,      \* "dict", "json", "code", "results"
          MaxObs, MaxTrips,
          Fault

VARIABLES key, seen, trips
vars == <<key, seen, trips>>

Init == key = <<>> /\ seen = {} /\ trips = {}

Listed(a, b) == a.p # b.p \/ a.r # b.r \/ a.s # b.s \/ a.e # b.e \/ a.d # b.d

\* state predicates used as guards by KeysTrace
FunctionalG(sigma, k) == sigma.m \in DOMAIN key => key[sigma.m] = k
InjectiveG(sigma, k) == \A o \in seen : Listed(o, sigma) => o.k # k

Key(proc, seed, conf, hist, label, sigma, k) ==
    /\ Cardinality(seen) < MaxObs
    \* the first observation of every (content, label-or-not, digest) combination is kept (later identical ones add nothing
    \* to the invariants; this keeps the state small when thousands of real observations are validated)
    /\ seen' = IF \E o \in seen : o.m = sigma.m /\ o.p = sigma.p /\ o.r = sigma.r /\ o.s = sigma.s /\ o.e = sigma.e /\ o.d = sigma.d
                                   /\ o.k = k /\ o.label = label
               THEN seen
               ELSE seen \cup {[m |-> sigma.m, p |-> sigma.p, r |-> sigma.r, s |-> sigma.s, e |-> sigma.e, d |-> sigma.d,
                                label |-> label, proc |-> proc, seed |-> seed, conf |-> conf, hist |-> hist, k |-> k]}
    /\ key' = IF sigma.m \in DOMAIN key THEN key ELSE [x \in DOMAIN key \cup {sigma.m} |-> IF x = sigma.m THEN k ELSE key[x]]
    /\ UNCHANGED trips

RoundTrip(via, cin, cout) ==
    /\ Cardinality(trips) < MaxTrips
    /\ trips' = trips \cup {[via |-> via, cin |-> cin, cout |-> cout]}
    /\ UNCHANGED <<key, seen>>

\* ----- reference model of the implementation
Digest(sigma, label, seed, conf, hist) ==
    CASE Fault = "order" -> <<sigma, hist>>
      [] Fault = "conf" -> <<sigma, conf>>
      [] Fault = "seed" -> <<sigma, seed>>
      [] Fault = "name" -> <<sigma, label>>
      [] Fault = "drop" -> [sigma EXCEPT !.e = 0, !.m = 0]
      [] OTHER -> sigma
Back(via, c) == IF Fault = "trip" /\ via = "code" THEN 0 ELSE c
Classes == {x.m : x \in Sigmas}

DoKey == \E proc \in Procs, seed \in Seeds, conf \in Confs, hist \in Hists, label \in Labels, sigma \in Sigmas :
            Key(proc, seed, conf, hist, label, sigma, Digest(sigma, label, seed, conf, hist))
DoRoundTrip == \E via \in Vias, c \in Classes : RoundTrip(via, c, Back(via, c))
Next == DoKey \/ DoRoundTrip
Spec == Init /\ [][Next]_vars

\* ----- the property
Functional == \A a, b \in seen : a.m = b.m => a.k = b.k
Independent == \A a, b \in seen : (a.m = b.m /\ a.label # b.label) => a.k = b.k
Injective == \A a, b \in seen : Listed(a, b) => a.k # b.k
TripsEqual == \A t \in trips : t.cout = t.cin
KeyIsFunction == \A a \in seen : a.m \in DOMAIN key /\ (Functional => key[a.m] = a.k)
\* the model classes are consistent with the component classes (a sanity condition on Sigmas)
SigmasOK == \A a, b \in Sigmas : a.m = b.m => ~Listed(a, b)

\* a small universe for the bounded exploration (Keys.cfg: Sigmas <- SmallSigmas): parameters and execution steps
\* vary, o is content outside the five listed components (e.g. column metadata), plus one content with other data
SmallSigmas == {[m |-> 100 * pp + 10 * ee + o, p |-> pp, r |-> 1, s |-> 1, e |-> ee, d |-> 1] : pp \in {1, 2}, ee \in {1, 2}, o \in {0, 1}}
               \cup {[m |-> 999, p |-> 1, r |-> 1, s |-> 1, e |-> 1, d |-> 2]}
=============================================================================
