CONSTANTS
  Models = {"pheno", "mox2", "phenoexp", "pheno2dv"}
  MaxHist = 2
  Groups = {"cov", "eta", "err", "abs"}
INIT Init
NEXT Next
INVARIANT NeutralMul
INVARIANT NeutralAllo
INVARIANT NeutralEta
INVARIANT DocOffsets
INVARIANT FrameAbs
INVARIANT UndoRestores
INVARIANT EmitCase
CHECK_DEADLOCK FALSE
