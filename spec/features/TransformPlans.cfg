\* spec -> code: all call plans over the alphabet (the driver rewrites Funcs / MaxCalls / MaxObjs)
CONSTANTS
  MaxObjs = 3
  Contents = {c1}
  Labels = {n1}
  Hashes = {h1}
  Funcs = {"f", "g"}
  WfBits = {}
  MaxCalls = 2
  MaxObs = 0
  MaxCopies = 0
  Arity = 1
  Fault = "none"
SPECIFICATION Spec
CONSTRAINT PlanConstraint
INVARIANT TypeOK
INVARIANT ResultsWellFormed
INVARIANT EmitPlan
PROPERTY Frame
CHECK_DEADLOCK FALSE
