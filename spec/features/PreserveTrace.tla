---------------------------- MODULE PreserveTrace ----------------------------
(* C07, code -> spec.  A trace is a history the driver executed on the real functions; an
   event carries the token and what the driver measured on the real models:
     before / after   the fingerprint fp = <<<<name, value>>, ...>>: exact rational probe values
                      (harness/qeval.py) of every assigned variable (individual parameters, F, Y, ...)
                      and of the ODE system (flows, lag, bioavailability, dose amounts), at the
                      same probe point, the point being translated through the declared renaming
     ren              the renaming the action declares, <<<<old, new>>, ...>>
     req              observables that must survive a refactoring (Y and the ODE entries)
     pairs            for observations / simplify_expression / solve_ode_system: pairs of values that the
                      contract equates (extractor value vs direct evaluation; closed form vs ODE)
   The machine of Preserve is re-run on the logged tokens (the call must be enabled, the class
   comes from the table Class); for a Preserving action TLC decides  fp' = Rename(fp, ren).      *)
EXTENDS Preserve, IOUtils

Traces == JsonDeserialize(IOEnv.TRACES)
VARIABLES tid, l, judged
tvars == <<tid, l, judged, m, hist, ver, nm>>

Events == Traces[tid].events
Ev == Events[l]
SeqSet(s) == {s[i] : i \in 1..Len(s)}

TraceInit == /\ tid \in 1..Len(Traces) /\ l = 1 /\ judged = <<>>
             /\ m = Start(Traces[tid].model) /\ hist = <<>> /\ ver = 0 /\ nm = <<>>

Rn(ren, n) == IF \E i \in 1..Len(ren) : ren[i][1] = n
              THEN ren[CHOOSE i \in 1..Len(ren) : ren[i][1] = n][2] ELSE n
Has(fp, n) == \E j \in 1..Len(fp) : fp[j][1] = n
Val(fp, n) == fp[CHOOSE j \in 1..Len(fp) : fp[j][1] = n][2]
\* fp' = Rename(fp, ren) on every observable both models define; the required observables must still be there
FpKeptOn(e, A) == Combine({EqLL(e.before[i][2], Val(A, Rn(e.ren, e.before[i][1])))
                           : i \in {k \in 1..Len(e.before) : Has(A, Rn(e.ren, e.before[k][1]))}})
FpKept(e) == FpKeptOn(e, e.after)
\* aftercode = fingerprint of the model read back from the code generated for the result (empty: not comparable)
CodeKept(e, mm) == IF CodeBacked(mm) /\ Len(e.aftercode) > 0 THEN FpKeptOn(e, e.aftercode) ELSE "none"
ReqKept(e) == IF \A r \in SeqSet(e.req) : Has(e.after, Rn(e.ren, r)) THEN "ok" ELSE "bad"
Pairs(ps) == IF Len(ps) = 0 THEN "none" ELSE Combine({EqLL(x[1], x[2]) : x \in SeqSet(ps)})
J(fp, req, obs) == [fp |-> fp, req |-> req, obs |-> obs, code |-> "none"]

Judge(e) ==
    LET c == Class[e.act] IN
    CASE c = "Preserving" /\ e.act = "P:SIMP" -> J("none", "none", Pairs(e.pairs))
      [] c = "Preserving" -> [J(FpKept(e), ReqKept(e), Pairs(e.pairs)) EXCEPT !.code = CodeKept(e, Apply(e.act))]
      [] c = "Observe"    -> J("none", "none", Pairs(e.pairs))
      [] OTHER            -> J("none", "none", "none")     \* Structural / Extension / Data: a new function, nothing to keep

TraceStep == /\ l <= Len(Events)
             /\ Step(Ev.act)
             /\ judged' = Append(judged, Judge(Ev))
             /\ l' = l + 1 /\ UNCHANGED tid
TraceNext == TraceStep
Done == l = Len(Events) + 1
EmitVer == Done => PrintT(<<"VER", ToJson([tid |-> tid, ver |-> judged])>>)
=============================================================================
