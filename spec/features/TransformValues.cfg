CONSTANTS
  MaxObjs = 3
  Contents = {c1, c2}
  Labels = {n1, n2}
  Hashes = {h1, h2}
  Funcs = {f}
  WfBits = {}
  MaxCalls = 0
  MaxObs = 3
  MaxCopies = 1
  Arity = 1
  Fault = "none"
SPECIFICATION Spec
INVARIANT TypeOK
INVARIANT EqImpliesHash
INVARIANT EqReflexive
INVARIANT EqSymmetric
INVARIANT EqTransitive
INVARIANT CopyEqual
PROPERTY Frame
CHECK_DEADLOCK FALSE
