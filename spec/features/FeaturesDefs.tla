---------------------------- MODULE FeaturesDefs ----------------------------
(* C08 - property layer of the structural feature setters (constant level).

   A state is the FEATURE VECTOR the detectors report for a model, read through
   get_model_features' documented priority (SEQ-ZO-FO > ZO > FO > INST,
   MIX-FO-MM > ZO > FO > MM):

     abs    INST | FO | ZO | SEQ          elim   FO | ZO | MM | MIX
     periph 0..3                          tr     0..4 transit compartments
     depot  a depot compartment exists    lag    lag time on the dose compartment
     bio    bioavailability /= 1          metab  none | basic | psc
     effect an EFFECT compartment exists  route  ghost: iv / oral start model

   An action is one call of a public setter.  Exp(p, a) says what the property
   statement says about the call on a model with vector p:
     tmpl   "requested category = requested value, every other category unchanged"
     free   categories on which the documentation is silent for this (state, request):
            the members of a documented-incompatible pair ("never run":
            ZOxTRANSITS, SEQxTRANSITS, INSTxTRANSITS, SEQxLAG, INSTxLAG, LAGxTRANSITS)
            when the request touches the pair, and categories the detectors cannot
            observe (elimination on drug-metabolite models, F on pre-systemic ones)
     refuse a refusal (ValueError raised by the setter's own validation) is documented
   An internal error is no outcome of any action.                              *)
EXTENDS Naturals, Sequences, FiniteSets, TLC

AbsVals    == {"INST", "FO", "ZO", "SEQ"}
ElimVals   == {"FO", "ZO", "MM", "MIX"}
PeriphVals == 0..3
TrVals     == 0..4
MetabVals  == {"none", "basic", "psc"}
Routes     == {"iv", "oral"}

Cats      == {"abs", "elim", "periph", "tr", "depot", "lag", "bio", "metab", "effect"}
AbsStruct == {"abs", "tr", "depot"}      \* the absorption structure (one chain of compartments)

States == [abs : AbsVals, elim : ElimVals, periph : PeriphVals, tr : TrVals, depot : BOOLEAN,
           lag : BOOLEAN, bio : BOOLEAN, metab : MetabVals, effect : BOOLEAN, route : Routes]

Vec(a, e, p, t, d, r) ==
    [abs |-> a, elim |-> e, periph |-> p, tr |-> t, depot |-> d, lag |-> FALSE, bio |-> FALSE,
     metab |-> "none", effect |-> FALSE, route |-> r]

\* start vectors of the corpus (the harness checks that the real start model reports exactly this)
StartVec ==
    ("iv1"   :> Vec("INST", "FO", 0, 0, FALSE, "iv"))   @@   \* pheno_real.mod (ADVAN1 bolus)
    ("oral1" :> Vec("FO",   "FO", 0, 0, TRUE,  "oral")) @@   \* mox2.mod (ADVAN2)
    ("iv2"   :> Vec("INST", "FO", 1, 0, FALSE, "iv"))   @@   \* pheno_advan3.mod
    ("oral2" :> Vec("FO",   "FO", 1, 0, TRUE,  "oral")) @@   \* pheno_advan4.mod
    ("iv3"   :> Vec("INST", "FO", 2, 0, FALSE, "iv"))   @@   \* pheno_advan11.mod
    ("oral3" :> Vec("FO",   "FO", 2, 0, TRUE,  "oral")) @@   \* pheno_advan12.mod
    ("zo1"   :> Vec("ZO",   "FO", 0, 0, FALSE, "oral")) @@   \* pheno_advan1_zero_order.mod
    ("seq1"  :> Vec("SEQ",  "FO", 0, 0, TRUE,  "oral")) @@   \* pheno_advan2_seq.mod
    ("tr2"   :> Vec("FO",   "FO", 1, 2, TRUE,  "oral")) @@   \* pheno_2transits.mod
    \* mox2 + P:1, L:1, E:MIX + derived statements that READ structural symbols (THALFA = 0.693/KA, K21D = Q/V3 before
    \* the ODEs; CLTOT = CL + CLMM, TLAG = ALAG1 after them): every undoing request meets a still-read symbol
    ("der1"  :> [Vec("FO", "MIX", 1, 0, TRUE, "oral") EXCEPT !.lag = TRUE])

\* ---------------------------------------------------------------- actions
A(k, v, n, keep) == [k |-> k, v |-> v, n |-> n, keep |-> keep]
ActDef ==
    ("A:INST" :> A("A", "INST", 0, TRUE)) @@ ("A:FO" :> A("A", "FO", 0, TRUE)) @@
    ("A:ZO"   :> A("A", "ZO", 0, TRUE))   @@ ("A:SEQ" :> A("A", "SEQ", 0, TRUE)) @@
    ("E:FO"   :> A("E", "FO", 0, TRUE))   @@ ("E:ZO"  :> A("E", "ZO", 0, TRUE)) @@
    ("E:MM"   :> A("E", "MM", 0, TRUE))   @@ ("E:MIX" :> A("E", "MIX", 0, TRUE)) @@
    ("P:0"    :> A("P", "set", 0, TRUE))  @@ ("P:1"   :> A("P", "set", 1, TRUE)) @@
    ("P:2"    :> A("P", "set", 2, TRUE))  @@
    ("P+"     :> A("P", "add", 0, TRUE))  @@ ("P-"    :> A("P", "rem", 0, TRUE)) @@
    \* set_transit_compartments(n, keep_depot);  MFL TRANSITS(m, NODEPOT) = (m + 1, FALSE)
    ("T:0"    :> A("T", "set", 0, TRUE))  @@ ("T:1"   :> A("T", "set", 1, TRUE)) @@
    ("T:3"    :> A("T", "set", 3, TRUE))  @@
    ("T:1N"   :> A("T", "set", 1, FALSE)) @@ ("T:2N"  :> A("T", "set", 2, FALSE)) @@
    ("T:4N"   :> A("T", "set", 4, FALSE)) @@
    ("L:1"    :> A("L", "on", 0, TRUE))   @@ ("L:0"   :> A("L", "off", 0, TRUE)) @@
    ("B:1"    :> A("B", "on", 0, TRUE))   @@ ("B:0"   :> A("B", "off", 0, TRUE)) @@
    ("M:BASIC" :> A("M", "basic", 0, TRUE)) @@ ("M:PSC" :> A("M", "psc", 0, TRUE)) @@
    ("X:LIN"  :> A("X", "linear", 0, TRUE))
AllActs == DOMAIN ActDef

AbsTok  == [INST |-> "A:INST", FO |-> "A:FO", ZO |-> "A:ZO", SEQ |-> "A:SEQ"]
ElimTok == [FO |-> "E:FO", ZO |-> "E:ZO", MM |-> "E:MM", MIX |-> "E:MIX"]
PTok    == <<"P:0", "P:1", "P:2">>     \* PTok[n + 1]

\* The same requests as the search tools make them: through the MFL feature -> function table
\* (tools/mfl/feature/*.py, ModelFeatures.convert_to_funcs).  MFLKey[tok] is the table key of request tok
\* (TRANSITS(m, NODEPOT) is registered as set_transit_compartments(m + 1, keep_depot = FALSE)); the table is built
\* from a search space that lists several values per category, so that every entry has siblings.
MFLKey ==
    ("A:INST" :> "ABSORPTION(INST)") @@ ("A:FO" :> "ABSORPTION(FO)") @@ ("A:ZO" :> "ABSORPTION(ZO)") @@
    ("A:SEQ" :> "ABSORPTION(SEQ-ZO-FO)") @@
    ("E:FO" :> "ELIMINATION(FO)") @@ ("E:ZO" :> "ELIMINATION(ZO)") @@ ("E:MM" :> "ELIMINATION(MM)") @@
    ("E:MIX" :> "ELIMINATION(MIX-FO-MM)") @@
    ("P:0" :> "PERIPHERALS(0)") @@ ("P:1" :> "PERIPHERALS(1)") @@ ("P:2" :> "PERIPHERALS(2)") @@
    ("T:0" :> "TRANSITS(0,DEPOT)") @@ ("T:1" :> "TRANSITS(1,DEPOT)") @@ ("T:3" :> "TRANSITS(3,DEPOT)") @@
    ("T:1N" :> "TRANSITS(0,NODEPOT)") @@ ("T:2N" :> "TRANSITS(1,NODEPOT)") @@ ("T:4N" :> "TRANSITS(3,NODEPOT)") @@
    ("L:1" :> "LAGTIME(ON)") @@ ("L:0" :> "LAGTIME(OFF)") @@
    ("M:BASIC" :> "METABOLITE(BASIC)") @@ ("M:PSC" :> "METABOLITE(PSC)") @@
    ("X:LIN" :> "EFFECTCOMP(LINEAR)")
MFLActs == DOMAIN MFLKey
MFLSpace == "ABSORPTION([FO,ZO,SEQ-ZO-FO,INST]);ELIMINATION([FO,ZO,MM,MIX-FO-MM]);PERIPHERALS([0,1,2]);TRANSITS([0,1,3],*);LAGTIME([OFF,ON]);METABOLITE([BASIC,PSC]);EFFECTCOMP([LINEAR,EMAX])"

\* "requesting the same feature again": every request except add/remove one more peripheral
IdemActs == AllActs \ {"P+", "P-"}

Enabled(p, a) == (a.k = "P" /\ a.v = "add") => p.periph < 3

\* One single transit compartment that feeds the central compartment cannot be told from a depot;
\* find_transit_compartments documents that it is then reported as a depot.
Norm(t) == IF t.tr = 1 /\ ~t.depot THEN [t EXCEPT !.tr = 0, !.depot = TRUE] ELSE t

\* What the detectors' own definitions imply for every well-formed model: a dose straight into the
\* central compartment (INST, ZO) leaves no absorption compartments; first-order absorption needs one.
Consistent(t) ==
    /\ (t.abs \in {"INST", "ZO"} => (~t.depot /\ t.tr = 0))
    /\ (t.abs \in {"FO", "SEQ"} => (t.depot \/ t.tr > 0))
    /\ Norm(t) = t

\* the post-state the property statement names: requested value, everything else unchanged
RawTmpl(p, a) ==
    CASE a.k = "A" ->
           \* without transits: FO / SEQ-ZO-FO own a depot, INST / ZO dose the central compartment
           [p EXCEPT !.abs = a.v, !.depot = IF p.tr = 0 THEN a.v \in {"FO", "SEQ"} ELSE p.depot]
      [] a.k = "E" -> [p EXCEPT !.elim = a.v]
      [] a.k = "P" -> [p EXCEPT !.periph = CASE a.v = "set" -> a.n
                                             [] a.v = "add" -> p.periph + 1
                                             [] OTHER -> IF p.periph > 0 THEN p.periph - 1 ELSE 0]
      [] a.k = "T" -> [p EXCEPT !.tr = a.n, !.depot = IF a.keep THEN p.depot ELSE FALSE]
      [] a.k = "L" -> [p EXCEPT !.lag = (a.v = "on")]
      [] a.k = "B" -> [p EXCEPT !.bio = (a.v = "on")]
      [] a.k = "M" -> IF a.v = "psc" /\ ~p.depot /\ p.tr = 0
                      THEN [p EXCEPT !.metab = a.v, !.abs = "FO", !.depot = TRUE]  \* "a depot will be created"
                      ELSE [p EXCEPT !.metab = a.v]
      [] a.k = "X" -> [p EXCEPT !.effect = TRUE]

\* a chain of compartments into the central one is first-order absorption, none is instantaneous:
\* set_transit_compartments on an INST / FO model moves between the two (docstring example: pheno + 3 transits)
PreTmpl(p, a) ==
    LET t == RawTmpl(p, a) IN
    IF a.k = "T" /\ p.abs \in {"FO", "INST"}
    THEN [t EXCEPT !.abs = IF t.tr = 0 /\ ~t.depot THEN "INST" ELSE "FO"]
    ELSE t

Tmpl(p, a) == Norm(PreTmpl(p, a))

\* documented-incompatible pairs present in a vector (isT: the request itself is a TRANSITS feature)
Pairs(t, isT) ==
    (IF t.abs \in {"ZO", "SEQ", "INST"} /\ t.tr > 0 THEN {"AT"} ELSE {}) \cup
    (IF t.abs \in {"SEQ", "INST"} /\ t.lag THEN {"AL"} ELSE {}) \cup
    (IF t.lag /\ (t.tr > 0 \/ isT) THEN {"LT"} ELSE {})
Members(x) == IF x = "AT" THEN AbsStruct ELSE AbsStruct \cup {"lag"}

Touch(p, a) ==
    CASE a.k = "A" -> {"abs", "depot"}
      [] a.k = "T" -> {"tr", "depot"}
      [] a.k = "L" -> {"lag"}
      [] a.k = "M" /\ a.v = "psc" /\ ~p.depot -> AbsStruct
      [] OTHER -> {}

Free(p, a) ==
    LET t    == PreTmpl(p, a)
        ps   == Pairs(p, FALSE) \cup Pairs(t, a.k = "T")
        trig == {x \in ps : Members(x) \cap Touch(p, a) # {}}
        pair == IF trig = {} THEN {} ELSE UNION {Members(x) : x \in ps}
        \* the elimination detectors look at central -> output, which a metabolite compartment replaces
        obs1 == IF p.metab # "none" \/ a.k = "M" THEN {"elim"} ELSE {}
        \* a pre-systemic metabolite is coded through the bioavailability of the depot
        obs2 == IF p.metab = "psc" \/ (a.k = "M" /\ a.v = "psc") THEN {"bio"} ELSE {}
        \* a second metabolite / converting plain to pre-systemic is not implemented (TODO in the source)
        m2   == IF a.k = "M" /\ p.metab # "none" THEN {"metab"} ELSE {}
        \* add_metabolite(presystemic) without depot: "one will be created" (how is not said)
        m3   == IF a.k = "M" /\ a.v = "psc" /\ ~p.depot /\ p.tr > 0 THEN AbsStruct ELSE {}
    IN pair \cup obs1 \cup obs2 \cup m2 \cup m3

Refuse(p, a) ==
    \/ a.k = "T" /\ a.n = 1 /\ ~(a.keep /\ p.depot)         \* "cannot be distinguished from first order absorption"
    \/ a.k = "A" /\ a.v \in {"INST", "SEQ"} /\ p.lag        \* docstrings: lag time "is not supported"
    \/ a.k = "M" /\ a.v = "psc" /\ ~p.depot                 \* "not compatible with input model"
    \/ a.k = "M" /\ p.metab # "none"
    \/ a.k = "X" /\ p.metab # "none"                        \* "Model is not suitable"

Dom(c) == CASE c = "abs" -> AbsVals [] c = "elim" -> ElimVals [] c = "periph" -> PeriphVals
            [] c = "tr" -> TrVals [] c = "metab" -> MetabVals [] OTHER -> BOOLEAN

\* all vectors the action admits as "Applied"
Posts(p, a) ==
    LET t == Tmpl(p, a)
        f == Free(p, a)
        O(c) == IF c \in f THEN Dom(c) ELSE {t[c]}
    IN {u \in {[abs |-> x1, elim |-> x2, periph |-> x3, tr |-> x4, depot |-> x5, lag |-> x6, bio |-> x7,
                 metab |-> x8, effect |-> x9, route |-> p.route] :
                  x1 \in O("abs"), x2 \in O("elim"), x3 \in O("periph"), x4 \in O("tr"), x5 \in O("depot"),
                  x6 \in O("lag"), x7 \in O("bio"), x8 \in O("metab"), x9 \in O("effect")} : Consistent(u)}

Determined(p, a) == Free(p, a) = {} /\ ~Refuse(p, a)

\* ---------------------------------------------------------------- idempotence / undo obligations
\* f.f ~ f is demanded where both applications are fully determined by the property
IdemReq(p, tok) ==
    LET a == ActDef[tok] IN
    /\ tok \in IdemActs /\ Enabled(p, a) /\ Determined(p, a)
    /\ Determined(Tmpl(p, a), a)

\* the request that undoes tok on p ("none": no undo pair)
Inverse(p, tok) ==
    LET a == ActDef[tok] IN
    CASE a.k = "A" /\ a.v # p.abs -> AbsTok[p.abs]
      [] a.k = "E" /\ a.v # p.elim -> ElimTok[p.elim]
      [] a.k = "P" /\ a.v = "set" /\ a.n # p.periph /\ p.periph <= 2 -> PTok[p.periph + 1]
      [] a.k = "P" /\ a.v = "add" -> "P-"
      [] a.k = "T" /\ a.keep /\ a.n > 0 /\ p.tr = 0 -> "T:0"
      [] a.k = "L" /\ a.v = "on" /\ ~p.lag -> "L:0"
      [] a.k = "B" /\ a.v = "on" /\ ~p.bio -> "B:0"
      [] OTHER -> "none"

UndoReq(p, tok) ==
    LET a   == ActDef[tok]
        inv == Inverse(p, tok)
    IN /\ inv # "none" /\ Enabled(p, a) /\ Determined(p, a)
       /\ LET t == Tmpl(p, a) IN
          /\ t # p
          /\ Enabled(t, ActDef[inv]) /\ Determined(t, ActDef[inv])
          /\ Tmpl(t, ActDef[inv]) = p

\* the obligations a real model reporting vector p must discharge for request tok (restricted to acts)
Obl(p, tok, acts) ==
    LET a == ActDef[tok] IN
    [t |-> tok,
     post |-> Tmpl(p, a),
     free |-> Free(p, a),
     refuse |-> Refuse(p, a),
     mfl |-> IF tok \in MFLActs THEN MFLKey[tok] ELSE "none",
     idem |-> IdemReq(p, tok),
     inv |-> IF UndoReq(p, tok) /\ Inverse(p, tok) \in acts THEN Inverse(p, tok) ELSE "none"]
Obls(p, acts) == {Obl(p, tok, acts) : tok \in {x \in acts : Enabled(p, ActDef[x])}}

\* ---------------------------------------------------------------- MFL rendering (ties C08 to the grammar of C18)
\* get_model_features renders a vector as one MFL statement per category; parsing it back
\* (default when a statement is absent) must give the same five MFL categories.
Render(p) ==
    [absorption |-> p.abs, elimination |-> p.elim,
     lagtime |-> IF p.lag THEN "ON" ELSE "absent",
     transits |-> IF p.tr # 0 THEN <<p.tr, IF p.depot THEN "DEPOT" ELSE "NODEPOT">> ELSE <<>>,
     peripherals |-> IF p.periph # 0 THEN <<p.periph>> ELSE <<>>]
ParseBack(m) ==
    [abs |-> m.absorption, elim |-> m.elimination, lag |-> (m.lagtime = "ON"),
     tr |-> IF m.transits = <<>> THEN 0 ELSE m.transits[1],
     periph |-> IF m.peripherals = <<>> THEN 0 ELSE m.peripherals[1]]
MFLRoundTrip(p) ==
    LET q == ParseBack(Render(p)) IN
    /\ q.abs = p.abs /\ q.elim = p.elim /\ q.lag = p.lag /\ q.tr = p.tr /\ q.periph = p.periph
    \* the depot flag is rendered only together with a transit count
    /\ (p.tr # 0 => Render(p).transits[2] = IF p.depot THEN "DEPOT" ELSE "NODEPOT")
=============================================================================
