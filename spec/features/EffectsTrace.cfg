CONSTANTS
  Models = {"pheno", "mox2", "phenoexp"}
  MaxHist = 9
  Groups = {"cov", "eta", "err", "abs"}
INIT TraceInit
NEXT TraceNext
INVARIANT EmitVer
CHECK_DEADLOCK FALSE
