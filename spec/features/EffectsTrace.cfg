CONSTANTS
  Models = {"pheno", "mox2", "phenoexp", "pheno2dv"}
  MaxHist = 9
  Groups = {"cov", "eta", "err", "abs"}
INIT TraceInit
NEXT TraceNext
INVARIANT EmitVer
CHECK_DEADLOCK FALSE
