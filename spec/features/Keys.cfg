CONSTANTS
  Sigmas <- SmallSigmas
  Labels = {n1, n2}
  Procs = {p1}
  Confs = {cdef, calt}
  Seeds = {s0, s1}
  Hists = {h1, h2}
  Vias = {"dict", "json", "code", "results"}
  MaxObs = 2
  MaxTrips = 1
  Fault = "none"
SPECIFICATION Spec
INVARIANT Functional
INVARIANT Independent
INVARIANT Injective
INVARIANT TripsEqual
INVARIANT KeyIsFunction
CHECK_DEADLOCK FALSE
