------------------------------- MODULE CompSys -------------------------------
(* Property C05 -- the compartmental system graph and its differential
   equations always agree.

   History machine over CompartmentalSystemBuilder.  State = the abstract content
   of the builder's graph:
     ins    node order of the networkx graph (Seq of compartment ids); relabelling a
            compartment (any dose / lag / bioavailability / input change) moves it to
            the END of the node order -- this is the only thing the "central
            compartment" rule, to_dict and hence the reported order depend on
     flow   set of <<src, dst, kind>>, dst = 0 is the output; kind 1 = a rate symbol
            (K_src_dst, or the quotient CL_src/V_src towards the output), kind 2 =
            the nonlinear rate VM_src_dst / (KM_src_dst + A_src(t)), kind 3 = a rate
            that is a SUM of two terms (KA_src_dst + KB_src_dst, (Q1_src + Q2_src)/V_src
            towards the output); in matrix entries and equations a sum contributes its
            two parts 31 and 32 as separate terms; kind 4 = a SECOND-ORDER rate, the rate
            itself contains an amount (K2_src_dst * A_dst(t) between compartments --
            binding --, KD_src * A_src(t) towards the output -- dimerisation), so the
            flow term rate * A_src is quadratic in the amounts
     doses  per compartment the STORED tuple of doses (1 = Bolus admid 1,
            2 = Infusion admid 2, 3 = Bolus admid 2); Compartment.doses is the view
            with infusions first
     lag, bio, inp   0 = default (0, 1, 0), 1 = a symbol (ALAG_c, F_c, R_c)
     hist, n         the builder operations performed (for replay)
   Compartments are ids into the alphabetically sorted name table, so "sorted by
   name" is "sorted by id".

   Actions = every CompartmentalSystemBuilder method.  Derived operators,
   transcribed because the property is about their mutual consistency:
   Central, Dosing (dosing_compartments), Order (_order_compartments), Matrix
   (compartmental_matrix, by position), Inputs, EqsFromMatrix (eqs), FromEqs
   (to_compartmental_system).  Reference definitions: EqsRef (per compartment:
   inflows - outflows - output + input) and the state itself.                  *)
EXTENDS Integers, Sequences, FiniteSets, TLC, Json

CONSTANTS Pool,        \* set of compartment ids that may be used
          MaxComps,    \* maximal number of compartments
          MaxFlows,    \* maximal number of flows (output flows included) of a seed system
          OutKinds,    \* rate kinds of output flows,  e.g. {1, 2}
          FlowKinds,   \* rate kinds of flows between compartments
          MaxOps,      \* number of builder operations explored after the seed system
          Thin, ThinRes, FullDepth,   \* seed systems and operations beyond FullDepth: only hash % Thin = ThinRes
          SeedThin, SeedThinFrom,   \* seed flows of systems with >= SeedThinFrom compartments are thinned by SeedThin
          SeedAscending,   \* BOOLEAN: seed compartments are added in ascending id order only (one node order per system)
          SeedInputs,      \* BOOLEAN: a seed compartment may be created with a zero-order input
          EmitConfluence,  \* BOOLEAN: every state with a confluence outside the dosing-reachable part is emitted
          SampleMod, SampleRes        \* emission sampling

VARIABLES ins, flow, doses, lag, bio, inp, hist, n, h
vars == <<ins, flow, doses, lag, bio, inp, hist, n, h>>

Name == <<"CENTRAL", "DEPOT", "EFFECT", "METABOLITE", "PERIPHERAL1", "TRANSIT1">>
NP == 6
Special == {3, 4}          \* names central_compartment refuses as central (METABOLITE, EFFECT, COMPLEX, RESPONSE)
CentralId == 1
DoseKinds == {1, 2, 3}
Admid(d) == IF d = 1 THEN 1 ELSE 2
IsInf(d) == d = 2

SeqSet(q) == {q[i] : i \in 1..Len(q)}
Comps == SeqSet(ins)
RECURSIVE Asc(_)
Asc(S) == IF S = {} THEN <<>> ELSE LET m == CHOOSE x \in S : \A y \in S : x <= y IN <<m>> \o Asc(S \ {m})
Mk6(F(_)) == <<F(1), F(2), F(3), F(4), F(5), F(6)>>
Set6(t, a, v) == Mk6(LAMBDA i : IF i = a THEN v ELSE t[i])
Zero6 == <<0, 0, 0, 0, 0, 0>>
Empty6 == <<<<>>, <<>>, <<>>, <<>>, <<>>, <<>>>>
Without(q, a) == SelectSeq(q, LAMBDA x : x # a)
ToEnd(q, a) == Append(Without(q, a), a)
\* Compartment.doses: infusions first (stable)
View(ds) == SelectSeq(ds, IsInf) \o SelectSeq(ds, LAMBDA d : ~IsInf(d))

Rate(a, b) == LET F == {f \in flow : f[1] = a /\ f[2] = b} IN IF F = {} THEN 0 ELSE (CHOOSE f \in F : TRUE)[3]
SetFlow(F, a, b, k) == {f \in F : ~(f[1] = a /\ f[2] = b)} \cup {<<a, b, k>>}

\* ---------------------------------------------------------------- hashing (thinning / sampling)
Code(op) == op.a * 7 + op.b * 3 + op.k * 5 + op.c
Mix(x, y) == (x * 31 + y) % 10007
Thinned(x) == Thin = 1 \/ x % Thin = ThinRes

WellFlows(F) == \A f, g \in F : (f[1] = g[1] /\ f[2] = g[2]) => f = g
RECURSIVE Perms(_)
Perms(S) == IF S = {} THEN {<<>>} ELSE UNION {{<<x>> \o p : p \in Perms(S \ {x})} : x \in S}

\* ---------------------------------------------------------------- seed phase: every digraph exactly once
\* While n = 0 the builder is filled in a canonical order (compartments in any node order -- one of them may be
\* created with a bolus dose, one with an input --, then flows in increasing <<src, dst>> order), so that every
\* digraph with every node order is reached exactly once.  Every state is checked; free operations (n > 0) start
\* from the seeds whose hash is selected (Thin) and are thinned again beyond FullDepth.
Op(o, a, b, k, c) == [op |-> o, a |-> a, b |-> b, k |-> k, c |-> c]
Init == /\ ins = <<>> /\ flow = {} /\ doses = Empty6 /\ lag = Zero6 /\ bio = Zero6 /\ inp = Zero6
        /\ hist = <<>> /\ n = 0 /\ h = 7
SeedLog(op) == hist' = Append(hist, op) /\ n' = 0 /\ h' = Mix(h, Code(op))
SeedAddCompartment(a, d, c) ==
    /\ n = 0 /\ flow = {} /\ a \in Pool \ Comps /\ Len(ins) < MaxComps
    /\ d = 1 => \A x \in Comps : doses[x] = <<>>
    /\ c = 1 => (SeedInputs /\ \A x \in Comps : inp[x] = 0)
    /\ SeedAscending => \A x \in Comps : x < a
    /\ ins' = Append(ins, a)
    /\ doses' = Set6(doses, a, IF d = 0 THEN <<>> ELSE <<d>>)
    /\ inp' = Set6(inp, a, c)
    /\ UNCHANGED <<flow, lag, bio>>
    /\ SeedLog(Op("add_compartment", a, 0, d, c))
SeedAddFlow(a, b, k) ==
    /\ n = 0 /\ a \in Comps /\ b \in Comps \cup {0} /\ a # b /\ Cardinality(flow) < MaxFlows
    /\ \A f \in flow : f[1] < a \/ (f[1] = a /\ f[2] < b)
    /\ (Len(ins) < SeedThinFrom \/ SeedThin = 1 \/ Mix(h, Code(Op("add_flow", a, b, k, 0))) % SeedThin = ThinRes % SeedThin)
    /\ flow' = flow \cup {<<a, b, k>>}
    /\ UNCHANGED <<ins, doses, lag, bio, inp>>
    /\ SeedLog(Op("add_flow", a, b, k, 0))
DoSeedCompartment == \E a \in Pool, d \in {0, 1}, c \in {0, 1} : SeedAddCompartment(a, d, c)
DoSeedFlow == \E a \in Comps, b \in Comps \cup {0}, k \in FlowKinds \cup OutKinds :
                 (IF b = 0 THEN k \in OutKinds ELSE k \in FlowKinds) /\ SeedAddFlow(a, b, k)

\* ---------------------------------------------------------------- builder operations (free phase)
Room == n < MaxOps /\ ins # <<>> /\ (n > 0 \/ Thinned(h))
Log(op) == /\ hist' = Append(hist, op) /\ n' = n + 1 /\ h' = Mix(h, Code(op))
           /\ (n < FullDepth \/ Thinned(Mix(h, Code(op))))

AddCompartment(a, d) ==      \* cb.add_compartment(Compartment.create(name[, doses=(Bolus,)]))
    /\ Room /\ a \in Pool \ Comps /\ Len(ins) < MaxComps
    /\ ins' = Append(ins, a)
    /\ doses' = Set6(doses, a, IF d = 0 THEN <<>> ELSE <<d>>)
    /\ lag' = Set6(lag, a, 0) /\ bio' = Set6(bio, a, 0) /\ inp' = Set6(inp, a, 0)
    /\ UNCHANGED flow
    /\ Log(Op("add_compartment", a, 0, d, 0))
RemoveCompartment(a) ==      \* cb.remove_compartment(c): the node and all its flows go
    /\ Room /\ a \in Comps
    /\ ins' = Without(ins, a)
    /\ flow' = {f \in flow : f[1] # a /\ f[2] # a}
    /\ doses' = Set6(doses, a, <<>>) /\ lag' = Set6(lag, a, 0) /\ bio' = Set6(bio, a, 0) /\ inp' = Set6(inp, a, 0)
    /\ Log(Op("remove_compartment", a, 0, 0, 0))
AddFlow(a, b, k) ==          \* cb.add_flow(src, dst|output, rate): replaces an existing rate
    /\ Room /\ a \in Comps /\ b \in Comps \cup {0} /\ a # b
    /\ flow' = SetFlow(flow, a, b, k)
    /\ UNCHANGED <<ins, doses, lag, bio, inp>>
    /\ Log(Op("add_flow", a, b, k, 0))
RemoveFlow(a, b) ==          \* cb.remove_flow(src, dst|output)
    /\ Room /\ Rate(a, b) # 0
    /\ flow' = {f \in flow : ~(f[1] = a /\ f[2] = b)}
    /\ UNCHANGED <<ins, doses, lag, bio, inp>>
    /\ Log(Op("remove_flow", a, b, 0, 0))
\* a relabelled compartment (changed value) re-enters at the end of the node order
Moved(q, a, changed) == IF changed THEN ToEnd(q, a) ELSE q
SetDose(a, ds) ==            \* cb.set_dose(c, None | dose | tuple)
    /\ Room /\ a \in Comps
    /\ doses' = Set6(doses, a, ds) /\ ins' = Moved(ins, a, ds # doses[a])
    /\ UNCHANGED <<flow, lag, bio, inp>>
    /\ Log(Op("set_dose", a, 0, 0, IF ds = <<>> THEN 0 ELSE IF Len(ds) = 1 THEN ds[1] ELSE 10 * ds[1] + ds[2]))
AddDose(a, d) ==             \* cb.add_dose(c, dose): appended to the VIEW of the present doses
    /\ Room /\ a \in Comps /\ Len(doses[a]) < 2
    /\ doses' = Set6(doses, a, Append(View(doses[a]), d)) /\ ins' = ToEnd(ins, a)
    /\ UNCHANGED <<flow, lag, bio, inp>>
    /\ Log(Op("add_dose", a, 0, d, 0))
RemoveDose(a, adm) ==        \* cb.remove_dose(c, admid=None|1|2)
    /\ Room /\ a \in Comps
    /\ LET new == IF adm = 0 THEN <<>> ELSE SelectSeq(View(doses[a]), LAMBDA d : Admid(d) # adm)
       IN doses' = Set6(doses, a, new) /\ ins' = Moved(ins, a, new # doses[a])
    /\ UNCHANGED <<flow, lag, bio, inp>>
    /\ Log(Op("remove_dose", a, 0, adm, 0))
MoveDose(a, b, adm) ==       \* cb.move_dose(src, dst, admid=None|1|2); ValueError when src has no dose
    /\ Room /\ a \in Comps /\ b \in Comps /\ a # b
    /\ IF doses[a] = <<>>
       THEN /\ UNCHANGED <<ins, flow, doses, lag, bio, inp>>
            /\ Log(Op("move_dose_refused", a, b, adm, 0))
       ELSE LET va == View(doses[a])
                moved == IF adm = 0 THEN va ELSE SelectSeq(va, LAMBDA d : Admid(d) = adm)
                na == IF adm = 0 THEN <<>> ELSE SelectSeq(va, LAMBDA d : Admid(d) # adm)
                nb == View(doses[b]) \o moved
                q1 == IF na # doses[a] /\ nb # doses[b]
                      THEN (IF \E i, j \in 1..Len(ins) : i < j /\ ins[i] = a /\ ins[j] = b
                            THEN ToEnd(ToEnd(ins, a), b) ELSE ToEnd(ToEnd(ins, b), a))
                      ELSE IF na # doses[a] THEN ToEnd(ins, a)
                      ELSE IF nb # doses[b] THEN ToEnd(ins, b) ELSE ins
            IN /\ Len(nb) <= 3
               /\ doses' = Set6(Set6(doses, a, na), b, nb) /\ ins' = q1
               /\ UNCHANGED <<flow, lag, bio, inp>>
               /\ Log(Op("move_dose", a, b, adm, 0))
SetLag(a, v) == /\ Room /\ a \in Comps /\ lag' = Set6(lag, a, v) /\ ins' = Moved(ins, a, v # lag[a])
                /\ UNCHANGED <<flow, doses, bio, inp>> /\ Log(Op("set_lag_time", a, 0, v, 0))
SetBio(a, v) == /\ Room /\ a \in Comps /\ bio' = Set6(bio, a, v) /\ ins' = Moved(ins, a, v # bio[a])
                /\ UNCHANGED <<flow, doses, lag, inp>> /\ Log(Op("set_bioavailability", a, 0, v, 0))
SetInput(a, v) == /\ Room /\ a \in Comps /\ inp' = Set6(inp, a, v) /\ ins' = Moved(ins, a, v # inp[a])
                  /\ UNCHANGED <<flow, doses, lag, bio>> /\ Log(Op("set_input", a, 0, v, 0))

DoAddCompartment == \E a \in Pool, d \in {0, 1, 2} : AddCompartment(a, d)
DoRemoveCompartment == \E a \in Comps : RemoveCompartment(a)
DoAddFlow == \E a \in Comps, b \in Comps \cup {0}, k \in FlowKinds \cup OutKinds :
                (IF b = 0 THEN k \in OutKinds ELSE k \in FlowKinds) /\ AddFlow(a, b, k)
DoRemoveFlow == \E a \in Comps, b \in Comps \cup {0} : RemoveFlow(a, b)
DoSetDose == \E a \in Comps, ds \in {<<>>, <<1>>, <<2>>, <<1, 2>>, <<3, 2>>} : SetDose(a, ds)
DoAddDose == \E a \in Comps, d \in DoseKinds : AddDose(a, d)
DoRemoveDose == \E a \in Comps, adm \in {0, 1, 2} : RemoveDose(a, adm)
DoMoveDose == \E a \in Comps, b \in Comps, adm \in {0, 1, 2} : MoveDose(a, b, adm)
DoSetLag == \E a \in Comps, v \in {0, 1} : SetLag(a, v)
DoSetBio == \E a \in Comps, v \in {0, 1} : SetBio(a, v)
DoSetInput == \E a \in Comps, v \in {0, 1} : SetInput(a, v)
Next == \/ DoSeedCompartment \/ DoSeedFlow
        \/ DoAddCompartment \/ DoRemoveCompartment \/ DoAddFlow \/ DoRemoveFlow
        \/ DoSetDose \/ DoAddDose \/ DoRemoveDose \/ DoMoveDose \/ DoSetLag \/ DoSetBio \/ DoSetInput
Spec == Init /\ [][Next]_vars

\* ---------------------------------------------------------------- derived: central, dosing compartments, order
\* central_compartment: the LAST compartment in node order with an output flow; a "special" name is replaced by
\* the compartment called CENTRAL; 0 = ValueError
CentralOf(q) == LET oc == SelectSeq(q, LAMBDA a : Rate(a, 0) # 0)
                IN IF oc = <<>> THEN 0
                   ELSE LET c == oc[Len(oc)]
                        IN IF c \in Special THEN (IF CentralId \in SeqSet(q) THEN CentralId ELSE 0) ELSE c
\* dosing_compartments (transcribed loop); <<>> = ValueError (no dose, or a dose but no central compartment)
RECURSIVE DosingLoop(_, _, _)
DosingLoop(todo, c, acc) ==
    IF todo = <<>> THEN acc
    ELSE LET x == Head(todo)
             acc1 == IF x # c
                     THEN (IF Len(acc) >= 2 THEN SubSeq(acc, 1, Len(acc) - 1) \o <<x>> \o <<acc[Len(acc)]>> ELSE <<x>> \o acc)
                     ELSE Append(acc, x)
         IN DosingLoop(Tail(todo), c, acc1)
DosingOf(q) == LET D == {a \in SeqSet(q) : doses[a] # <<>>}
                   c == CentralOf(q)
               IN IF D = {} \/ c = 0 THEN <<>> ELSE DosingLoop(Asc(D), c, <<>>)
\* nx.bfs_tree(g, src, sort_neighbors = by name, output dropped): nodes in discovery order
SuccC(a) == {f[2] : f \in {x \in flow : x[1] = a /\ x[2] # 0}}
RECURSIVE BfsFrom(_, _, _)
BfsFrom(queue, visited, out) ==
    IF queue = <<>> THEN out
    ELSE LET new == Asc(SuccC(Head(queue)) \ visited)
         IN BfsFrom(Tail(queue) \o new, visited \cup SeqSet(new), out \o new)
Bfs(a) == BfsFrom(<<a>>, {a}, <<a>>)
RECURSIVE RestLoop(_, _)
RestLoop(nodes, remaining) ==
    IF remaining = <<>> THEN nodes
    ELSE LET comp == Head(remaining)
             conn == SelectSeq(Bfs(comp), LAMBDA c : c \notin SeqSet(nodes))
         IN RestLoop(nodes \o conn, SelectSeq(Tail(remaining), LAMBDA c : c \notin SeqSet(conn)))
\* _order_compartments
OrderOf(q) == LET ds == DosingOf(q)
              IN IF ds = <<>> THEN Asc(SeqSet(q))
                 ELSE LET nodes == Bfs(ds[1])
                          rest == SeqSet(q) \ SeqSet(nodes)
                          rem == Asc({a \in rest : inp[a] # 0}) \o Asc({a \in rest : inp[a] = 0})
                      IN RestLoop(nodes, rem)
Order == OrderOf(ins)
\* CompartmentalSystem.subs (any substitution, even {}): every compartment is rebuilt from the VIEW of its doses, so a
\* compartment whose stored dose tuple is not infusions-first becomes a different node and re-enters at the end of
\* the node order -- which can change the central compartment and with it the reported order.  The changed
\* compartments re-enter in an order that depends on Python's set iteration (mapping built from a set, networkx
\* sorts it topologically when some compartments are unchanged): every permutation is admitted.
SubsChanged == {a \in Comps : doses[a] # View(doses[a])}
OrdersAfterSubs == {OrderOf(SelectSeq(ins, LAMBDA a : a \notin SubsChanged) \o p) : p \in Perms(SubsChanged)}

\* ---------------------------------------------------------------- derived: matrix, inputs, equations
\* a matrix entry / right hand side is a set of signed terms <<sign, src, dst, kind>> (a rate is identified by
\* its flow; every flow has its own rate expression) resp. <<sign, src, dst, kind, amount>>; the zero-order
\* input of compartment c is the term <<1, c, c, 0, 0>>
Neg(T) == {<<0 - t[1], t[2], t[3], t[4]>> : t \in T}
Parts(k) == IF k = 3 THEN {31, 32} ELSE {k}
Expanded(F) == {<<f[1], f[2], p>> : <<f, p>> \in {x \in F \X {1, 2, 4, 31, 32} : x[2] \in Parts(x[1][3])}}
RateT(a, b) == IF Rate(a, b) = 0 THEN {} ELSE {<<1, a, b, p>> : p \in Parts(Rate(a, b))}
\* compartmental_matrix, transcribed by position: f[j, i] = rate(i -> j); f[i, i] = -(sum of rates out of i) - outrate
MatrixOf(o) == [r \in 1..Len(o) |-> [c \in 1..Len(o) |->
                  IF r # c THEN RateT(o[c], o[r])
                  ELSE Neg(UNION {RateT(o[c], o[j]) : j \in 1..Len(o)} \cup RateT(o[c], 0))]]
InputsOf(o) == [p \in 1..Len(o) |-> inp[o[p]]]
\* eqs: row p of  Matrix * amounts + inputs
EqsFromMatrix(o) == LET M == MatrixOf(o) IN
    [p \in 1..Len(o) |-> UNION {{<<t[1], t[2], t[3], t[4], o[c]>> : t \in M[p][c]} : c \in 1..Len(o)}
                         \cup (IF InputsOf(o)[p] # 0 THEN {<<1, o[p], o[p], 0, 0>>} ELSE {})]
\* reference: the net rate of change of compartment a = inflows - outflows - output + input
EqsRef(a) == {<<1, f[1], f[2], f[3], f[1]>> : f \in {x \in Expanded(flow) : x[2] = a}}
             \cup {<<0 - 1, f[1], f[2], f[3], f[1]>> : f \in {x \in Expanded(flow) : x[1] = a}}
             \cup (IF inp[a] # 0 THEN {<<1, a, a, 0, 0>>} ELSE {})

\* to_compartmental_system(names, eqs), transcribed on term sets: a positive term with its negative twin in
\* another row is a flow between the two compartments (the terms of one pair of compartments add up to its
\* rate -- a rate that is a sum comes back part by part); remaining negative terms form the output rate,
\* remaining positive terms the zero-order input
RECURSIVE ToSeq(_, _)    \* an explicit tuple of the first n values of a function (TLC: each value is computed once)
ToSeq(f, m) == IF m = 0 THEN <<>> ELSE Append(ToSeq(f, m - 1), f[m])
FromEqs(o, E) ==
    LET rows == 1..Len(o)
        twin(t) == {r \in rows : <<0 - t[1], t[2], t[3], t[4], t[5]>> \in E[r]}
        ratet(p) == {t \in E[p] : t[4] # 0}                       \* terms rate * amount of row p
        matched(p) == {t \in ratet(p) : twin(t) # {}}
        flows == UNION {UNION {{<<o[r], o[p], t[4]>> : r \in twin(t)} : t \in {x \in matched(p) : x[1] = 1}} : p \in rows}
        outs == UNION {{<<o[p], 0, t[4]>> : t \in {x \in ratet(p) \ matched(p) : x[1] = 0 - 1}} : p \in rows}
        inputs == {o[p] : p \in {p2 \in rows : \E t \in E[p2] : t \notin matched(p2) /\ t[1] = 1}}
    IN [flow |-> flows \cup outs, inputs |-> inputs]

\* ---------------------------------------------------------------- invariants (design theorems)
TypeOK == /\ Cardinality(Comps) = Len(ins) /\ Comps \subseteq Pool
          /\ \A f \in flow : f[1] \in Comps /\ f[2] \in Comps \cup {0} /\ f[1] # f[2]
          /\ WellFlows(flow)
          /\ \A a \in 1..NP : a \notin Comps => doses[a] = <<>> /\ lag[a] = 0 /\ bio[a] = 0 /\ inp[a] = 0
\* Order is a permutation of the compartments
OrderIsPermutation == Len(Order) = Len(ins) /\ SeqSet(Order) = Comps
\* eqs == Matrix * amounts + inputs, row by row, and both are the reference right hand sides
EqsAgree == \A p \in 1..Len(Order) : EqsFromMatrix(Order)[p] = EqsRef(Order[p])
\* mass balance: in each column the positive entries cancel against the diagonal, what remains is -(output rate)
MassBalance == LET M == MatrixOf(Order) IN \A c \in 1..Len(Order) :
                  LET pos == UNION {{t \in M[r][c] : t[1] = 1} : r \in 1..Len(Order)}
                      neg == UNION {{t \in M[r][c] : t[1] = 0 - 1} : r \in 1..Len(Order)}
                  IN /\ \A t \in pos : <<0 - 1, t[2], t[3], t[4]>> \in neg
                     /\ {t \in neg : <<1, t[2], t[3], t[4]>> \notin pos} = Neg(RateT(Order[c], 0))
\* the equations determine the graph
RoundTrip == LET r == FromEqs(Order, ToSeq(EqsFromMatrix(Order), Len(Order)))
             IN r.flow = Expanded(flow) /\ r.inputs = {a \in Comps : inp[a] # 0}
\* the order depends on the node order only through the choice of the central compartment
OrderDependsOnCentralOnly == \A q \in Perms(Comps) : CentralOf(q) = CentralOf(ins) => OrderOf(q) = Order
\* ... and not at all when at most one compartment has an output flow: then every node order has the same central
\* compartment (together with OrderDependsOnCentralOnly: OrderOf(q) = Order for every node order q)
NOut == Cardinality({a \in Comps : Rate(a, 0) # 0})
OrderInsertionInvariant == NOut <= 1 => \A q \in Perms(Comps) : CentralOf(q) = CentralOf(ins)
\* dosing compartments: exactly the dosed compartments, the central one last
DosingOk == LET ds == DosingOf(ins) IN ds # <<>> =>
               /\ SeqSet(ds) = {a \in Comps : doses[a] # <<>>} /\ Len(ds) = Cardinality(SeqSet(ds))
               /\ CentralOf(ins) \in SeqSet(ds) => ds[Len(ds)] = CentralOf(ins)

\* ---------------------------------------------------------------- case emission
\* two compartments outside the part reachable from the first dosing compartment flow into a common third one that
\* is outside it as well (SRC1 -> POOL <- SRC2): the situation in which _order_compartments must not place POOL twice
ConfluenceP == LET ds == DosingOf(ins) IN ds # <<>> /\
                 LET far == Comps \ SeqSet(Bfs(ds[1]))
                 IN \E c \in far : Cardinality({a \in far : Rate(a, c) # 0}) >= 2
FlowJ(F) == {[src |-> Name[f[1]], dst |-> IF f[2] = 0 THEN "OUT" ELSE Name[f[2]], kind |-> f[3]] : f \in F}
NamesSeq(q) == [i \in 1..Len(q) |-> Name[q[i]]]
TermJ(t) == [sign |-> t[1], src |-> Name[t[2]], dst |-> IF t[3] = 0 THEN "OUT" ELSE Name[t[3]], kind |-> t[4]]
Case == LET o == Order
            M == MatrixOf(o)
        IN [hist |-> [i \in 1..Len(hist) |-> [op |-> hist[i].op, a |-> Name[hist[i].a],
                                               b |-> IF hist[i].b = 0 THEN "OUT" ELSE Name[hist[i].b],
                                               k |-> hist[i].k, c |-> hist[i].c]],
            nodes |-> NamesSeq(ins),
            flows |-> FlowJ(flow),
            comp |-> {[name |-> Name[a], doses |-> View(doses[a]), stored |-> doses[a], lag |-> lag[a], bio |-> bio[a], inp |-> inp[a]] : a \in Comps},
            central |-> IF CentralOf(ins) = 0 THEN "none" ELSE Name[CentralOf(ins)],
            nout |-> NOut,
            confluence |-> ConfluenceP,
            dosing |-> NamesSeq(DosingOf(ins)),
            order |-> NamesSeq(o),
            subs_orders |-> {NamesSeq(o2) : o2 \in OrdersAfterSubs},
            matrix |-> {[row |-> Name[o[r]], col |-> Name[o[c]], terms |-> {TermJ(t) : t \in M[r][c]}] :
                        <<r, c>> \in {x \in (1..Len(o)) \X (1..Len(o)) : M[x[1]][x[2]] # {}}},
            eqs |-> {[comp |-> Name[a],
                      terms |-> {[sign |-> t[1], src |-> Name[t[2]], dst |-> IF t[3] = 0 THEN "OUT" ELSE Name[t[3]],
                                  kind |-> t[4], amount |-> Name[t[5]]] : t \in {x \in EqsRef(a) : x[4] # 0}},
                      input |-> inp[a]] : a \in Comps}]
Sampled == ((h * 13 + Len(hist)) % 9973) % SampleMod = SampleRes
EmitCase == (Sampled \/ (EmitConfluence /\ ConfluenceP)) => PrintT(<<"CASE", ToJson(Case)>>)
=============================================================================
