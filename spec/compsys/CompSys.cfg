CONSTANTS
  Pool = {1, 2, 4}
  MaxComps = 3
  MaxFlows = 3
  OutKinds = {1, 2}
  FlowKinds = {3}
  MaxOps = 2
  Thin = 200
  ThinRes = 0
  FullDepth = 1
  SeedThin = 1
  SeedThinFrom = 9
  SeedAscending = FALSE
  SeedInputs = TRUE
  EmitConfluence = FALSE
  SampleMod = 48
  SampleRes = 0
INIT Init
NEXT Next
INVARIANT TypeOK
INVARIANT OrderIsPermutation
INVARIANT EqsAgree
INVARIANT MassBalance
INVARIANT RoundTrip
INVARIANT OrderDependsOnCentralOnly
INVARIANT OrderInsertionInvariant
INVARIANT DosingOk
INVARIANT EmitCase
CHECK_DEADLOCK FALSE
