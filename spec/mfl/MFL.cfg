INIT Init
NEXT Next
INVARIANT CanonLaw
INVARIANT AlgebraLaws
INVARIANT Emit
CHECK_DEADLOCK FALSE
