----------------------------- MODULE Partitions -----------------------------
(* Property C18, third part: "eta subsets, covariance block partitions: every
   combination exactly once".

   Two small generating machines over 1..n (n <= MaxN) and their references:

   kind "part"  the insertion machine: element k+1 either opens a new block
                (DoNewBlock) or joins an existing block (DoJoin).  The terminal
                states (k = n) are the set partitions of 1..n.
                Reference: restricted growth strings  f[1] = 1,
                f[i] <= 1 + max f[1..i-1]  <->  partitions; |.| = Bell(n).
   kind "sub"   the include / exclude machine (DoInclude, DoExclude); terminal
                states with a non-empty choice are the non-empty subsets.
                Reference: SUBSET (1..n) \ {{}}; |.| = 2^n - 1.

   "Exactly once" is the action property UniqueDerivation: the predecessor of a
   state is a function of the state (remove the last element), so the state
   graph is a tree and no terminal state is generated twice.  Completeness is the
   constant-level theorem GenIsRef (the set reached by induction over the
   insertion step equals the reference) plus the Bell / power-of-two counts.   *)
EXTENDS Naturals, FiniteSets, Sequences, TLC, Json

CONSTANT MaxN
VARIABLES kind, n, k, blocks, chosen
vars == <<kind, n, k, blocks, chosen>>

Bell == [m \in 0..6 |-> CASE m = 0 -> 1 [] m = 1 -> 1 [] m = 2 -> 2 [] m = 3 -> 5 [] m = 4 -> 15 [] m = 5 -> 52 [] m = 6 -> 203]
RECURSIVE Pow2(_)
Pow2(m) == IF m = 0 THEN 1 ELSE 2 * Pow2(m - 1)
MaxOf(S) == CHOOSE x \in S : \A y \in S : y <= x

\* ---- references
IsRGS(f, m) == m = 0 \/ (f[1] = 1 /\ \A i \in 2..m : f[i] <= 1 + MaxOf({f[j] : j \in 1..(i - 1)}))
PartOf(f, m) == {{i \in 1..m : f[i] = c} : c \in {f[j] : j \in 1..m}}
RefParts == [m \in 0..MaxN |-> {PartOf(f, m) : f \in {h \in [1..m -> 1..m] : IsRGS(h, m)}}]
RefSubs == [m \in 0..MaxN |-> SUBSET (1..m) \ {{}}]
IsPartition(P, S) == /\ UNION P = S /\ {} \notin P
                     /\ \A x, y \in P : x # y => x \cap y = {}

\* ---- the insertion step as a function on sets of partitions (induction)
Children(P, e) == {P \cup {{e}}} \cup {(P \ {bl}) \cup {bl \cup {e}} : bl \in P}
RECURSIVE Gen(_)
Gen(m) == IF m = 0 THEN {{}} ELSE UNION {Children(P, m) : P \in Gen(m - 1)}

ASSUME BellCount == \A m \in 0..MaxN : Cardinality(RefParts[m]) = Bell[m]
ASSUME RefAreParts == \A m \in 0..MaxN : \A P \in RefParts[m] : IsPartition(P, 1..m)
ASSUME GenIsRef == \A m \in 0..MaxN : Gen(m) = RefParts[m]
ASSUME SubCount == \A m \in 0..MaxN : Cardinality(RefSubs[m]) + 1 = Pow2(m)

\* ---- machines
Init == /\ kind \in {"part", "sub"} /\ n \in 0..MaxN /\ k = 0 /\ blocks = {} /\ chosen = {}
DoNewBlock == /\ kind = "part" /\ k < n
              /\ blocks' = blocks \cup {{k + 1}} /\ k' = k + 1 /\ UNCHANGED <<kind, n, chosen>>
DoJoin == /\ kind = "part" /\ k < n
          /\ \E bl \in blocks : blocks' = (blocks \ {bl}) \cup {bl \cup {k + 1}}
          /\ k' = k + 1 /\ UNCHANGED <<kind, n, chosen>>
DoInclude == /\ kind = "sub" /\ k < n
             /\ chosen' = chosen \cup {k + 1} /\ k' = k + 1 /\ UNCHANGED <<kind, n, blocks>>
DoExclude == /\ kind = "sub" /\ k < n
             /\ k' = k + 1 /\ UNCHANGED <<kind, n, blocks, chosen>>
Next == DoNewBlock \/ DoJoin \/ DoInclude \/ DoExclude
Spec == Init /\ [][Next]_vars

\* ---- properties
WellFormed == /\ kind = "part" => IsPartition(blocks, 1..k)
              /\ kind = "sub" => chosen \subseteq 1..k
TerminalIsRef == k = n => /\ kind = "part" => blocks \in RefParts[n]
                          /\ (kind = "sub" /\ chosen # {}) => chosen \in RefSubs[n]
Uninsert(P, e) == {bl \ {e} : bl \in P} \ {{}}
UniqueDerivation == [][/\ kind = "part" => Uninsert(blocks', k') = blocks
                       /\ kind = "sub" => chosen' \cap (1..k) = chosen]_vars

Emit == /\ (k = n /\ kind = "part") => PrintT(<<"PART", ToJson([n |-> n, blocks |-> blocks])>>)
        /\ (k = n /\ kind = "sub" /\ chosen # {}) => PrintT(<<"SUB", ToJson([n |-> n, chosen |-> chosen])>>)
        /\ (k = 0 /\ kind = "part") => PrintT(<<"REF", ToJson([n |-> n, bell |-> Bell[n], nsub |-> Pow2(n) - 1])>>)
=============================================================================
