------------------------------ MODULE Stepwise ------------------------------
(* Property C18, second half: what the three modelsearch algorithms enumerate.

   A case is a set of features  [c |-> category, t |-> token, n |-> count]
   (ABSORPTION/ELIMINATION/LAGTIME: t = mode; TRANSITS: n = count, t = depot;
   PERIPHERALS: n = count), given as a sequence; features are referred to by
   their index.  Three machines share the rule `Allowed`:

   mode "paths"   (exhaustive_stepwise)  state = the path = the sequence of features
                  applied so far; DoAppend appends a feature the documented rules
                  allow.  The reachable non-empty paths ARE the candidates: one
                  candidate per path.
   mode "layers"  (reduced_stepwise)  state = the current layer, a set of nodes, a
                  node = the set of paths merged into it.  DoExtend creates the
                  candidates of the next layer (one per node and allowed feature),
                  DoMerge joins the candidates that have the same features.
   exhaustive     all non-empty choices of at most one feature per category (set
                  comprehension, emitted with the root state of mode "paths").

   Documented rules (docs/modelsearch.rst):
     R1  a feature is applied at most once, and at most one feature per category
         on a path (PERIPHERALS are the exception: they are added sequentially)
     R2  peripheral compartments in increasing order: the only peripheral feature
         that may be appended is the smallest count of the space that exceeds
         every count already applied
     R3  the six incompatible pairs of the table "Feature combination exclusions"
   Named deviations (exist only as comments in algorithms.py; switched on by the
   constant CodeCommentExclusions so that they do not raise alarms):
     D1  TRANSITS(0, NODEPOT) is never applied ("equivalent to instantaneous absorption")
     D2  ABSORPTION(FO) and TRANSITS(1, NODEPOT) are never combined

   Allowed depends on the path only through its SET of features, which is what
   makes the reduced algorithm well defined.  Theorems checked by TLC:
     ReducedIsProjection  the candidates of layer k of the layered machine are
                          exactly the pairs (S, f), S the feature set of a path of
                          length k-1, f allowed after S; the node of (S, f) holds
                          all paths that reach S followed by f
     CombosCount          |exhaustive| = prod (1 + options per category) - 1
     PathsWellFormed      every reachable path respects R1-R3 pairwise         *)
EXTENDS Naturals, Sequences, FiniteSets, TLC, Json, IOUtils

CONSTANTS CodeCommentExclusions

Cases == JsonDeserialize(IOEnv.CASES)      \* Seq([id, feats : Seq(feature)])

VARIABLES cid, mode, path, layer, cands, k
vars == <<cid, mode, path, layer, cands, k>>

SeqSet(s) == {s[i] : i \in 1..Len(s)}
Min(S) == CHOOSE x \in S : \A y \in S : x <= y
Feats == Cases[cid].feats
Idx == 1..Len(Feats)
F(i) == Feats[i]
IsPer(i) == F(i).c = "PERIPHERALS"
PerCounts == {F(i).n : i \in {j \in Idx : IsPer(j)}}

Pair(x, y, cx, tx, cy) == x.c = cx /\ x.t = tx /\ y.c = cy
DocIncompatible(x, y) ==
    \/ Pair(x, y, "ABSORPTION", "ZO", "TRANSITS")
    \/ Pair(x, y, "ABSORPTION", "SEQ-ZO-FO", "TRANSITS")
    \/ (Pair(x, y, "ABSORPTION", "SEQ-ZO-FO", "LAGTIME") /\ y.t = "ON")
    \/ (Pair(x, y, "ABSORPTION", "INST", "LAGTIME") /\ y.t = "ON")
    \/ Pair(x, y, "ABSORPTION", "INST", "TRANSITS")
    \/ Pair(x, y, "LAGTIME", "ON", "TRANSITS")
CommentIncompatible(x, y) ==
    CodeCommentExclusions /\ Pair(x, y, "ABSORPTION", "FO", "TRANSITS") /\ y.n = 1 /\ y.t = "NODEPOT"
Incompatible(x, y) == DocIncompatible(x, y) \/ DocIncompatible(y, x) \/ CommentIncompatible(x, y) \/ CommentIncompatible(y, x)
NeverApplied(x) == CodeCommentExclusions /\ x.c = "TRANSITS" /\ x.n = 0 /\ x.t = "NODEPOT"

\* may feature i be appended to a path whose set of features is S ?
Allowed(S, i) ==
    /\ i \notin S
    /\ IF IsPer(i)
       THEN LET done == {F(j).n : j \in {x \in S : IsPer(x)}}
                next == {m \in PerCounts : \A d \in done : m > d}
            IN next # {} /\ F(i).n = Min(next)
       ELSE /\ \A j \in S : F(j).c # F(i).c
            /\ \A j \in S : ~Incompatible(F(i), F(j))
            /\ ~NeverApplied(F(i))
AllowedAfter(S) == {i \in Idx : Allowed(S, i)}

\* ---------------------------------------------------------------- references by recursion (no state)
RECURSIVE PathsOfLen(_)
PathsOfLen(j) == IF j = 0 THEN {<<>>}
                 ELSE {Append(p, f) : <<p, f>> \in {<<q, g>> \in PathsOfLen(j - 1) \X Idx : Allowed(SeqSet(q), g)}}
Categories == {F(i).c : i \in Idx}
OfCat(c) == {i \in Idx : F(i).c = c}
Combos == {s \in SUBSET Idx : s # {} /\ \A i, j \in s : i # j => F(i).c # F(j).c}
RECURSIVE Prod(_)
Prod(cs) == IF cs = {} THEN 1 ELSE LET c == CHOOSE x \in cs : TRUE IN (1 + Cardinality(OfCat(c))) * Prod(cs \ {c})

\* ---------------------------------------------------------------- the machines
Init == /\ cid \in 1..Len(Cases) /\ mode \in {"paths", "layers"}
        /\ path = <<>> /\ layer = {{<<>>}} /\ cands = {} /\ k = 0

Append1(f) == /\ mode = "paths" /\ Allowed(SeqSet(path), f)
              /\ path' = Append(path, f)
              /\ UNCHANGED <<cid, mode, layer, cands, k>>
DoAppend == \E f \in Idx : Append1(f)

FeatSet(node) == SeqSet(CHOOSE p \in node : TRUE)
Ext(node, f) == {Append(p, f) : p \in node}
DoExtend == /\ mode = "layers"
            /\ cands' = {Ext(n, f) : <<n, f>> \in {<<m, g>> \in layer \X Idx : Allowed(FeatSet(m), g)}}
            /\ cands' # {}
            /\ mode' = "merge" /\ k' = k + 1
            /\ UNCHANGED <<cid, path, layer>>
DoMerge == /\ mode = "merge"
           /\ layer' = {UNION {c \in cands : FeatSet(c) = S} : S \in {FeatSet(c) : c \in cands}}
           /\ mode' = "layers"
           /\ UNCHANGED <<cid, path, cands, k>>
Next == DoAppend \/ DoExtend \/ DoMerge
Spec == Init /\ [][Next]_vars

\* ---------------------------------------------------------------- theorems
LastOf(c) == LET p == CHOOSE q \in c : TRUE IN p[Len(p)]
PrefixSet(c) == LET p == CHOOSE q \in c : TRUE IN {p[i] : i \in 1..(Len(p) - 1)}
ReducedIsProjection == mode = "merge" =>
    /\ {<<PrefixSet(c), LastOf(c)>> : c \in cands}
         = {<<SeqSet(p), f>> : <<p, f>> \in {<<q, g>> \in PathsOfLen(k - 1) \X Idx : Allowed(SeqSet(q), g)}}
    /\ \A c \in cands : c = {p \in PathsOfLen(k) : p[k] = LastOf(c) /\ {p[i] : i \in 1..(k - 1)} = PrefixSet(c)}
    /\ UNION cands = PathsOfLen(k)
CombosCount == (mode = "paths" /\ path = <<>>) => Cardinality(Combos) + 1 = Prod(Categories)
PathsWellFormed == mode = "paths" =>
    /\ \A i, j \in 1..Len(path) : i < j =>
         /\ path[i] # path[j]
         /\ ~Incompatible(F(path[i]), F(path[j]))
         /\ (~IsPer(path[i]) => F(path[i]).c # F(path[j]).c)
         /\ (IsPer(path[i]) /\ IsPer(path[j]) => F(path[i]).n < F(path[j]).n)
    /\ path \in PathsOfLen(Len(path))

\* ---------------------------------------------------------------- emission
Emit == /\ (mode = "paths" /\ path # <<>>) => PrintT(<<"PATH", ToJson([id |-> Cases[cid].id, p |-> path])>>)
        /\ (mode = "paths" /\ path = <<>>) => PrintT(<<"COMBOS", ToJson([id |-> Cases[cid].id, combos |-> Combos])>>)
        /\ mode = "merge" => PrintT(<<"LAYER", ToJson([id |-> Cases[cid].id, k |-> k, cands |-> cands])>>)
=============================================================================
