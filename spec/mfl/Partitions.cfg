CONSTANTS
  MaxN = 5
INIT Init
NEXT Next
INVARIANT WellFormed
INVARIANT TerminalIsRef
INVARIANT Emit
PROPERTY UniqueDerivation
CHECK_DEADLOCK FALSE
