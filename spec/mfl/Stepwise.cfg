CONSTANTS
  CodeCommentExclusions = TRUE
INIT Init
NEXT Next
INVARIANT ReducedIsProjection
INVARIANT CombosCount
INVARIANT PathsWellFormed
INVARIANT Emit
CHECK_DEADLOCK FALSE
