-------------------------------- MODULE MFL --------------------------------
(* Property C18, first half: a model-feature-language (MFL) description denotes a
   SEARCH SPACE = for every feature category a plain SET of options, and the
   algebra of search spaces is plain set algebra on those sets.

   Abstract syntax: a space is a sequence of ITEMS taken from an alphabet (a JSON
   file shared with the driver, which only renders the very same ASTs as text);
   an item is a short sequence of statements (a LET travels with the COVARIATE
   that refers to it).  See harness/c18_ast.py for the statement shapes.

   Transition system: the space A and then the space B are built one item at a
   time (DoPushA, DoCloseA, DoPushB, DoCloseB).  Every closed A is emitted with
   its reference meaning (Exp), its canonical printed form (Canon) and the
   documented refusals; every closed pair is emitted with Union, the admitted
   results of Diff, Subset and the least-number-of-transformations obligation.

   Reference layer (what the property states):
     Exp(S)[c]      union over the statements of category c of the listed /
                    ranged / wildcard options; defaults for the absent PK
                    categories when any PK category is present (documented table)
     Union, Diff    pointwise on categories
     Subset         pointwise inclusion (on the PK categories contain_subset covers)
     LNT            one transformation, into an option of B, for exactly the
                    categories where A and B share no option
   Design-level theorems checked on every enumerated state (invariants below):
     CanonLaw       Exp(Canon(S)) = Exp(S)          (the stringify/parse law)
     AlgebraLaws =
      SubsetIsUnion  B subset of A  <=>  A union B = A <=> combinations(B) subset combinations(A)
      DiffLaw        (A \ B) disjoint from B, and (A \ B) union (A intersect B) = A
      LntLaw         applying the LNT transformations makes A part of B; no proper
                     subset of them does                                         *)
EXTENDS Naturals, Sequences, FiniteSets, TLC, Json, IOUtils

Items  == JsonDeserialize(IOEnv.ITEMS)     \* Seq(item); item = Seq(statement)
Groups == JsonDeserialize(IOEnv.GROUPS)    \* Seq([ids : Seq(item id), maxA, maxB]): the focus groups spaces are drawn from

VARIABLES g, a, b, phase
vars == <<g, a, b, phase>>

SeqSet(s) == {s[i] : i \in 1..Len(s)}
RECURSIVE Flat(_)
Flat(ss) == IF ss = <<>> THEN <<>> ELSE Head(ss) \o Flat(Tail(ss))
Stmts(ids) == Flat([i \in 1..Len(ids) |-> Items[ids[i]]])
Max(S) == CHOOSE x \in S : \A y \in S : y <= x

\* ------------------------------------------------------------------ vocabulary
AbsAll   == {"FO", "ZO", "SEQ-ZO-FO", "INST"}
ElimAll  == {"FO", "ZO", "MM", "MIX-FO-MM"}
LagAll   == {"ON", "OFF"}
PdAll    == {"LINEAR", "EMAX", "SIGMOID"}
ProdAll  == {"DEGRADATION", "PRODUCTION"}
MetAll   == {"PSC", "BASIC"}
DepotAll == {"DEPOT", "NODEPOT"}
PerAll   == {"DRUG", "MET"}
ContFps  == {"LIN", "PIECE_LIN", "EXP", "POW"}     \* `*` = all continuous effects
ModeAll(k) == CASE k = "ABSORPTION" -> AbsAll [] k = "ELIMINATION" -> ElimAll [] k = "LAGTIME" -> LagAll
                [] k = "DIRECTEFFECT" -> PdAll [] k = "EFFECTCOMP" -> PdAll [] k = "INDIRECTEFFECT" -> PdAll
                [] k = "METABOLITE" -> MetAll

Cats == {"ABSORPTION", "ELIMINATION", "TRANSITS", "PERDRUG", "PERMET", "LAGTIME",
         "DIRECT", "EFFECTCOMP", "INDIRECT", "METABOLITE", "COVARIATE"}
PkCats == {"ABSORPTION", "ELIMINATION", "TRANSITS", "PERDRUG", "LAGTIME"}      \* what contain_subset covers
LntCats == Cats \ {"COVARIATE"}                                              \* covariates need a model
HelperCats == {"ABSORPTION", "ELIMINATION", "LAGTIME", "DIRECT", "EFFECTCOMP", "METABOLITE"}

\* ------------------------------------------------------------------ meaning of one statement
Arg1(st) == IF st.form = "wild" THEN ModeAll(st.k)
            ELSE IF st.form = "range" THEN st.v[1]..st.v[2]
            ELSE SeqSet(st.v)
Arg2(st, dflt, all) == IF st.f2 = "none" THEN {dflt} ELSE IF st.f2 = "wild" THEN all ELSE SeqSet(st.v2)

OfKind(S, k) == {S[i] : i \in {j \in 1..Len(S) : S[j].k = k}}
Modes(S, k) == UNION {Arg1(st) : st \in OfKind(S, k)}
TransitsOf(S) == UNION {Arg1(st) \X Arg2(st, "DEPOT", DepotAll) : st \in OfKind(S, "TRANSITS")}
PerOf(S, m) == UNION {Arg1(st) : st \in {x \in OfKind(S, "PERIPHERALS") : m \in Arg2(x, "DRUG", PerAll)}}
IndirectOf(S) == UNION {Arg1(st) \X Arg2(st, "PRODUCTION", ProdAll) : st \in OfKind(S, "INDIRECTEFFECT")}

\* LET(name, values): the last definition of a name wins; a reference without definition is not generated
LetIdx(S, name) == {i \in 1..Len(S) : S[i].k = "LET" /\ S[i].name = name}
Names(S, form, v) == IF form = "ref" THEN SeqSet(S[Max(LetIdx(S, v[1]))].v) ELSE SeqSet(v)
Fps(st) == IF st.eform = "wild" THEN ContFps ELSE SeqSet(st.e)
Op(st) == IF st.op = "none" THEN "*" ELSE st.op
\* an exploratory effect `COVARIATE?` can be present or absent, a structural one is always present
Flags(st) == IF st.opt THEN {"ADD", "REMOVE"} ELSE {"ADD"}
CovOf(S) == UNION {Names(S, st.pform, st.p) \X Names(S, st.cform, st.c) \X Fps(st) \X {Op(st)} \X Flags(st)
                   : st \in OfKind(S, "COVARIATE")}

Raw(S) == [ABSORPTION |-> Modes(S, "ABSORPTION"), ELIMINATION |-> Modes(S, "ELIMINATION"),
           TRANSITS |-> TransitsOf(S), PERDRUG |-> PerOf(S, "DRUG"), PERMET |-> PerOf(S, "MET"),
           LAGTIME |-> Modes(S, "LAGTIME"), DIRECT |-> Modes(S, "DIRECTEFFECT"),
           EFFECTCOMP |-> Modes(S, "EFFECTCOMP"), INDIRECT |-> IndirectOf(S),
           METABOLITE |-> Modes(S, "METABOLITE"), COVARIATE |-> CovOf(S)]

\* documented defaults (docs/modelsearch.rst): used for a PK category that is not given
Default == [ABSORPTION |-> {"INST"}, ELIMINATION |-> {"FO"}, TRANSITS |-> {<<0, "DEPOT">>}, PERDRUG |-> {0},
            PERMET |-> {}, LAGTIME |-> {"OFF"}, DIRECT |-> {}, EFFECTCOMP |-> {}, INDIRECT |-> {},
            METABOLITE |-> {}, COVARIATE |-> {}]
PkPresent(R) == \E c \in {"ABSORPTION", "ELIMINATION", "TRANSITS", "PERDRUG", "PERMET", "LAGTIME", "METABOLITE"} : R[c] # {}
Normalize(R) ==
    IF ~PkPresent(R) THEN R
    ELSE [c \in Cats |-> IF R[c] # {} THEN R[c]
                         ELSE IF c = "PERDRUG" THEN (IF R.PERMET = {} THEN {0} ELSE {})
                         ELSE IF c \in PkCats THEN Default[c] ELSE {}]
Exp(S) == Normalize(Raw(S))

\* documented refusals of the parser (ValueError)
\* (a structural effect named once explicitly and once through a LET reference is accepted by the parser but its
\*  printed form is refused; the documentation is silent: the refusal is admitted, not required, nothing else is judged)
ForcedPairs(S, st) == Names(S, st.pform, st.p) \X Names(S, st.cform, st.c)
ForcedIdx(S) == {i \in 1..Len(S) : S[i].k = "COVARIATE" /\ ~S[i].opt}
ForcedTwice(S) == \E i, j \in ForcedIdx(S) : i < j /\ ForcedPairs(S, S[i]) \cap ForcedPairs(S, S[j]) # {}
MandatoryWild(S) == \E st \in OfKind(S, "COVARIATE") : ~st.opt /\ st.eform = "wild"
Refusal(S) == IF MandatoryWild(S) THEN "MandatoryWild" ELSE IF ForcedTwice(S) THEN "ForcedTwice" ELSE "none"

\* ALLOMETRY(cov[, ref]) is a setting, not a set: the last one counts, the reference value defaults to 70
AllomIdx(S) == {i \in 1..Len(S) : S[i].k = "ALLOMETRY"}
Allom(S) == IF AllomIdx(S) = {} THEN <<>>
            ELSE LET st == S[Max(AllomIdx(S))] IN <<st.cov, IF st.ref = "none" THEN "70" ELSE st.ref>>

\* syntactic wildcards per kind (classification of cases only)
WildKinds(S) == {S[i].k : i \in {j \in 1..Len(S) : S[j].k \notin {"COVARIATE", "LET", "ALLOMETRY"} /\
                                    (S[j].form = "wild" \/ (S[j].k \in {"TRANSITS", "PERIPHERALS", "INDIRECTEFFECT"} /\ S[j].f2 = "wild"))}}

\* ------------------------------------------------------------------ canonical printed form (stringify)
IsIntKind(k) == k \in {"TRANSITS", "PERIPHERALS"}
ListOf(st) == IF st.form = "range" THEN [i \in 1..(st.v[2] + 1 - st.v[1]) |-> st.v[1] + i - 1] ELSE st.v
IsRun(L) == Len(L) >= 2 /\ \A i \in 1..(Len(L) - 1) : L[i + 1] = L[i] + 1
CanonArg(form, L, isInt) ==
    IF form = "wild" THEN [form |-> "wild", v |-> <<>>]
    ELSE IF form = "ref" THEN [form |-> "ref", v |-> L]
    ELSE IF Len(L) = 1 THEN [form |-> "one", v |-> L]
    ELSE IF isInt /\ IsRun(L) THEN [form |-> "range", v |-> <<L[1], L[Len(L)]>>]
    ELSE [form |-> "list", v |-> L]
CanonStmt(st) ==
    IF st.k \in {"ABSORPTION", "ELIMINATION", "LAGTIME", "DIRECTEFFECT", "EFFECTCOMP", "METABOLITE"}
    THEN LET c == CanonArg(st.form, st.v, FALSE) IN [k |-> st.k, form |-> c.form, v |-> c.v]
    ELSE IF st.k \in {"TRANSITS", "PERIPHERALS", "INDIRECTEFFECT"}
    THEN LET c1 == CanonArg(st.form, ListOf(st), IsIntKind(st.k))
             dflt == IF st.k = "TRANSITS" THEN <<"DEPOT">> ELSE IF st.k = "PERIPHERALS" THEN <<"DRUG">> ELSE <<"-">>
             c2 == IF st.f2 = "none" \/ (st.f2 # "wild" /\ st.v2 = dflt) THEN [form |-> "none", v |-> <<>>]
                   ELSE CanonArg(st.f2, st.v2, FALSE)
         IN [k |-> st.k, form |-> c1.form, v |-> c1.v, f2 |-> c2.form, v2 |-> c2.v]
    ELSE IF st.k = "COVARIATE"
    THEN LET p == CanonArg(st.pform, st.p, FALSE)
             c == CanonArg(st.cform, st.c, FALSE)
             e == CanonArg(st.eform, st.e, FALSE)
         IN [k |-> st.k, opt |-> st.opt, pform |-> p.form, p |-> p.v, cform |-> c.form, c |-> c.v,
             eform |-> e.form, e |-> e.v, op |-> IF st.op = "+" THEN "+" ELSE "none"]
    ELSE IF st.k = "LET"
    THEN LET c == CanonArg(st.form, st.v, FALSE) IN [k |-> st.k, name |-> st.name, form |-> c.form, v |-> c.v]
    ELSE [k |-> st.k, cov |-> st.cov, ref |-> IF st.ref = "70" THEN "none" ELSE st.ref]
Canon(S) == [i \in 1..Len(S) |-> CanonStmt(S[i])]

\* ------------------------------------------------------------------ algebra on expanded spaces
Union(A, B) == Normalize([c \in Cats |-> A[c] \cup B[c]])
Diff(A, B) == [c \in Cats |-> A[c] \ B[c]]
\* An empty category is not representable for the PK categories: the documentation is silent on what an empty
\* difference looks like, the reference admits "nothing" and "the default option"
DiffAdmit(A, B) == LET d == Diff(A, B) IN
                   [c \in Cats \ {"COVARIATE"} |-> IF d[c] # {} THEN {d[c]} ELSE {{}, Default[c]}]
\* covariate effects: the flag (structural / exploratory) is an attribute of the effect (p, c, fp, op); an effect
\* B does not mention stays; one B mentions with the same flag goes; with the other flag: unspecified
Eff(kk) == <<kk[1], kk[2], kk[3], kk[4]>>
FlagsOf(X, e) == {kk[5] : kk \in {y \in X : Eff(y) = e}}
CovMust(A, B) == {kk \in A.COVARIATE : Eff(kk) \notin {Eff(y) : y \in B.COVARIATE}}
CovMay(A, B) == {kk \in A.COVARIATE : Eff(kk) \in {Eff(y) : y \in B.COVARIATE}
                                      /\ FlagsOf(A.COVARIATE, Eff(kk)) # FlagsOf(B.COVARIATE, Eff(kk))}

\* the parser refuses a structural effect on the same (parameter, covariate) in two statements; a space in which a
\* pair is forced with two different operations can therefore not be written down: its printed form is not judged
Forced(X) == {kk \in X.COVARIATE : kk[5] = "ADD" /\ "REMOVE" \notin FlagsOf(X.COVARIATE, Eff(kk))}
Unprintable(X) == \E x, y \in Forced(X) : x[1] = y[1] /\ x[2] = y[2] /\ x[4] # y[4]

SubsetPk(A, B) == \A c \in PkCats : B[c] \subseteq A[c]
\* the weaker component-wise test on transits (counts and depots separately)
SubsetComp(A, B) == /\ \A c \in PkCats \ {"TRANSITS"} : B[c] \subseteq A[c]
                    /\ {t[1] : t \in B.TRANSITS} \subseteq {t[1] : t \in A.TRANSITS}
                    /\ {t[2] : t \in B.TRANSITS} \subseteq {t[2] : t \in A.TRANSITS}

LntNeed(A, B) == {c \in LntCats : B[c] # {} /\ A[c] \cap B[c] = {}}
LntRefusal(A, B) == \E c \in HelperCats : (A[c] = {}) # (B[c] = {})
ApplyLnt(A, B, cs) == [c \in Cats |-> IF c \in cs THEN {CHOOSE x \in B[c] : TRUE} ELSE A[c]]

\* explicit combinations of the PK categories (guarded: only evaluated on small spaces)
NComb(X) == Cardinality(X.ABSORPTION) * Cardinality(X.ELIMINATION) * Cardinality(X.TRANSITS)
            * Cardinality(X.PERDRUG) * Cardinality(X.LAGTIME)
Combos(X) == {[ABSORPTION |-> x1, ELIMINATION |-> x2, TRANSITS |-> x3, PERDRUG |-> x4, LAGTIME |-> x5] :
              x1 \in X.ABSORPTION, x2 \in X.ELIMINATION, x3 \in X.TRANSITS, x4 \in X.PERDRUG, x5 \in X.LAGTIME}

\* ------------------------------------------------------------------ the enumerating machine
Init == g \in 1..Len(Groups) /\ a = <<>> /\ b = <<>> /\ phase = "A"
PushA(i) == phase = "A" /\ Len(a) < Groups[g].maxA /\ a' = Append(a, i) /\ UNCHANGED <<g, b, phase>>
CloseA == phase = "A" /\ Len(a) >= 1 /\ phase' = "B" /\ UNCHANGED <<g, a, b>>
PushB(i) == phase = "B" /\ Len(b) < Groups[g].maxB /\ b' = Append(b, i) /\ UNCHANGED <<g, a, phase>>
CloseB == phase = "B" /\ Len(b) >= 1 /\ phase' = "done" /\ UNCHANGED <<g, a, b>>
DoPushA == \E i \in SeqSet(Groups[g].ids) : PushA(i)
DoCloseA == CloseA
DoPushB == \E i \in SeqSet(Groups[g].ids) : PushB(i)
DoCloseB == CloseB
Next == DoPushA \/ DoCloseA \/ DoPushB \/ DoCloseB
Spec == Init /\ [][Next]_vars

SA == Stmts(a)
SB == Stmts(b)
EA == Exp(SA)
EB == Exp(SB)
Closed == phase = "B" /\ b = <<>>
Done == phase = "done"
Judged == Refusal(SA) = "none" /\ Refusal(SB) = "none"

\* ------------------------------------------------------------------ design-level theorems
\* (LET binds the expansions once per state: TLC does not cache zero-arity state functions)
CanonLaw == Closed => LET sa == SA  ea == Exp(sa)  ca == Canon(sa) IN
                      /\ Exp(ca) = ea
                      /\ Refusal(ca) = Refusal(sa)
                      /\ Allom(ca) = Allom(sa)
                      /\ Canon(ca) = ca
SubsetIsUnionAt(ea, eb) ==
    /\ SubsetPk(ea, eb) <=> (\A c \in PkCats : Union(ea, eb)[c] = ea[c])
    \* (a space whose only peripherals are metabolite ones has no DRUG option: no PK combination at all)
    /\ (NComb(eb) >= 1 /\ NComb(ea) <= 400 /\ NComb(eb) <= 400)
          => (SubsetPk(ea, eb) <=> Combos(eb) \subseteq Combos(ea))
    /\ SubsetPk(ea, eb) => SubsetComp(ea, eb)
DiffLawAt(ea, eb) == LET d == Diff(ea, eb)  du == Diff(Union(ea, eb), eb) IN \A c \in Cats :
    /\ d[c] \cap eb[c] = {}
    /\ d[c] \cup (ea[c] \cap eb[c]) = ea[c]
    /\ du[c] = d[c]
LntLawAt(ea, eb) ==
    LET need == LntNeed(ea, eb) IN
    /\ LntNeed(ApplyLnt(ea, eb, need), eb) = {}
    /\ \A c \in need : LntNeed(ApplyLnt(ea, eb, need \ {c}), eb) = {c}
    /\ (need = {}) <=> (\A c \in LntCats : eb[c] = {} \/ ea[c] \cap eb[c] # {})
AlgebraLaws == (Done /\ Judged) => LET ea == EA  eb == EB IN
                   SubsetIsUnionAt(ea, eb) /\ DiffLawAt(ea, eb) /\ LntLawAt(ea, eb)

\* ------------------------------------------------------------------ case emission
SpaceRec == LET sa == SA  ea == Exp(sa) IN
            [ids |-> a, exp |-> ea, refusal |-> Refusal(sa), canon |-> Canon(sa), wild |-> WildKinds(sa),
             allom |-> Allom(sa), pk |-> PkPresent(ea)]
PairRec == LET j == Judged  ea == EA  eb == EB  un == Union(ea, eb) IN
           [a |-> a, b |-> b, judged |-> j,
            un |-> IF j THEN un ELSE <<>>,
            unPrintable |-> IF j THEN Unprintable(un) ELSE FALSE,
            dfAdmit |-> IF j THEN DiffAdmit(ea, eb) ELSE <<>>,
            covMust |-> IF j THEN CovMust(ea, eb) ELSE {},
            covMay |-> IF j THEN CovMay(ea, eb) ELSE {},
            sub |-> j /\ SubsetPk(ea, eb),
            crossDepot |-> j /\ SubsetComp(ea, eb) /\ ~SubsetPk(ea, eb),
            lntNeed |-> IF j THEN LntNeed(ea, eb) ELSE {},
            lntRefusal |-> j /\ LntRefusal(ea, eb),
            pdEmptyDiff |-> j /\ \E c \in {"DIRECT", "EFFECTCOMP", "METABOLITE"} :
                                     ea[c] # {} /\ eb[c] # {} /\ ea[c] # eb[c] /\ ea[c] \subseteq eb[c]]
Emit == /\ Closed => PrintT(<<"SPACE", ToJson(SpaceRec)>>)
        /\ Done => PrintT(<<"PAIR", ToJson(PairRec)>>)
=============================================================================
