------------------------------ MODULE Statements ------------------------------
(* Property C10 -- statement dataflow analyses are sound.

   The machine.  A state is a straight-line program together with the result
   of executing it:  <<pc, prog, env, ode, dep, vals>>.  One action appends ONE
   statement and executes it (pc' = pc + 1) -- sequential execution is the
   transition relation itself, so every reachable state is a program with its
   reference semantics, and every prefix of a program is a reachable state.

   Values.  Every expression of the alphabet is a sum of atoms (symbols,
   leaves, the constant) possibly under the single guard  x1 > 0,  so a value
   is a pair of linear forms  [t |-> form, f |-> form]  (value where the guard
   holds / where it does not), a form being a coefficient vector over the
   atoms.  Two such values are equal as functions of the leaves iff the
   vectors are equal (no cancellation: coefficients are naturals).  A symbol
   that is read before it has been assigned denotes its own initial value
   (env[s] = Unit(s) initially) -- this is also what reverse substitution
   leaves behind.

   The ODE statement (at most one) defines the amount atom a1 as an opaque
   function of the values, at that point, of its elimination rate AND of the
   zero-order input of a second, dose-less compartment that feeds the first
   (ode.t / ode.f = <<rate value, input value>> per truth value of the guard)
   and of the dose leaf amt: the ODE statement reads earlier definitions through
   a flow rate and through a compartment attribute.

   Layers.
     reference  : Step / RunSeq (interpreter), DepLo / DepUp, RefReassign,
                  RefSubs, RefFind, Admissible (remove_symbol_definitions),
                  UsedLeaves
     design     : FullExpr (reverse substitution), DepGraph + DepImpl (BFS of
                  networkx with reversed-sorted neighbours), RemoveImpl,
                  ReassignImpl  -- transcriptions of pharmpy's algorithms
                  (as repaired by the fix commits 3eefa1d and 108b1c2)
   TLC checks the design theorems (T0..T7 below) on every reachable program
   and prints the reference results of a sample of the programs as cases.

   Atoms are small integers and forms explicit 10-tuples (TLC evaluates tuples
   eagerly; functions [a \in S |-> e] are lazy closures whose nesting makes
   evaluation exponential):
     1..4 the symbols A B C D, 5 the amount a1, 6..8 the leaves p1 p2 e1,
     9 the spare leaf q1 (target of renamings), 10 the constant 1;
     11 = x1 (guard leaf) and 12 = amt (dose leaf) occur only in dependency sets. *)
EXTENDS Integers, Sequences, FiniteSets, TLC, Json

CONSTANTS NSyms,      \* number of assignable symbols (prefix of A, B, C, D)
          MaxLen,     \* maximal program length
          MaxUses,    \* maximal number of atoms on a right hand side
          MaxGuards,  \* maximal number of guarded (Piecewise) statements
          WithODE,    \* BOOLEAN: programs may contain one ODE statement
          MaxFeat,    \* bound on (#symbols that occur) + (#guarded statements) + (1 if ODE): keeps the quick tier small
          MaxAdm,     \* enumerate admissible removal sets only when at most MaxAdm statements are candidates
          MinEmit,    \* programs shorter than this are not emitted
          MinCands,   \* ... nor programs without a removal query that has at least MinCands candidate statements
          MaxRmSet,   \* remove_symbol_definitions is queried with symbol sets of at most this size
          ChainMode,  \* BOOLEAN: def-use chain family -- every right hand side is ONE atom, the leaf of the position or a
                      \* symbol that an earlier statement defines (exhaustive family for long dependency chains)
          Thin, ThinRes, FullDepth,   \* beyond length FullDepth only the successors with Hash % Thin = ThinRes are explored
                                      \* (Thin = 1: exhaustive; Thin > 1: a seed-chosen random subtree of longer programs)
          SampleMod, SampleRes   \* a program is emitted as a case iff Hash(prog) % SampleMod = SampleRes

VARIABLES pc, prog, env, ode, dep, vals, reads
vars == <<pc, prog, env, ode, dep, vals, reads>>

Name == <<"A", "B", "C", "D", "a1", "p1", "p2", "e1", "q1", "one", "x1", "amt">>
NA == 10
One == 10
Amt == 5
P1 == 6
P2 == 7
Q1 == 9
X1 == 11
Dose == 12
Syms == 1..NSyms
Vars == 1..5
Atoms == 1..NA
LeafOf(i) == 6 + ((i - 1) % 3)
TrueLeaves == {6, 7, 8, 9, 11, 12}

\* ---------------------------------------------------------------- linear forms
Mk(F(_)) == <<F(1), F(2), F(3), F(4), F(5), F(6), F(7), F(8), F(9), F(10)>>
Sum10(F(_)) == F(1) + F(2) + F(3) + F(4) + F(5) + F(6) + F(7) + F(8) + F(9) + F(10)
Zero == <<0, 0, 0, 0, 0, 0, 0, 0, 0, 0>>
Unit(a) == Mk(LAMBDA b : IF b = a THEN 1 ELSE 0)
Add(x, y) == Mk(LAMBDA a : x[a] + y[a])
Supp(x) == {a \in Atoms : x[a] > 0}
Weight(x) == Sum10(LAMBDA a : IF a = One THEN 0 ELSE x[a])
\* simultaneous substitution  x[a := y]
SubstF(x, a, y) == IF x[a] = 0 THEN x ELSE Mk(LAMBDA b : (IF b = a THEN 0 ELSE x[b]) + x[a] * y[b])
Pair(x, y) == [t |-> x, f |-> y]
Br(v, br) == IF br = 1 THEN v.t ELSE v.f
\* value of a source form in an environment (a 5-tuple of pairs), branch br \in {1, 2}
Term(x, e, a, br, b) == IF x[a] = 0 THEN 0 ELSE x[a] * Br(e[a], br)[b]
EvalF(x, e, br) == Mk(LAMBDA b : (IF b > 5 THEN x[b] ELSE 0) + Term(x, e, 1, br, b) + Term(x, e, 2, br, b)
                                 + Term(x, e, 3, br, b) + Term(x, e, 4, br, b) + Term(x, e, 5, br, b))

\* ---------------------------------------------------------------- statements
\* [k : "asg"|"ode", lhs, g : guarded, t : form, f : form, ra : atoms of t and f]   (g = FALSE => t = f)
\*   asg:  lhs = Piecewise((t, x1 > 0), (f, True))   or   lhs = t
\*   ode:  CENTRAL with bolus dose amt and elimination rate t, defines the amount a1 (lhs = 5); when f # Zero a second
\*         compartment EFFECT WITHOUT a dose, with zero-order input f, flowing into CENTRAL (g = FALSE, but t # f in general)
IsOde(st) == st.k = "ode"
HasOde(P) == \E i \in 1..Len(P) : IsOde(P[i])
AtomsOf(x, y) == (Supp(x) \cup Supp(y)) \ {One}
RhsAtoms(st) == st.ra     \* = AtomsOf(st.t, st.f), stored in the statement (TLC: computed once)
\* rhs_symbols of the real statement (minus the independent variable t)
RhsSyms(st) == RhsAtoms(st) \cup (IF st.g THEN {X1} ELSE {}) \cup (IF IsOde(st) THEN {Dose} ELSE {})
NGuards(P) == Cardinality({i \in 1..Len(P) : P[i].g})
SymsIn(st) == ({st.lhs} \cup RhsAtoms(st)) \cap Syms
RECURSIVE SeenIn(_, _)
SeenIn(P, n) == IF n = 0 THEN {} ELSE SymsIn(P[n]) \cup SeenIn(P, n - 1)
NoReassign(P) == \A i, j \in 1..Len(P) : i # j => P[i].lhs # P[j].lhs

\* ---------------------------------------------------------------- the interpreter (reference)
UPair(v) == Pair(Unit(v), Unit(v))
InitEnv == <<UPair(1), UPair(2), UPair(3), UPair(4), UPair(5)>>
InitDep == <<{1}, {2}, {3}, {4}, {5}>>
NoOde == [set |-> FALSE, t |-> <<Zero, Zero>>, f |-> <<Zero, Zero>>]
OdeVal(e, st) == Pair(<<EvalF(st.t, e, 1), EvalF(st.f, e, 1)>>, <<EvalF(st.t, e, 2), EvalF(st.f, e, 2)>>)
DepOf(d, a) == IF a <= 5 THEN d[a] ELSE IF a = One THEN {} ELSE {a}
ExecVal(e, st) == Pair(EvalF(st.t, e, 1), IF st.g THEN EvalF(st.f, e, 2) ELSE EvalF(st.t, e, 2))   \* the value the statement computes
ExecEnv(e, st) == IF IsOde(st) THEN e ELSE [e EXCEPT ![st.lhs] = ExecVal(e, st)]
ExecOde(o, e, st) == IF IsOde(st) THEN LET v == OdeVal(e, st) IN [set |-> TRUE, t |-> v.t, f |-> v.f] ELSE o
ExecDep(d, st) == [d EXCEPT ![st.lhs] = UNION {DepOf(d, a) : a \in RhsAtoms(st)}
                                         \cup (IF st.g THEN {X1} ELSE {})
                                         \cup (IF IsOde(st) THEN {Dose} ELSE {})]

Init == /\ pc = 0 /\ prog = <<>> /\ env = InitEnv /\ ode = NoOde /\ dep = InitDep /\ vals = <<>> /\ reads = {}

Step(st) == /\ pc' = pc + 1
            /\ prog' = Append(prog, st)
            /\ env' = ExecEnv(env, st)
            /\ ode' = ExecOde(ode, env, st)
            /\ dep' = ExecDep(dep, st)
            /\ vals' = Append(vals, IF IsOde(st) THEN OdeVal(env, st) ELSE ExecVal(env, st))
            \* the textual "reads an earlier definition of" relation (every earlier definition, shadowed or not)
            /\ reads' = reads \cup {<<pc + 1, j>> : j \in {i \in 1..pc : prog[i].lhs \in RhsAtoms(st)}}

\* the same execution as a function of the program (needed for edited programs)
RECURSIVE RunSeq(_, _)
RunSeq(P, n) == IF n = 0 THEN [env |-> InitEnv, ode |-> NoOde, vals |-> <<>>]
                ELSE LET r == RunSeq(P, n - 1)
                         v == IF IsOde(P[n]) THEN OdeVal(r.env, P[n]) ELSE ExecVal(r.env, P[n])
                     IN [env |-> IF IsOde(P[n]) THEN r.env ELSE [r.env EXCEPT ![P[n].lhs] = v],
                         ode |-> IF IsOde(P[n]) THEN [set |-> TRUE, t |-> v.t, f |-> v.f] ELSE r.ode,
                         vals |-> Append(r.vals, v)]

\* ---------------------------------------------------------------- program generator
StCode(st) == Sum10(LAMBDA i : st.t[i] * (i + 1) + st.f[i] * (2 * i + 3)) + (IF st.g THEN 5 ELSE 0) + st.lhs
RECURSIVE HashP(_, _)
HashP(P, n) == IF n = 0 THEN 7 ELSE (HashP(P, n - 1) * 31 + StCode(P[n])) % 10007
Thinned(st) == pc < FullDepth \/ Thin = 1 \/ ((HashP(prog, Len(prog)) * 31 + StCode(st)) % 10007) % Thin = ThinRes
UseAtoms(i) == Syms \cup {LeafOf(i)} \cup (IF HasOde(prog) THEN {Amt} ELSE {})
RECURSIVE BagsUpTo(_, _)
BagsUpTo(U, n) == IF n = 0 THEN {Zero}
                  ELSE LET prev == BagsUpTo(U, n - 1) IN prev \cup {Add(b, Unit(a)) : b \in prev, a \in U}
WithConst(b, i) == IF ChainMode THEN b ELSE IF Weight(b) = 0 \/ i % 2 = 0 THEN [b EXCEPT ![One] = 1] ELSE b
\* symbols are introduced in the order A, B, C, D (programs equal up to renaming are explored once)
Canon(st) == LET all == SeenIn(prog, Len(prog)) \cup SymsIn(st)
             IN /\ Thinned(st)
                /\ \E m \in 0..NSyms : all = 1..m
                /\ Cardinality(all) + NGuards(prog) + (IF st.g THEN 1 ELSE 0)
                   + (IF HasOde(prog) \/ IsOde(st) THEN 1 ELSE 0) <= MaxFeat
Room == pc < MaxLen

Assign(lhs, b) == /\ Room
                  /\ LET st == [k |-> "asg", lhs |-> lhs, g |-> FALSE, t |-> WithConst(b, pc + 1), f |-> WithConst(b, pc + 1), ra |-> AtomsOf(b, b)]
                     IN Canon(st) /\ Step(st)
\* else-branch: "old" keeps the previous value of lhs (NM-TRAN  IF (X1.GT.0) A = ...), "one" is the constant 1
Guarded(lhs, b, els) == /\ Room /\ NGuards(prog) < MaxGuards
                        /\ LET tt == WithConst(b, pc + 1)
                               ff == IF els = "old" THEN Unit(lhs) ELSE Unit(One)
                               st == [k |-> "asg", lhs |-> lhs, g |-> TRUE, t |-> tt, f |-> ff, ra |-> AtomsOf(tt, ff)]
                           IN tt # ff /\ Canon(st) /\ Step(st)
\* (the rate is one atom or, without an input compartment, a sum; the input at most one atom)
OdeStmt(b, b2) == /\ Room /\ WithODE /\ ~HasOde(prog) /\ Weight(b) > 0 /\ Weight(b) + Weight(b2) <= MaxUses
                  /\ (Weight(b2) = 0 => Weight(b) = 1 \/ (pc + 1) % 2 = 0)
                  /\ LET st == [k |-> "ode", lhs |-> Amt, g |-> FALSE, t |-> b, f |-> b2, ra |-> AtomsOf(b, b2)]
                     IN Canon(st) /\ Step(st)

DefinedSyms == {prog[i].lhs : i \in 1..Len(prog)} \cap Syms
Bags == IF ChainMode THEN {Unit(a) : a \in {LeafOf(pc + 1)} \cup DefinedSyms}
        ELSE BagsUpTo(UseAtoms(pc + 1), MaxUses)
DoAssign == Room /\ \E lhs \in Syms, b \in Bags : Assign(lhs, b)
DoGuarded == Room /\ NGuards(prog) < MaxGuards /\ \E lhs \in Syms, b \in Bags, els \in {"old", "one"} : Guarded(lhs, b, els)
DoOde == Room /\ WithODE /\ ~HasOde(prog) /\ \E b \in Bags, b2 \in Bags : OdeStmt(b, b2)
Next == DoAssign \/ DoGuarded \/ DoOde
Spec == Init /\ [][Next]_vars

\* ---------------------------------------------------------------- reference queries
LastDef(P, s) == LET D == {i \in 1..Len(P) : P[i].lhs = s} IN IF D = {} THEN 0 ELSE CHOOSE i \in D : \A j \in D : j <= i
RefFind(P, s) == LET i == LastDef(P, s) IN IF i > 0 /\ ~IsOde(P[i]) THEN i ELSE 0

\* dependencies.  Lower bound = what the value really depends on (support of the value; the guard leaf iff the
\* two branches differ; the amount stands for its rate value and the dose).  Upper bound = reaching-definition
\* dataflow closure (dep, maintained by the machine).  Always  lower \subseteq reported ;  reported restricted to
\* the leaves  \subseteq upper  when no symbol is assigned twice.
ValSupp(v) == ((Supp(v.t) \cup Supp(v.f)) \ {One}) \cup (IF v.t # v.f THEN {X1} ELSE {})
OdeSupp(o) == IF o.set THEN ((Supp(o.t[1]) \cup Supp(o.t[2]) \cup Supp(o.f[1]) \cup Supp(o.f[2])) \ {One})
                              \cup (IF o.t # o.f THEN {X1} ELSE {}) \cup {Dose}
              ELSE {Amt}
DepLoOf(e, o, s) == IF s = Amt THEN OdeSupp(o)
                    ELSE LET d == ValSupp(e[s]) IN IF Amt \in d THEN (d \ {Amt}) \cup OdeSupp(o) ELSE d
DepLo(s) == DepLoOf(env, ode, s)
DepUp(s) == dep[s]

\* reassign(s, e): "set symbol to be expression and remove all previous assignments of symbol"
NewSt(s, e) == [k |-> "asg", lhs |-> s, g |-> e.t # e.f, t |-> e.t, f |-> e.f, ra |-> AtomsOf(e.t, e.f)]
RECURSIVE RR(_, _, _, _)
RR(P, l, ns, n) == IF n = 0 THEN <<>>
                   ELSE IF n = l THEN Append(RR(P, l, ns, n - 1), ns)
                   ELSE IF ~IsOde(P[n]) /\ P[n].lhs = ns.lhs THEN RR(P, l, ns, n - 1)
                   ELSE Append(RR(P, l, ns, n - 1), P[n])
RefReassign(P, s, e) == LET l == RefFind(P, s) IN IF l = 0 THEN P ELSE RR(P, l, NewSt(s, e), Len(P))

\* subs({a: b}) for atoms a # b : rename everywhere, left hand sides included -- whatever form the keys have
\* (the documentation allows str, symbol and Expr keys; the driver replays every emitted map in all three forms)
RenF(x, a, b) == Mk(LAMBDA c : IF c = a THEN 0 ELSE IF c = b THEN x[b] + x[a] ELSE x[c])
RECURSIVE RefSubsN(_, _, _, _)
RefSubsN(P, a, b, n) == IF n = 0 THEN <<>>
                        ELSE Append(RefSubsN(P, a, b, n - 1),
                                    [P[n] EXCEPT !.lhs = IF @ = a THEN b ELSE @, !.t = RenF(@, a, b), !.f = RenF(@, a, b),
                                                 !.ra = IF a \in @ THEN (@ \ {a}) \cup {b} ELSE @])
RefSubs(P, a, b) == RefSubsN(P, a, b, Len(P))
RenV(v, a, b) == Pair(RenF(v.t, a, b), RenF(v.f, a, b))

\* remove_symbol_definitions(S, statement k), called when statement k no longer uses the symbols S.
\*   sound    : every remaining statement computes the value it computed before
\*   stays    : statement k itself remains, and only statements before k are removed
\*   complete : a remaining definition (before k) of a symbol of S is still read by a remaining later statement
RECURSIVE Without(_, _, _)
Without(P, R, n) == IF n = 0 THEN <<>> ELSE IF n \in R THEN Without(P, R, n - 1) ELSE Append(Without(P, R, n - 1), P[n])
PosIn(R, i) == i - Cardinality({r \in R : r < i})
SoundV(P, v0, R) == R = {} \/ LET Q == Without(P, R, Len(P)) IN RunSeq(Q, Len(Q)).vals = Without(v0, R, Len(P))
Sound(P, R) == SoundV(P, RunSeq(P, Len(P)).vals, R)
Complete(P, S, k, R) == \A j \in 1..(k - 1) :
    (j \notin R /\ ~IsOde(P[j]) /\ P[j].lhs \in S) => \E i \in (j + 1)..Len(P) : i \notin R /\ P[j].lhs \in RhsAtoms(P[i])
\* candidates: the definitions of S before k and everything they (syntactically) are computed from
RECURSIVE Anc(_, _, _)   \* statements that textually feed the statements of X (G = the reads relation of P)
Anc(G, X, n) == IF n = 0 THEN X ELSE Anc(G, X \cup {e[2] : e \in {x \in G : x[1] \in X}}, n - 1)
Cands(P, G, S, k) == Anc(G, {i \in 1..(k - 1) : ~IsOde(P[i]) /\ P[i].lhs \in S}, Len(P))
Admissible(P, G, v0, S, k) == {R \in SUBSET Cands(P, G, S, k) : SoundV(P, v0, R) /\ Complete(P, S, k, R)}
RmPre(P, S, k) == /\ RhsAtoms(P[k]) \cap S = {}
                  /\ \A j \in 1..(k - 1) : P[j] # P[k]     \* the API identifies the statement by equality (first match)

\* remove_unused_parameters_and_rvs keeps exactly the leaves some statement mentions
UsedLeaves(P) == UNION {RhsSyms(P[i]) : i \in 1..Len(P)} \ Vars

\* ---------------------------------------------------------------- design layer: pharmpy's algorithms
\* full_expression: reverse substitution
RECURSIVE FE(_, _, _)
FE(P, i, e) == IF i = 0 THEN e
               ELSE FE(P, i - 1, Pair(SubstF(e.t, P[i].lhs, P[i].t), SubstF(e.f, P[i].lhs, P[i].f)))
FullExpr(P, s) == IF HasOde(P) THEN [err |-> TRUE, v |-> Pair(Zero, Zero)]
                  ELSE [err |-> FALSE, v |-> FE(P, Len(P), UPair(s))]

\* _create_dependency_graph: statement i -> EVERY earlier statement defining a symbol of its right hand side
DepGraph(P) == {e \in (1..Len(P)) \X (1..Len(P)) : e[2] < e[1] /\ P[e[2]].lhs \in RhsAtoms(P[e[1]])}
GNodes(G) == {e[1] : e \in G} \cup {e[2] : e \in G}
Succ(G, i) == {e[2] : e \in {x \in G : x[1] = i}}
RECURSIVE Desc(_)   \* a set of naturals as a descending sequence (sort_neighbors = reversed(sorted(..)))
Desc(S) == IF S = {} THEN <<>> ELSE LET m == CHOOSE x \in S : \A y \in S : y <= x IN <<m>> \o Desc(S \ {m})
SeqSet(q) == {q[i] : i \in 1..Len(q)}
RECURSIVE Bfs(_, _, _, _)   \* nx.bfs_predecessors: nodes in the order they are discovered
Bfs(G, queue, visited, out) ==
    IF queue = <<>> THEN out
    ELSE LET new == Desc(Succ(G, Head(queue)) \ visited)
         IN Bfs(G, Tail(queue) \o new, visited \cup SeqSet(new), out \o new)
RECURSIVE FoldDeps(_, _, _)
FoldDeps(P, order, symbs) ==
    IF order = <<>> THEN symbs
    ELSE FoldDeps(P, Tail(order), (symbs \ {P[Head(order)].lhs}) \cup RhsSyms(P[Head(order)]))
\* outcome "set" | "KeyError"   (a statement without edges is not a node of the graph: its own symbols are the answer;
\* before fix 3eefa1d the BFS was started from it anyway and networkx raised NetworkXError -- finding C10-F1)
DepImpl(P, G, s) ==
    LET i == LastDef(P, s)
    IN IF i = 0 THEN [o |-> "KeyError", s |-> {}]
       ELSE IF i \notin GNodes(G) THEN [o |-> "set", s |-> RhsSyms(P[i])]
       ELSE [o |-> "set", s |-> FoldDeps(P, Bfs(G, <<i>>, {i}, <<>>), RhsSyms(P[i]))]

\* remove_symbol_definitions
RECURSIVE Reach(_, _, _)
Reach(G, S, n) == IF n = 0 THEN S ELSE Reach(G, S \cup UNION {Succ(G, i) : i \in S}, n - 1)
\* candidates = definitions of S before k and what they are computed from; minus what k itself needs; minus the
\* candidates (and their dependencies) that ANY statement which is not removed still reads.  (Before fix 108b1c2 only
\* readers AFTER k were considered -- finding C10-F2, found by TLC as a counterexample to T4.)
RemoveImpl(P, G, S, k) ==
    LET n == Len(P)
        c0 == {i \in 1..(k - 1) : ~IsOde(P[i]) /\ P[i].lhs \in S}
        c1 == c0 \cup Reach(G, c0 \cap GNodes(G), n)
        c2 == c1 \ (Reach(G, {k}, n) \ {k})
        add == Reach(G, {e[2] : e \in {x \in G : x[1] \notin c2 /\ x[2] \in c2}}, n)
    IN c2 \ add

\* reassign: walk backwards, replace the first hit, delete the others
RECURSIVE RaLoop(_, _, _, _)
RaLoop(P, i, last, s) ==
    IF i = 0 THEN <<>>
    ELSE IF ~IsOde(P[i]) /\ P[i].lhs = s.lhs
         THEN IF last THEN RaLoop(P, i - 1, FALSE, s) \o <<s>> ELSE RaLoop(P, i - 1, FALSE, s)
         ELSE RaLoop(P, i - 1, last, s) \o <<P[i]>>
ReassignImpl(P, s, e) == RaLoop(P, Len(P), TRUE, NewSt(s, e))

\* ---------------------------------------------------------------- design theorems (checked on every program)
QSyms == Syms \cup (IF HasOde(prog) THEN {Amt} ELSE {})
RaForm == [Zero EXCEPT ![P2] = 1, ![One] = 1]
RaExpr == Pair(RaForm, RaForm)
RmSets == {S \in SUBSET Syms : S # {} /\ Cardinality(S) <= MaxRmSet}

\* the machine is sequential execution
T0_Machine == LET r == RunSeq(prog, Len(prog))
              IN r.env = env /\ r.ode = ode /\ r.vals = vals /\ pc = Len(prog) /\ reads = DepGraph(prog)
\* T1: reverse substitution evaluates to what execution computes
T1_FullExpr == \A s \in Syms : LET r == FullExpr(prog, s) IN ~r.err => r.v = env[s]
\* T2: reported dependencies cover every leaf the value depends on; exact on the leaves without reassignment
T2_DepSound == \A s \in QSyms : LET r == DepImpl(prog, reads, s) IN
                  r.o = "set" => /\ (DepLo(s) \cap TrueLeaves) \subseteq r.s
                                 /\ NoReassign(prog) => (r.s \cap TrueLeaves) = (DepUp(s) \cap TrueLeaves)
T3_DepBounds == \A s \in QSyms : DepLo(s) \subseteq DepUp(s)
\* NOT a theorem (recorded per case): the initial value of a symbol that is assigned later can be lost
DepInitLost(s) == LET r == DepImpl(prog, reads, s) IN r.o = "set" /\ ~(DepLo(s) \subseteq r.s)
\* T4: the removal algorithm's answer is admissible
RmOk(P, G, v0, S, k, R) == R \subseteq Cands(P, G, S, k) /\ SoundV(P, v0, R) /\ Complete(P, S, k, R)
\* (without a definition of S before k there is no candidate: the answer {} is trivially admissible)
T4_Remove == \A k \in 1..Len(prog), S \in RmSets :
                (RmPre(prog, S, k) /\ \E i \in 1..(k - 1) : ~IsOde(prog[i]) /\ prog[i].lhs \in S)
                   => RmOk(prog, reads, vals, S, k, RemoveImpl(prog, reads, S, k))
\* T5: the backwards loop is "delete the earlier definitions, replace the last"
T5_Reassign == \A s \in Syms : ReassignImpl(prog, s, RaExpr) = RefReassign(prog, s, RaExpr)
\* T6: renaming a leaf commutes with execution
T6_Subs == P1 \in UsedLeaves(prog) => \A b \in {P2} :    \* (nothing to rename otherwise)
              LET Q == RefSubs(prog, P1, b)
                  r == RunSeq(Q, Len(Q))
              IN /\ \A s \in Vars : r.env[s] = RenV(env[s], P1, b)
                 /\ r.ode.set = ode.set
                 /\ ode.set => /\ r.ode.t = <<RenF(ode.t[1], P1, b), RenF(ode.t[2], P1, b)>>
                               /\ r.ode.f = <<RenF(ode.f[1], P1, b), RenF(ode.f[2], P1, b)>>
\* T7: the leaves of the dataflow closure of all symbols are used leaves
T7_Used == \A s \in QSyms : (DepUp(s) \cap TrueLeaves) \subseteq UsedLeaves(prog)

\* ---------------------------------------------------------------- case emission (names instead of codes)
Sparse(x) == {<<Name[a], x[a]>> : a \in Supp(x)}
Names(S) == {Name[a] : a \in S}
StJ(st) == [k |-> st.k, lhs |-> Name[st.lhs], g |-> st.g, t |-> Sparse(st.t), f |-> Sparse(st.f)]
ProgJ(P) == [i \in 1..Len(P) |-> StJ(P[i])]
ValJ(v) == [t |-> Sparse(v.t), f |-> Sparse(v.f)]
SymJ(s) == LET d == DepImpl(prog, reads, s)
               fe == IF s \in Syms THEN FullExpr(prog, s) ELSE [err |-> TRUE, v |-> Pair(Zero, Zero)]
               i == LastDef(prog, s)
           IN [s |-> Name[s], def |-> i, find |-> RefFind(prog, s), val |-> ValJ(env[s]),
               fe |-> [err |-> fe.err, v |-> ValJ(fe.v)],
               dlo |-> Names(DepLo(s)), dup |-> Names(DepUp(s)),
               dtr |-> [o |-> d.o, s |-> Names(d.s)],
               noedge |-> i > 0 /\ i \notin GNodes(reads),
               initlost |-> DepInitLost(s)]
RmJ == {[k |-> x[1], S |-> Names(x[2]), tr |-> RemoveImpl(prog, reads, x[2], x[1]),
         trok |-> RmOk(prog, reads, vals, x[2], x[1], RemoveImpl(prog, reads, x[2], x[1])),
         enum |-> Cardinality(Cands(prog, reads, x[2], x[1])) <= MaxAdm,
         adm |-> IF Cardinality(Cands(prog, reads, x[2], x[1])) <= MaxAdm THEN Admissible(prog, reads, vals, x[2], x[1]) ELSE {}] :
        x \in {y \in (1..Len(prog)) \X RmSets : RmPre(prog, y[2], y[1])}}
Case == [n |-> Len(prog), ode |-> HasOde(prog), nore |-> NoReassign(prog),
         prog |-> ProgJ(prog),
         odeval |-> [set |-> ode.set, t |-> Sparse(ode.t[1]), f |-> Sparse(ode.f[1]), it |-> Sparse(ode.t[2]), if |-> Sparse(ode.f[2])],
         sym |-> {SymJ(s) : s \in QSyms},
         rm |-> RmJ,
         ra |-> {[s |-> Name[s], p |-> ProgJ(RefReassign(prog, s, RaExpr))] : s \in Syms},
         sb |-> {[a |-> Name[x[1]], b |-> Name[x[2]], p |-> ProgJ(RefSubs(prog, x[1], x[2]))] : x \in {<<P1, Q1>>, <<P1, P2>>, <<1, Q1>>}},
         used |-> Names(UsedLeaves(prog))]
Sampled == ((HashP(prog, Len(prog)) * 13 + Len(prog)) % 9973) % SampleMod = SampleRes
\* (chain family: only the programs with a removal query whose candidates form a chain of >= MinCands statements one
\*  of which is still read AFTER the edited statement are emitted -- the class where the protection of readers matters)
DeepQuery == MinCands = 0 \/ \E k \in 1..Len(prog), S \in RmSets :
                /\ RmPre(prog, S, k) /\ Cardinality(Cands(prog, reads, S, k)) >= MinCands
                /\ \E e \in reads : e[1] > k /\ e[2] \in Cands(prog, reads, S, k)
EmitCase == (pc >= MinEmit /\ Sampled /\ DeepQuery) => PrintT(<<"CASE", ToJson(Case)>>)
=============================================================================
