CONSTANTS
  NSyms = 3
  MaxLen = 3
  MaxUses = 2
  MaxGuards = 1
  WithODE = TRUE
  MaxFeat = 3
  MaxAdm = 5
  MinEmit = 1
  MinCands = 0
  MaxRmSet = 2
  SampleMod = 16
  SampleRes = 0
  Thin = 1
  ThinRes = 0
  FullDepth = 0
  ChainMode = FALSE
INIT Init
NEXT Next
INVARIANT T0_Machine
INVARIANT T1_FullExpr
INVARIANT T2_DepSound
INVARIANT T3_DepBounds
INVARIANT T4_Remove
INVARIANT T5_Reassign
INVARIANT T6_Subs
INVARIANT T7_Used
INVARIANT EmitCase
CHECK_DEADLOCK FALSE
