-------------------------------- MODULE PSD --------------------------------
(* C11 - exact classification of small symmetric integer matrices.

   Every symmetric matrix of size <= MaxN with entries in -NegLo..Hi is an initial
   state.  IsPSD is decided EXACTLY in two independent ways and TLC proves that
   they agree on every matrix:
     * PSDMinors : every principal minor (not only the leading ones) is >= 0;
     * PSDElim   : symmetric elimination - a zero pivot needs a zero row, a positive
                   pivot p reduces the question to the scaled Schur complement
                   p*A22 - a21*a21^T (same definiteness since p > 0).
   Each matrix is emitted with its class (pd / psd0 = singular positive
   semidefinite / indef) for the driver, which creates a model with these
   initial estimates.

   Second family (mode "sd"): positive semidefinite matrices whose variances are
   squares 1, 4, 9; emitted with the exact rational correlation a_ij/(s_i*s_j). *)
EXTENDS Integers, Sequences, FiniteSets, TLC, Json

CONSTANTS MaxN, NegLo, Hi, Modes
VARIABLES n, t, mode,     \* t : lower triangle  [<<i,j>> (j <= i) -> value]
          aux             \* mode "sh": [k, share, v];  mode "th": sequence of theta bound classes;  otherwise <<>>
vars == <<n, t, mode, aux>>

Vals == (0 - NegLo)..Hi
Tri(k) == {<<i, j>> \in (1..k) \X (1..k) : j <= i}
Mat == [i \in 1..n |-> [j \in 1..n |-> IF j <= i THEN t[<<i, j>>] ELSE t[<<j, i>>]]]

SdMats(k) == {f \in [Tri(k) -> Vals \cup {4, 9}] :
                 \A p \in Tri(k) : IF p[1] = p[2] THEN f[p] \in {1, 4, 9} ELSE f[p] \in Vals}
\* theta bound classes for the unconstrained-parameter (UCP) round trip: lower bound 0, finite interval with a
\* positive lower bound, negative lower bound, no bounds, fixed
ThetaClasses == {"lb0", "interval", "neglb", "unbounded", "fixed"}
ThetaSeqs == {q \in UNION {[1..m -> ThetaClasses] : m \in 1..3} : \E i \in DOMAIN q : q[i] # "fixed"}
Init == \/ /\ "psd" \in Modes /\ mode = "psd" /\ aux = <<>>
           /\ n \in 1..MaxN /\ t \in [Tri(n) -> Vals]
        \/ /\ "sd" \in Modes /\ mode = "sd" /\ aux = <<>>
           /\ n \in 2..MaxN
           /\ t \in SdMats(n)
        \* shared variance parameters (IOV: one eta per occasion, all with the same omega; or the variance symbol of a
        \* joint block used again by univariate distributions): a 2x2 block with square variances plus k univariate
        \* distributions whose variance is ONE parameter - its own (value v) or the first variance of the block
        \/ /\ "sh" \in Modes /\ mode = "sh"
           /\ n = 2 /\ t \in SdMats(2)
           /\ aux \in [k : 1..3, share : {"own", "block"}, v : {1, 4, 9}]
           /\ (aux.share = "block" => aux.v = t[<<1, 1>>])
        \* near-singular blocks: the rank-one matrix K * [[a*a, a*b], [a*b, b*b]] with its last entry changed by one
        \* unit.  det = -/+ a*a*K whatever the scale K: reduced by ANY amount it is indefinite, enlarged it is positive
        \* definite (checked exactly here for K = 10, 100, 1000; the driver renders the same family with units of 1e-5
        \* relative size, far below the size of the entries, e.g. [[4, 6], [6, 9]]*1e-2 with the last entry - 1e-7)
        \/ /\ "ns" \in Modes /\ mode = "ns"
           /\ n = 2
           /\ aux \in [a : 1..3, b : {0 - 3, 0 - 2, 0 - 1, 1, 2, 3}, K : {10, 100, 1000}, dir : {"minus", "plus"}]
           /\ t = [p \in Tri(2) |-> IF p = <<1, 1>> THEN aux.K * aux.a * aux.a
                                   ELSE IF p = <<2, 1>> THEN aux.K * aux.a * aux.b
                                   ELSE aux.K * aux.b * aux.b + (IF aux.dir = "minus" THEN 0 - 1 ELSE 1)]
        \/ /\ "th" \in Modes /\ mode = "th"
           /\ n = 1 /\ t = [p \in Tri(1) |-> 1]
           /\ aux \in ThetaSeqs
Next == UNCHANGED vars

\* ---- determinant by Laplace expansion (rows R, columns C: sequences of indices)
Drop(s, k) == [i \in 1..(Len(s) - 1) |-> IF i < k THEN s[i] ELSE s[i + 1]]
RECURSIVE Det(_, _, _)
Det(M, R, C) == IF Len(R) = 0 THEN 1
                ELSE LET RECURSIVE Sum(_)
                         Sum(k) == IF k = 0 THEN 0
                                   ELSE Sum(k - 1) + (IF k % 2 = 1 THEN 1 ELSE 0 - 1) * M[R[1]][C[k]] * Det(M, Tail(R), Drop(C, k))
                     IN Sum(Len(C))
RECURSIVE Sorted(_)
Sorted(S) == IF S = {} THEN <<>> ELSE LET m == CHOOSE x \in S : \A y \in S : x <= y IN <<m>> \o Sorted(S \ {m})
Minor(M, I) == Det(M, Sorted(I), Sorted(I))
PSDMinors(M, k) == \A I \in (SUBSET (1..k)) \ {{}} : Minor(M, I) >= 0
PDLeading(M, k) == \A j \in 1..k : Minor(M, 1..j) > 0

\* ---- symmetric elimination
RECURSIVE PSDElim(_, _)
PSDElim(M, idx) ==
    IF idx = <<>> THEN TRUE
    ELSE LET p == idx[1]
             rest == Tail(idx)
             a == M[p][p]
         IN IF a < 0 THEN FALSE
            ELSE IF a = 0 THEN (\A i \in 1..Len(rest) : M[p][rest[i]] = 0) /\ PSDElim(M, rest)
            ELSE PSDElim([i \in DOMAIN M |-> [j \in DOMAIN M |-> a * M[i][j] - M[i][p] * M[p][j]]], rest)

IsPSD == PSDMinors(Mat, n)
Class == IF ~IsPSD THEN "indef" ELSE IF PDLeading(Mat, n) THEN "pd" ELSE "psd0"

\* the design-level theorem: both definitions agree; pd <=> psd and non-singular
NearSingular == mode = "ns" => Class = (IF aux.dir = "minus" THEN "indef" ELSE "pd")
Agree == (mode \in {"psd", "sd", "sh", "ns"}) =>
         /\ IsPSD = PSDElim(Mat, [i \in 1..n |-> i])
         /\ (Class = "pd") = (IsPSD /\ Minor(Mat, 1..n) # 0)
\* vacuity: both classes occur is checked by the driver on the emitted cases

Flat == LET RECURSIVE Row(_, _)
            Row(i, j) == IF i > n THEN <<>> ELSE IF j > i THEN Row(i + 1, 1) ELSE <<t[<<i, j>>]>> \o Row(i, j + 1)
        IN Row(1, 1)
Root(x) == CASE x = 1 -> 1 [] x = 4 -> 2 [] x = 9 -> 3 [] OTHER -> 0
Sd(i) == Root(Mat[i][i])
Emit == /\ mode = "psd" => PrintT(<<"MAT", ToJson([n |-> n, t |-> Flat, cls |-> Class])>>)
        /\ (mode = "sd" /\ IsPSD) =>
             PrintT(<<"SD", ToJson([n |-> n, t |-> Flat, sd |-> [i \in 1..n |-> Sd(i)],
                                    corr |-> [i \in 1..n |-> [j \in 1..n |-> <<Mat[i][j], Sd(i) * Sd(j)>>]]])>>)
        \* every parameter is converted exactly ONCE, however many distributions use it: sd(shared) = sqrt(v)
        /\ (mode = "sh" /\ IsPSD) =>
             PrintT(<<"SH", ToJson([n |-> n, t |-> Flat, sd |-> [i \in 1..n |-> Sd(i)],
                                    corr |-> [i \in 1..n |-> [j \in 1..n |-> <<Mat[i][j], Sd(i) * Sd(j)>>]],
                                    k |-> aux.k, share |-> aux.share, v |-> aux.v, sv |-> Root(aux.v)])>>)
        /\ (mode = "ns" /\ aux.K = 1000) => PrintT(<<"NS", ToJson([n |-> 2, a |-> aux.a, b |-> aux.b, dir |-> aux.dir, cls |-> Class])>>)
        /\ mode = "th" => PrintT(<<"TH", ToJson([classes |-> aux])>>)
=============================================================================
