CONSTANTS
  MaxN = 3
  NegLo = 2
  Hi = 3
  Modes = {"psd", "sd", "sh", "th"}
INIT Init
NEXT Next
INVARIANT Agree
INVARIANT Emit
CHECK_DEADLOCK FALSE
