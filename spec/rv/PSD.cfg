CONSTANTS
  MaxN = 3
  NegLo = 2
  Hi = 3
  Modes = {"psd", "sd", "sh", "ns", "th"}
INIT Init
NEXT Next
INVARIANT Agree
INVARIANT NearSingular
INVARIANT Emit
CHECK_DEADLOCK FALSE
