------------------------------ MODULE RandVars ------------------------------
(* C11 - history machine over the immutable value RandomVariables.

   State: a sequence of blocks.  A block = [names : Seq(Vars), level, cov], where
   cov maps every unordered pair {x,y} (and {x}) of the block to an ENTRY:
   a parameter (variance V_x, original covariance P_xy), a structural zero Z, the
   fill value of a join (F symbolic, Q numeric), a fresh named parameter N_xy
   created by a join with a name template, possibly renamed by subs (flag r).
   The representation is index-free on purpose: the implementation does the
   index bookkeeping (row/col deletion, matrix composition), the specification
   says what must come out.

   Two layers (DESIGN 2.3):
     * design layer  D*  : the algorithm as pharmpy performs it (deterministic,
       e.g. an unjoined variable is put BEFORE the remainder of its block);
     * property layer StepOK / OrderOK / AdmOrders: what C11 states.  The
       admissible result ORDER is a SET: internal order of every block is the
       old order restricted to it, variables not involved keep their relative
       order, an unjoined variable stays adjacent to its former block (either
       side), a joined block is anchored at one of its members.
   Every design transition is asserted to satisfy the property layer, so TLC
   proves  design |= property  on the whole reachable graph.

   Modes:  Track = FALSE  graph mode (state = <<rvs, ren>>, full reachable graph,
                           invariants + confluence);
           Track = TRUE   history mode (all op sequences of length MaxOps from the
                           initial configurations; cases emitted for replay).    *)
EXTENDS Integers, Sequences, FiniteSets, TLC, Json

CONSTANTS N,          \* number of variables of the universe (<= 5)
          MaxOps,     \* history mode: length of the emitted op sequences
          Track,      \* history mode?
          Fills,      \* join fill modes explored, subset of {"zero","sym","num","tmpl"}
          NPats,      \* how many of the level patterns AllPats of the initial blocks are used
          Confl,      \* check the (expensive) confluence invariant?
          Ops,        \* enabled operation kinds
          InitKinds   \* subset of {"plain", "shared"}: initial configurations used

VARIABLES rvs,   \* Seq of blocks
          ren,   \* set of variables whose NAME was renamed by subs
          hist,  \* history mode: Seq of [op, post, orders, zalt]
          init   \* history mode: the initial rvs (projection)

vars == <<rvs, ren, hist, init>>

Vars == 1..N
Levels == {"IIV", "IOV", "RUV"}
AllPats == <<<<"IIV", "IIV", "IIV">>, <<"IIV", "IIV", "RUV">>, <<"IIV", "IOV", "RUV">>, <<"IOV", "IIV", "IIV">>, <<"RUV", "RUV", "RUV">>>>
LevelPats == {AllPats[i] : i \in 1..NPats}

\* ---------------------------------------------------------------- entries
Ent(k, a, b) == [k |-> k, a |-> a, b |-> b, r |-> FALSE]
Z == Ent("Z", 0, 0)
VarE(x) == Ent("V", x, 0)
CovE(x, y) == IF x < y THEN Ent("P", x, y) ELSE Ent("P", y, x)
NewE(fm, x, y) == CASE fm = "zero" -> Z
                    [] fm = "sym" -> Ent("F", 0, 0)
                    [] fm = "num" -> Ent("Q", 0, 0)
                    [] fm = "tmpl" -> Ent("N", x, y)      \* x precedes y in the joined block
EntStr(e) == (IF e.r THEN "R" ELSE "") \o e.k \o ToString(e.a) \o ToString(e.b)

\* ---------------------------------------------------------------- sequences / views
SeqSet(s) == {s[i] : i \in 1..Len(s)}
RECURSIVE Flat(_)
Flat(s) == IF s = <<>> THEN <<>> ELSE s[1].names \o Flat(Tail(s))
NameSet(s) == SeqSet(Flat(s))
BSet(b) == SeqSet(b.names)
Part(s) == {BSet(s[i]) : i \in 1..Len(s)}
BlockOf(s, x) == CHOOSE i \in 1..Len(s) : x \in BSet(s[i])
Together(s, x, y) == BlockOf(s, x) = BlockOf(s, y)
CovOf(s, x, y) == IF Together(s, x, y) THEN s[BlockOf(s, x)].cov[{x, y}] ELSE Z
LevelOfVar(s, x) == s[BlockOf(s, x)].level
Restr(o, K) == SelectSeq(o, LAMBDA x : x \in K)
Pos(o, x) == CHOOSE i \in 1..Len(o) : o[i] = x
Before(o, x, y) == Pos(o, x) < Pos(o, y)
Pairs(K) == {{a, b} : a, b \in K}
MinOf(K) == CHOOSE x \in K : \A y \in K : x <= y

Single(x, L, e) == [names |-> <<x>>, level |-> L, cov |-> [p \in {{x}} |-> e]]
FullBlock(ns, L) == [names |-> ns, level |-> L,
                     cov |-> [p \in Pairs(SeqSet(ns)) |->
                               IF Cardinality(p) = 1 THEN VarE(MinOf(p))
                               ELSE CovE(MinOf(p), MinOf(p \ {MinOf(p)}))]]
RestrictB(b, K) == [names |-> Restr(b.names, K), level |-> b.level,
                    cov |-> [p \in Pairs(K \cap BSet(b)) |-> b.cov[p]]]

WellFormed(s) == /\ Cardinality(NameSet(s)) = Len(Flat(s))
                 /\ \A i \in 1..Len(s) : /\ Len(s[i].names) >= 1
                                         /\ s[i].level \in Levels
                                         /\ DOMAIN s[i].cov = Pairs(BSet(s[i]))

\* ---------------------------------------------------------------- design layer (the algorithm)
RECURSIVE FlatMap(_, _)
FlatMap(F(_), s) == IF s = <<>> THEN <<>> ELSE F(s[1]) \o FlatMap(F, Tail(s))

\* RandomVariables.unjoin: the unjoined variables of a block come out, in block order,
\* BEFORE the remainder of the block
DUnjoinB(b, S) ==
    IF BSet(b) \cap S = {} \/ Len(b.names) = 1 THEN <<b>>
    ELSE LET out == Restr(b.names, S)
             rem == BSet(b) \ S
         IN [i \in 1..Len(out) |-> Single(out[i], b.level, b.cov[{out[i]}])]
            \o (IF rem = {} THEN <<>> ELSE <<RestrictB(b, rem)>>)
DUnjoin(s, S) == LET F(b) == DUnjoinB(b, S) IN FlatMap(F, s)

\* RandomVariables.__getitem__(collection): unjoin what is not selected, keep the rest
DSelect(s, S) == SelectSeq(DUnjoin(s, NameSet(s) \ S), LAMBDA b : b.names[1] \in S)

\* RandomVariables.join: covariance matrix of the selection, zeros replaced by the fill,
\* the joined block takes the place of the first joined variable after unjoin
DJoin(s, S, fm) ==
    LET sel == DSelect(s, S)
        jn == Flat(sel)
        cov == [p \in Pairs(S) |->
                  LET x == CHOOSE a \in p : \A c \in p : Pos(jn, a) <= Pos(jn, c)
                      y == CHOOSE c \in p : \A a \in p : Pos(jn, a) <= Pos(jn, c)
                      old == CovOf(sel, x, y)
                  IN IF x # y /\ old = Z THEN NewE(fm, x, y) ELSE old]
        J == [names |-> jn, level |-> sel[1].level, cov |-> cov]
        u == DUnjoin(s, S)
        first == CHOOSE i \in 1..Len(u) : /\ u[i].names[1] \in S
                                          /\ \A k \in 1..(i - 1) : u[k].names[1] \notin S
        w == [i \in 1..Len(u) |-> IF i = first THEN J ELSE u[i]]
    IN SelectSeq(w, LAMBDA b : BSet(b) \cap S = {} \/ b = J)

DSlice(s, i, j) == SubSeq(s, i + 1, j)
SubsB(b, e) == [b EXCEPT !.cov = [p \in DOMAIN b.cov |-> IF b.cov[p] = e THEN [e EXCEPT !.r = TRUE] ELSE b.cov[p]]]
DSubs(s, e) == [i \in 1..Len(s) |-> SubsB(s[i], e)]

Missing(s) == Vars \ NameSet(s)
NewDist(s, two, L) == LET x == MinOf(Missing(s)) IN
                      IF two THEN FullBlock(<<x, MinOf(Missing(s) \ {x})>>, L) ELSE FullBlock(<<x>>, L)

\* ---------------------------------------------------------------- property layer
FormerMates(pre, x) == BSet(pre[BlockOf(pre, x)])
Anchor(o, p, pre, S, x) == \A y \in (NameSet(pre) \ S) \ FormerMates(pre, x) : Before(o, y, x) <=> Before(p, y, x)
Contig(p, B) == \A i, j \in 1..Len(p) : (p[i] \in B /\ p[j] \in B) => \A k \in i..j : p[k] \in B
\* o: old name order, p: candidate new order, P: partition of the result
OrderRest(pre, kind, S, p) ==
    LET o == Flat(pre)
        involved == S \cap NameSet(pre)
    IN /\ Restr(p, NameSet(pre) \ involved) = Restr(o, SeqSet(p) \ involved)
       /\ Restr(p, involved) = Restr(o, involved \cap SeqSet(p))
       /\ CASE kind = "join" -> \E x \in involved : Anchor(o, p, pre, involved, x)
            [] kind = "unjoin" -> \A x \in involved : Anchor(o, p, pre, involved, x)
            [] OTHER -> TRUE
OrderOK(pre, kind, S, P, p) ==
    /\ \A B \in P : Contig(p, B) /\ Restr(p, B) = Restr(Flat(pre), B)
    /\ OrderRest(pre, kind, S, p)

\* the admissible set, enumerated: every arrangement of the result blocks (each in the old
\* internal order) that satisfies the remaining clauses
PermsOf(K) == {f \in [1..Cardinality(K) -> K] : \A i, j \in 1..Cardinality(K) : i # j => f[i] # f[j]}
RECURSIVE FlatSets(_, _)
FlatSets(f, o) == IF f = <<>> THEN <<>> ELSE Restr(o, f[1]) \o FlatSets(Tail(f), o)
AdmOrders(pre, kind, S, P) == {p \in {FlatSets(f, Flat(pre)) : f \in PermsOf(P)} : OrderRest(pre, kind, S, p)}

Nonempty(PP) == PP \ {{}}
KeepVarLevel(pre, post) == \A x \in NameSet(post) : /\ CovOf(post, x, x) = CovOf(pre, x, x)
                                                    /\ LevelOfVar(post, x) = LevelOfVar(pre, x)
KeepCov(pre, post, K) == \A x, y \in K : (x # y /\ Together(post, x, y)) => CovOf(post, x, y) = CovOf(pre, x, y)

JoinOK(pre, S, fm, post) ==
    LET o == Flat(pre) IN
    /\ WellFormed(post)
    /\ NameSet(post) = NameSet(pre)
    /\ Part(post) = Nonempty({S} \cup {K \ S : K \in Part(pre)})
    /\ KeepVarLevel(pre, post)
    /\ KeepCov(pre, post, NameSet(pre) \ S)
    /\ \A x, y \in S : (x # y /\ Before(o, x, y)) =>
          LET old == CovOf(pre, x, y) new == CovOf(post, x, y) IN
          IF old # Z THEN new = old                      \* were and remain in one block
          ELSE IF Together(pre, x, y) THEN new \in {Z, NewE(fm, x, y)}  \* a previous zero: docstring says fill, property says keep
          ELSE new = NewE(fm, x, y)                      \* newly joined pair
    /\ OrderOK(pre, "join", S, Part(post), Flat(post))

UnjoinOK(pre, S, post) ==
    /\ WellFormed(post)
    /\ NameSet(post) = NameSet(pre)
    /\ Part(post) = Nonempty({{x} : x \in S \cap NameSet(pre)} \cup {K \ S : K \in Part(pre)})
    /\ KeepVarLevel(pre, post)
    /\ KeepCov(pre, post, NameSet(pre))
    /\ OrderOK(pre, "unjoin", S, Part(post), Flat(post))

SelectOK(pre, S, post) ==
    /\ WellFormed(post)
    /\ NameSet(post) = S
    /\ Part(post) = Nonempty({K \cap S : K \in Part(pre)})
    /\ KeepVarLevel(pre, post)
    /\ KeepCov(pre, post, S)
    /\ Flat(post) = Restr(Flat(pre), S)

\* Slice, Subs and Concat are determined completely
SliceOK(pre, i, j, post) == post = SubSeq(pre, i + 1, j)
SubsOK(pre, e, post) == /\ Len(post) = Len(pre)
                        /\ \A i \in 1..Len(pre) : /\ post[i].names = pre[i].names /\ post[i].level = pre[i].level
                                                  /\ \A p \in DOMAIN pre[i].cov :
                                                       post[i].cov[p] = IF pre[i].cov[p] = e THEN [e EXCEPT !.r = TRUE] ELSE pre[i].cov[p]
ConcatOK(pre, front, d, post) == post = IF front THEN <<d>> \o pre ELSE pre \o <<d>>

\* block-diagonal composition: the overall matrix in name order
CovMatrix(s) == LET o == Flat(s) IN [i \in 1..Len(o) |-> [j \in 1..Len(o) |-> CovOf(s, o[i], o[j])]]

\* ---------------------------------------------------------------- transition system
ProjB(b) == [n |-> b.names, l |-> b.level,
             c |-> [i \in 1..Len(b.names) |-> [j \in 1..Len(b.names) |-> EntStr(b.cov[{b.names[i], b.names[j]}])]]]
Proj(s) == [i \in 1..Len(s) |-> ProjB(s[i])]

ZAlt(pre, S, fm) == IF fm = "zero" THEN {} ELSE
                    {p \in Pairs(S) : Cardinality(p) = 2 /\ \A x, y \in p : Together(pre, x, y) /\ (x # y => CovOf(pre, x, y) = Z)}

Step(op, new, newren, orders, zalt) ==
    /\ rvs' = new
    /\ ren' = newren \cap NameSet(new)
    /\ init' = init
    /\ IF Track
       THEN /\ Len(hist) < MaxOps
            /\ hist' = Append(hist, [op |-> op, post |-> Proj(new), ren |-> newren \cap NameSet(new),
                                     orders |-> orders, zalt |-> zalt])
       ELSE hist' = hist

SameLevel(s, S) == \A x, y \in S : LevelOfVar(s, x) = LevelOfVar(s, y)
JoinSets(s) == {S \in SUBSET NameSet(s) : Cardinality(S) >= 2 /\ SameLevel(s, S)}
InJoint(s) == UNION {K \in Part(s) : Cardinality(K) >= 2}
UnjoinSets(s) == {S \in SUBSET NameSet(s) : S # {} /\ (S \cap InJoint(s) # {} \/ Cardinality(S) = 1)}

DoJoin == \E S \in JoinSets(rvs), fm \in Fills :
    LET new == DJoin(rvs, S, fm) IN
    /\ Assert(JoinOK(rvs, S, fm, new), <<"design violates property: join", S, fm, rvs, new>>)
    /\ Step([op |-> "join", S |-> S, fill |-> fm, jn |-> Restr(Flat(rvs), S)], new, ren,
            IF Track THEN AdmOrders(rvs, "join", S, Part(new)) ELSE {}, ZAlt(rvs, S, fm))

DoUnjoin == \E S \in UnjoinSets(rvs) :
    LET new == DUnjoin(rvs, S) IN
    /\ Assert(UnjoinOK(rvs, S, new), <<"design violates property: unjoin", S, rvs, new>>)
    /\ Step([op |-> "unjoin", S |-> S], new, ren,
            IF Track THEN AdmOrders(rvs, "unjoin", S, Part(new)) ELSE {}, {})

DoSelect == \E S \in (SUBSET NameSet(rvs)) \ {{}} :
    LET new == DSelect(rvs, S) IN
    /\ Assert(SelectOK(rvs, S, new), <<"design violates property: select", S, rvs, new>>)
    /\ Step([op |-> "select", S |-> S], new, ren, {Flat(new)}, {})

DoSlice == \E i \in 0..(Len(rvs) - 1), j \in 1..Len(rvs) :
    /\ i < j
    /\ LET new == DSlice(rvs, i, j) IN
       /\ Assert(SliceOK(rvs, i, j, new), "slice")
       /\ Step([op |-> "slice", i |-> i, j |-> j], new, ren, {Flat(new)}, {})

AllEnts(s) == UNION {{s[i].cov[p] : p \in DOMAIN s[i].cov} : i \in 1..Len(s)}
NoRenamedParam(s) == \A e \in AllEnts(s) : ~e.r
DoSubsParam == \E e \in {x \in AllEnts(rvs) : x.k \in {"V", "P", "N"}} :
    /\ NoRenamedParam(rvs)
    /\ LET new == DSubs(rvs, e) IN
       /\ Assert(SubsOK(rvs, e, new), "subs")
       /\ Step([op |-> "subs_param", e |-> EntStr(e)], new, ren, {Flat(new)}, {})
DoSubsName == \E x \in NameSet(rvs) :
    /\ ren = {}
    /\ Step([op |-> "subs_name", x |-> x], rvs, {x}, {Flat(rvs)}, {})

ConcatLevels == IF Track THEN {"IIV", "RUV"} ELSE {"IIV"}
DoConcat == \E two \in BOOLEAN, L \in ConcatLevels, how \in {"add_dist", "radd_dist", "add_rvs", "add_list"} :
    /\ Cardinality(Missing(rvs)) >= (IF two THEN 2 ELSE 1)
    /\ LET d == NewDist(rvs, two, L)
           new == IF how = "radd_dist" THEN <<d>> \o rvs ELSE rvs \o <<d>> IN
       /\ Assert(ConcatOK(rvs, how = "radd_dist", d, new) /\ WellFormed(new), "concat")
       /\ Step([op |-> "concat", how |-> how, d |-> ProjB(d)], new, ren, {Flat(new)}, {})
\* adding a distribution whose level is in no variability hierarchy is refused (ValueError)
DoConcatRefused == /\ Missing(rvs) # {}
                   /\ Step([op |-> "concat_badlevel", x |-> MinOf(Missing(rvs))], rvs, ren, {Flat(rvs)}, {})

\* (guard first: in history mode nothing is computed for histories that are already complete)
Go(k) == k \in Ops /\ (Track => Len(hist) < MaxOps)
Join == Go("join") /\ DoJoin
Unjoin == Go("unjoin") /\ DoUnjoin
Select == Go("select") /\ DoSelect
Slice == Go("slice") /\ DoSlice
SubsParam == Go("subs") /\ DoSubsParam
SubsName == Go("subs") /\ DoSubsName
Concat == Go("concat") /\ DoConcat
ConcatRefused == Go("concat") /\ DoConcatRefused
Next == Join \/ Unjoin \/ Select \/ Slice \/ SubsParam \/ SubsName \/ Concat \/ ConcatRefused

\* initial configurations: all compositions of 1..N into <= 3 blocks, levels by pattern
Compositions == {c \in [1..3 -> 0..N] : /\ c[1] + c[2] + c[3] = N /\ c[1] >= 1
                                        /\ (c[2] = 0 => c[3] = 0)}
InitBlocks(c, lp) ==
    LET b1 == FullBlock([i \in 1..c[1] |-> i], lp[1])
        b2 == FullBlock([i \in 1..c[2] |-> c[1] + i], lp[2])
        b3 == FullBlock([i \in 1..c[3] |-> c[1] + c[2] + i], lp[3])
    IN <<b1>> \o (IF c[2] > 0 THEN <<b2>> ELSE <<>>) \o (IF c[3] > 0 THEN <<b3>> ELSE <<>>)
\* "shared": the same variance PARAMETER on several distributions (IOV: one eta per occasion, all with the
\* omega of the first occasion): a block of m IIV variables, then N-m univariate IOV variables sharing V_{m+1}
SharedBlocks(m, L) == <<FullBlock([i \in 1..m |-> i], L)>> \o [i \in 1..(N - m) |-> Single(m + i, "IOV", VarE(m + 1))]
InitSet == (IF "plain" \in InitKinds THEN {InitBlocks(c, lp) : c \in Compositions, lp \in LevelPats} ELSE {})
           \cup (IF "shared" \in InitKinds THEN {SharedBlocks(m, lp[1]) : m \in 1..(N - 1), lp \in LevelPats} ELSE {})
Init == \E b \in InitSet :
          /\ rvs = b
          /\ ren = {}
          /\ hist = <<>>
          /\ init = IF Track THEN Proj(b) ELSE <<>>

Spec == Init /\ [][Next]_vars

\* ---------------------------------------------------------------- invariants
TypeOK == WellFormed(rvs) /\ Len(rvs) >= 1
\* the overall covariance matrix is symmetric and zero across blocks (block-diagonal composition)
BlockDiagonal == LET M == CovMatrix(rvs) o == Flat(rvs) IN
                 \A i, j \in 1..Len(o) : /\ M[i][j] = M[j][i]
                                         /\ (~Together(rvs, o[i], o[j]) => M[i][j] = Z)
\* confluence: unjoin(S) after join(S) restores every variance and every block not involved;
\* joining twice is joining once; select = unjoin of the complement restricted
Confluent == Confl =>
    \A S \in JoinSets(rvs), fm \in Fills :
      LET j == DJoin(rvs, S, fm)
          u == DUnjoin(j, S)
          others == NameSet(rvs) \ UNION {K \in Part(rvs) : K \cap S # {}}
      IN /\ NameSet(u) = NameSet(rvs)
         /\ \A x \in NameSet(rvs) : CovOf(u, x, x) = CovOf(rvs, x, x) /\ LevelOfVar(u, x) = LevelOfVar(rvs, x)
         /\ \A x \in S : {x} \in Part(u)
         /\ \A i \in 1..Len(rvs) : BSet(rvs[i]) \cap S = {} => \E k \in 1..Len(u) : u[k] = rvs[i]
         /\ Restr(Flat(u), others) = Restr(Flat(rvs), others)
         /\ Part(u) = Part(DUnjoin(rvs, S))
         /\ DJoin(j, S, fm) = j
         /\ DSelect(j, S) = <<j[BlockOf(j, MinOf(S))]>>

EmitCase == (Track /\ Len(hist) = MaxOps) => PrintT(<<"CASE", ToJson([init |-> init, hist |-> hist])>>)
=============================================================================
