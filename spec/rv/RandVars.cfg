CONSTANTS
  N = 4
  MaxOps = 0
  Track = FALSE
  Fills = {"zero", "sym", "tmpl"}
  NPats = 2
  Confl = TRUE
  Ops = {"join", "unjoin", "select", "slice", "concat", "subs"}
INIT Init
NEXT Next
INVARIANT TypeOK
INVARIANT BlockDiagonal
INVARIANT Confluent
CHECK_DEADLOCK FALSE
