CONSTANTS
  N = 4
  MaxOps = 0
  Track = FALSE
  Fills = {"zero", "tmpl"}
  NPats = 2
  Confl = TRUE
  Ops = {"join", "unjoin", "select", "slice", "concat"}
  InitKinds = {"plain", "shared"}
INIT Init
NEXT Next
INVARIANT TypeOK
INVARIANT BlockDiagonal
INVARIANT Confluent
CHECK_DEADLOCK FALSE
