------------------------------ MODULE Workflow ------------------------------
(* Builder part (history machine over WorkflowBuilder operations) on top of the
   execution part.  Phases:  build -> (prepare) -> exec -> done,  or -> refused.

   Node order is semantically relevant: it is the order in which tasks entered
   the workflow, and it fixes the order of predecessor results (WorkflowExec).
   Deliberate, named, implementation-shaped steps:
     * ReplaceTask: the new task enters at the END of the node order;
     * Prepare (= what execute_workflow does before dispatching): every task is
       re-created in order (order preserved) and then every task whose function
       takes `context` first is replaced by a task with the context prepended
       -- those tasks therefore re-enter at the end, in their relative order;
     * freezing a builder (Workflow(builder)) copies the graph: predecessor
       order becomes node order, whatever order the edges were added in.      *)
EXTENDS WorkflowExec, Json

CONSTANTS MaxTasks, MaxOps, Statics

VARIABLES phase,   \* "build" | "exec" | "done" | "refused"
          nxt,     \* next fresh task id
          hist     \* Seq of builder operations performed (for replay)

vars == <<phase, nxt, hist, nodes, edges, attr, status, val, started>>

Shapes == {"single", "chain2", "fork2", "join2", "par2"}
ShapeNodes(s, a) == CASE s = "single" -> <<a>>
                      [] s = "chain2" -> <<a, a + 1>>
                      [] s = "par2"   -> <<a, a + 1>>
                      [] OTHER        -> <<a, a + 1, a + 2>>
ShapeEdges(s, a) == CASE s = "single" -> {}
                      [] s = "chain2" -> {<<a, a + 1>>}
                      [] s = "par2"   -> {}
                      [] s = "fork2"  -> {<<a, a + 1>>, <<a, a + 2>>}
                      [] s = "join2"  -> {<<a, a + 2>>, <<a + 1, a + 2>>}
PlainAttr(ns) == [t \in {ns[i] : i \in 1..Len(ns)} |-> [st |-> 0, ctx |-> FALSE]]

Init == /\ phase = "build" /\ nxt = 1 /\ hist = <<>>
        /\ nodes = <<>> /\ edges = {} /\ attr = <<>>
        /\ status = <<>> /\ val = <<>> /\ started = <<>>

Room(k) == Len(nodes) + k <= MaxTasks /\ Len(hist) < MaxOps
Building == phase = "build"
Log(op) == hist' = Append(hist, op)
NoExec == UNCHANGED <<status, val, started>>

\* wb.add_task(Task(...), predecessors=P)   (P a set: the order of the list is immaterial)
AddTask(P, st, cx) ==
    /\ Building /\ Room(1)
    /\ nodes' = Append(nodes, nxt)
    /\ edges' = edges \cup {<<p, nxt>> : p \in P}
    /\ attr' = (nxt :> [st |-> st, ctx |-> cx]) @@ attr
    /\ nxt' = nxt + 1
    /\ Log([op |-> "add", id |-> nxt, preds |-> P, st |-> st, ctx |-> cx])
    /\ UNCHANGED phase /\ NoExec

\* wb.replace_task(t, new): new enters at the end of the node order, edges are re-attached
ReplaceTask(t, st) ==
    /\ Building /\ Len(hist) < MaxOps
    /\ nodes' = Append(SelectSeq(nodes, LAMBDA n : n # t), nxt)
    /\ edges' = {<<IF e[1] = t THEN nxt ELSE e[1], IF e[2] = t THEN nxt ELSE e[2]>> : e \in edges}
    /\ attr' = (nxt :> [st |-> st, ctx |-> attr[t].ctx]) @@ [n \in NodeSet \ {t} |-> attr[n]]
    /\ nxt' = nxt + 1
    /\ Log([op |-> "replace", old |-> t, id |-> nxt, st |-> st])
    /\ UNCHANGED phase /\ NoExec

\* wb.insert_workflow(other, predecessors=P): P = <<>> stands for None (= current output tasks);
\* E = TRUE: the caller passed the explicit empty list [] (an unconnected insertion, NOT the same as None)
InsertWorkflow(s, P, E) ==
    /\ Building /\ Room(Len(ShapeNodes(s, nxt)))
    /\ LET on == ShapeNodes(s, nxt)
           oe == ShapeEdges(s, nxt)
           ins == SourcesOf(on, oe)
           outs == IF E THEN <<>> ELSE IF P = <<>> THEN Sinks ELSE P
           op == [op |-> "insert", shape |-> s, first |-> nxt, preds |-> P, empty |-> E]
       IN /\ nxt' = nxt + Len(on)
          /\ IF Len(ins) = Len(outs)
             THEN /\ edges' = edges \cup oe \cup {<<outs[i], ins[i]>> : i \in 1..Len(ins)}
                  /\ UNCHANGED phase /\ Log(op)
             ELSE IF Len(ins) = 1
             THEN /\ edges' = edges \cup oe \cup {<<outs[i], ins[1]>> : i \in 1..Len(outs)}
                  /\ UNCHANGED phase /\ Log(op)
             ELSE IF Len(outs) = 1
             THEN /\ edges' = edges \cup oe \cup {<<outs[1], ins[i]>> : i \in 1..Len(ins)}
                  /\ UNCHANGED phase /\ Log(op)
             ELSE \* N:M is refused with ValueError
                  /\ edges' = edges \cup oe /\ phase' = "refused"
                  /\ Log([op EXCEPT !.op = "insert_refused"])
          /\ nodes' = nodes \o on
          /\ attr' = PlainAttr(on) @@ attr
    /\ NoExec

\* wb + other
Plus(s) ==
    /\ Building /\ Room(Len(ShapeNodes(s, nxt)))
    /\ nodes' = nodes \o ShapeNodes(s, nxt)
    /\ edges' = edges \cup ShapeEdges(s, nxt)
    /\ attr' = PlainAttr(ShapeNodes(s, nxt)) @@ attr
    /\ nxt' = nxt + Len(ShapeNodes(s, nxt))
    /\ Log([op |-> "plus", shape |-> s, first |-> nxt])
    /\ UNCHANGED phase /\ NoExec

\* execute_workflow(Workflow(wb)): re-create tasks, insert the context, freeze, dispatch
CtxLast(ns) == SelectSeq(ns, LAMBDA n : ~attr[n].ctx) \o SelectSeq(ns, LAMBDA n : attr[n].ctx)
Execute ==
    /\ Building /\ Len(nodes) > 0
    /\ IF Len(Sinks) = 1
       THEN /\ phase' = "exec"
            /\ nodes' = CtxLast(nodes) /\ UNCHANGED <<edges, attr>>
            /\ status' = [t \in NodeSet |-> "w"]
            /\ val' = [t \in NodeSet |-> "none"]
            /\ started' = [t \in NodeSet |-> 0]
            /\ Log([op |-> "execute", bnodes |-> nodes])
       ELSE /\ phase' = "refused" /\ Log([op |-> "execute_refused", bnodes |-> nodes])
            /\ UNCHANGED <<nodes, edges, attr>> /\ NoExec
    /\ UNCHANGED nxt

DoStart == /\ phase = "exec" /\ \E t \in NodeSet : Start(t)
           /\ UNCHANGED <<nxt, hist>>
           /\ phase' = IF AllDone' THEN "done" ELSE "exec"
DoFinish == /\ phase = "exec" /\ \E t \in NodeSet : Finish(t)
            /\ UNCHANGED <<nxt, hist>>
            /\ phase' = IF AllDone' THEN "done" ELSE "exec"

PredSeqs == {<<>>} \cup {<<a>> : a \in NodeSet} \cup {<<a, b>> : a, b \in NodeSet}
DoAdd == \E P \in SUBSET NodeSet, st \in Statics, cx \in BOOLEAN : Cardinality(P) <= 2 /\ AddTask(P, st, cx)
DoReplace == \E t \in NodeSet, st \in Statics : ReplaceTask(t, st)
DoInsert == \E s \in Shapes, P \in PredSeqs, E \in BOOLEAN :
                /\ (Len(P) = 2 => P[1] # P[2]) /\ (E => P = <<>>) /\ InsertWorkflow(s, P, E)
DoPlus == \E s \in Shapes : Building /\ Plus(s)
Next == DoAdd \/ DoReplace \/ DoInsert \/ DoPlus \/ Execute \/ DoStart \/ DoFinish

Spec == Init /\ [][Next]_vars

\* ---- builder invariants
RECURSIVE Reach(_, _)
Reach(S, k) == IF k = 0 THEN S ELSE Reach(S \cup {e[2] : e \in {f \in edges : f[1] \in S}}, k - 1)
Acyclic == \A t \in NodeSet : t \notin Reach({e[2] : e \in {f \in edges : f[1] = t}}, Len(nodes))
WellFormed == /\ \A e \in edges : e[1] \in NodeSet /\ e[2] \in NodeSet
              /\ Cardinality(NodeSet) = Len(nodes)
              /\ DOMAIN attr = NodeSet
ExecSafe == phase \in {"exec", "done"} => OnceOnly /\ AfterPreds
ExecConfluent == phase = "done" => Confluent

\* ---- graph queries of the common base class (input_tasks, output_tasks, get_predecessors,
\*      get_successors, get_upstream_tasks, len) as functions of the abstract state
PredSet(t) == {e[1] : e \in {f \in edges : f[2] = t}}
SuccSet(t) == {e[2] : e \in {f \in edges : f[1] = t}}
RECURSIVE Up(_, _)
Up(S, k) == IF k = 0 THEN S ELSE Up(S \cup UNION {PredSet(x) : x \in S}, k - 1)
Upstream(t) == Up(PredSet(t), Len(nodes))
Sources == SelectSeq(nodes, LAMBDA n : PredSet(n) = {})
\* a workflow with a single output task has no task outside that task's upstream closure:
\* "every task is run" is a consequence of "the value of the output task is computed"
SinkCollectsAll == Len(Sinks) = 1 => Upstream(Sinks[1]) \cup {Sinks[1]} = NodeSet
UpstreamIrreflexive == \A t \in NodeSet : t \notin Upstream(t)
Queries(ns) == [i \in 1..Len(ns) |-> [t |-> ns[i], p |-> PredSet(ns[i]), s |-> SuccSet(ns[i]), u |-> Upstream(ns[i])]]

\* ---- case emission for replay into the implementation
EdgeSeq == LET RECURSIVE Lst(_)
               Lst(S) == IF S = {} THEN <<>> ELSE LET e == CHOOSE x \in S : TRUE IN <<e>> \o Lst(S \ {e})
           IN Lst(edges)
Case(outcome) == [hist |-> hist, nodes |-> nodes, edges |-> EdgeSeq, outcome |-> outcome,
                  queries |-> Queries(nodes), sinks |-> Sinks, sources |-> Sources,
                  expected |-> IF outcome = "ok" THEN Value(Sinks[1]) ELSE "none"]
EmitCase == /\ (phase = "exec" /\ \A t \in NodeSet : status[t] = "w") => PrintT(<<"CASE", ToJson(Case("ok"))>>)
            /\ phase = "refused" => PrintT(<<"CASE", ToJson(Case("ValueError"))>>)
=============================================================================
