---------------------------- MODULE WorkflowExec ----------------------------
(* Execution part of the workflow specification (property C17).

   State: a frozen task graph (node sequence = the order in which tasks entered
   the workflow; edges) and the dispatcher's view of it.  One action per
   observable step of a dispatcher thread: Start(t) (the task function is
   called) and Finish(t) (it returns).  Any number of tasks may be running.

   Task functions are from a pure, order-sensitive family: the value of a task
   is the TERM  [fn, st, ctx, args]  -- so argument order, multiplicity and
   the static inputs are all visible in the result.                          *)
EXTENDS Naturals, Sequences, FiniteSets, TLC

VARIABLES nodes,    \* Seq(task id): order in which the tasks entered the workflow
          edges,    \* set of <<pred, succ>>
          attr,     \* [task id -> [st : static-input id, ctx : BOOLEAN]]
          status,   \* [task id -> "w" | "r" | "d"]
          val,      \* [task id -> term | "none"]
          started   \* [task id -> Nat]  number of times the function was called

execvars == <<nodes, edges, attr, status, val, started>>

NodeSet == {nodes[i] : i \in 1..Len(nodes)}

\* predecessors of t in node order: THE argument order the property states
PredsOf(t) == SelectSeq(nodes, LAMBDA p : <<p, t>> \in edges)
SuccsOf(t) == SelectSeq(nodes, LAMBDA s : <<t, s>> \in edges)
SinksOf(ns, es) == SelectSeq(ns, LAMBDA n : \A i \in 1..Len(ns) : <<n, ns[i]>> \notin es)
SourcesOf(ns, es) == SelectSeq(ns, LAMBDA n : \A i \in 1..Len(ns) : <<ns[i], n>> \notin es)
Sinks == SinksOf(nodes, edges)

Term(t, args) == [fn |-> t, st |-> attr[t].st, ctx |-> attr[t].ctx, args |-> args]

\* Reference 1: denotational value of a task (recursion over the DAG)
RECURSIVE Value(_)
Value(t) == Term(t, [i \in 1..Len(PredsOf(t)) |-> Value(PredsOf(t)[i])])

\* Reference 2: sequential evaluation in a topological order (fold over a sorted node list)
RECURSIVE TopoFrom(_, _)
TopoFrom(done, todo) ==
    IF todo = {} THEN <<>>
    ELSE LET ready == {t \in todo : \A p \in NodeSet : <<p, t>> \in edges => p \in done}
             t == CHOOSE x \in ready : \A y \in ready : x <= y
         IN <<t>> \o TopoFrom(done \cup {t}, todo \ {t})
RECURSIVE SeqEvalFrom(_, _)
SeqEvalFrom(order, env) ==
    IF order = <<>> THEN env
    ELSE LET t == Head(order)
             ps == PredsOf(t)
         IN SeqEvalFrom(Tail(order), [env EXCEPT ![t] = Term(t, [i \in 1..Len(ps) |-> env[ps[i]]])])
SeqEval == SeqEvalFrom(TopoFrom({}, NodeSet), [t \in NodeSet |-> "none"])

ExecInit(ns, es, at) ==
    /\ nodes = ns /\ edges = es /\ attr = at
    /\ status = [t \in {ns[i] : i \in 1..Len(ns)} |-> "w"]
    /\ val = [t \in {ns[i] : i \in 1..Len(ns)} |-> "none"]
    /\ started = [t \in {ns[i] : i \in 1..Len(ns)} |-> 0]

\* A dispatcher thread picks a task all of whose predecessors have finished
Start(t) ==
    /\ status[t] = "w"
    /\ \A p \in NodeSet : <<p, t>> \in edges => status[p] = "d"
    /\ status' = [status EXCEPT ![t] = "r"]
    /\ started' = [started EXCEPT ![t] = @ + 1]
    /\ UNCHANGED <<nodes, edges, attr, val>>

\* The function returns: static inputs first, then predecessor results in node order
Finish(t) ==
    /\ status[t] = "r"
    /\ LET ps == PredsOf(t) IN
       val' = [val EXCEPT ![t] = Term(t, [i \in 1..Len(ps) |-> val[ps[i]]])]
    /\ status' = [status EXCEPT ![t] = "d"]
    /\ UNCHANGED <<nodes, edges, attr, started>>

ExecNext == \E t \in NodeSet : Start(t) \/ Finish(t)

AllDone == \A t \in NodeSet : status[t] = "d"

\* ---- properties of the execution part
OnceOnly == \A t \in NodeSet : started[t] <= 1
AfterPreds == \A t \in NodeSet : status[t] # "w" => \A p \in NodeSet : <<p, t>> \in edges => status[p] = "d"
\* confluence: whatever the schedule, the result is the denotational value = sequential evaluation
Confluent == AllDone /\ Len(Sinks) = 1 =>
                 /\ val[Sinks[1]] = Value(Sinks[1])
                 /\ val = SeqEval
=============================================================================
