INIT TraceInit
NEXT TraceNext
INVARIANT EmitAcc
INVARIANT Safe
CHECK_DEADLOCK FALSE
