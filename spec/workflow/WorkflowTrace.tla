--------------------------- MODULE WorkflowTrace ---------------------------
(* Trace validation (code -> spec) for the execution part: every recorded run of
   the real dispatcher must be a behaviour of WorkflowExec on the task graph the
   real frozen workflow reports.  Many traces per TLC run (variable tid).       *)
EXTENDS WorkflowExec, Json, IOUtils

Traces == JsonDeserialize(IOEnv.TRACES)
VARIABLES tid, l
tvars == <<tid, l, nodes, edges, attr, status, val, started>>

SeqSet(s) == {s[i] : i \in 1..Len(s)}
TraceInit ==
    /\ tid \in 1..Len(Traces) /\ l = 1
    /\ LET T == Traces[tid] IN
       ExecInit(T.nodes, {<<e[1], e[2]>> : e \in SeqSet(T.edges)},
                [t \in SeqSet(T.nodes) |-> [st |-> 0, ctx |-> FALSE]])
Events == Traces[tid].events
Ev == Events[l]
IsEvent(k) == l <= Len(Events) /\ Ev.e = k /\ l' = l + 1 /\ UNCHANGED tid
\* S: the task function was entered;  F: it returned, `preds` = predecessor ids in the order received
TraceStart == IsEvent("S") /\ Start(Ev.t)
TraceFinish == IsEvent("F") /\ Finish(Ev.t) /\ Ev.preds = PredsOf(Ev.t)
TraceNext == TraceStart \/ TraceFinish
TraceSpec == TraceInit /\ [][TraceNext]_tvars

\* acceptance: whole trace consumed, every task ran (exactly once, by Start's guard)
Accepted == l = Len(Events) + 1 /\ AllDone
EmitAcc == Accepted => PrintT(<<"ACC", ToJson(tid)>>)
Safe == OnceOnly /\ AfterPreds
=============================================================================
