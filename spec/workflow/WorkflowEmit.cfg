CONSTANTS
  MaxTasks = 4
  MaxOps = 3
  Statics = {0, 1}
INIT Init
NEXT Next
INVARIANT Acyclic
INVARIANT WellFormed
INVARIANT ExecSafe
INVARIANT ExecConfluent
INVARIANT SinkCollectsAll
INVARIANT UpstreamIrreflexive
INVARIANT EmitCase
CHECK_DEADLOCK FALSE
