CONSTANTS
  Modes = {"gen", "hdr", "log", "tab", "run"}
  MaxGenTables = 2
  MaxGenRows = 3
  MaxTabItems = 3
  MaxTheta = 2
  OmegaKinds = {"d2", "b2", "b2d1"}
  SigmaKinds = {"d1", "b2"}
  FixPats = {"none", "th1", "om", "omblk1", "sg"}
  MaxSteps = 2
  RowSets = {"full", "nocov", "abort", "nm72", "covabort"}
  IterSets = {"0-5-10", "0"}
  AllPhi = FALSE
  AllIters = FALSE
INIT Init
NEXT Next
INVARIANT AutomatonIsReference
INVARIANT CovDominant
INVARIANT CovTwoWays
INVARIANT PhiTriOK
INVARIANT Emit
CHECK_DEADLOCK FALSE
