------------------------------ MODULE NMTable ------------------------------
(* C20 - NONMEM table files and the rows / labels pharmpy must report.

   An abstract table file is a sequence of LINES of three kinds
        T(no)    "TABLE NO. <no>: <title>"
        H        the header line (column names)
        R(row)   a data row
   and the reader is a LINE AUTOMATON (action ReadLine): T starts a new table, the
   first H of a table is its header, repeated H lines ($TABLE output repeats the
   header every 900 records) are dropped, R appends a row.  For .ext tables the
   automaton keeps one register per special ITERATION code (the row NONMEM
   designates for final estimates, standard errors, ... fixed flags ...) and the
   register of the last ordinary iteration.  TLC integers are 32 bit, so the codes
   are symbolic:  code k  stands for ITERATION = -(1000000000 + k); the writer in
   the driver maps them (and the token BIG = 1.00000E+10 NONMEM prints for the
   standard error of a fixed parameter).

   Two families of files (variable mode):
     "gen"  $TABLE output: 1..MaxGenTables tables, rows, repeated headers at chosen places;
     "run"  a run directory: parameter configuration (thetas, omega / sigma block
            structure, fixed parameters), an .ext file with one table per estimation
            step (ordinary iterations + a set of special rows), the .cov matrix and
            the .phi file.
   Reference (property layer): Designated / CovExpected / PhiExpected are written as
   set comprehensions over the abstract file; the automaton result is proved equal
   to them on every enumerated file (invariant AutomatonIsReference), and every
   file is emitted with the values, indices and labels the reader must report.   *)
EXTENDS Integers, Sequences, FiniteSets, TLC, Json

CONSTANTS Modes,         \* subset of {"gen", "tab", "run"}
          MaxGenTables, MaxGenRows,
          MaxTabItems,   \* mode "tab": items listed in the $TABLE record after ID TIME
          MaxTheta,      \* thetas 1..MaxTheta
          OmegaKinds,    \* subset of {"d1", "d2", "b2", "b2d1", "d1b2"}
          SigmaKinds,    \* subset of {"d1", "d2", "b2"}
          FixPats,       \* subset of {"none", "th1", "thlast", "om", "omblk1", "sg"}
          MaxSteps,      \* estimation steps (tables in .ext / .phi)
          RowSets,       \* subset of {"full", "nocov", "abort", "nm72", "covabort"}
          IterSets,      \* subset of {"0-5-10", "5-10", "0"}
          AllPhi,        \* TRUE: every .phi variant with every run; FALSE: one variant per run
          AllIters       \* TRUE: every iteration set with every run; FALSE: one per run ("0" / "0-5-10" alternating)

VARIABLES mode, file, lines, pc, acc     \* lines: the line sequence of the file (computed once)
vars == <<mode, file, lines, pc, acc>>

BIG == 99999          \* token: the writer prints 1.00000E+10

\* ---------------------------------------------------------------- special rows
FINAL == 0  SE == 1  EIG == 2  COND == 3  SDCORR == 4  SESDCORR == 5  FIXROW == 6  TERM == 7  PARTIAL == 8
Codes == 0..8
RowSet(id) == CASE id = "full" -> {FINAL, SE, EIG, COND, SDCORR, SESDCORR, FIXROW, TERM, PARTIAL}
                [] id = "nocov" -> {FINAL, SDCORR, FIXROW, TERM, PARTIAL}
                [] id = "abort" -> {}                                  \* run aborted: no special rows at all
                [] id = "nm72" -> {FINAL, SE, EIG, COND, SDCORR, SESDCORR}   \* NONMEM 7.2: no fixed-flags row
                [] id = "covabort" -> {FINAL, SE, SDCORR, FIXROW, TERM}      \* SE row but no SE of sd/corr
IterSeq(id) == CASE id = "0-5-10" -> <<0, 5, 10>> [] id = "5-10" -> <<5, 10>> [] id = "0" -> <<0>>

\* ---------------------------------------------------------------- parameter configuration
Dim(kind) == CASE kind = "d1" -> 1 [] kind = "d2" -> 2 [] kind = "b2" -> 2 [] kind = "b2d1" -> 3 [] kind = "d1b2" -> 3
BlockOf(kind, i) == CASE kind = "d1" -> 1
                      [] kind = "d2" -> i
                      [] kind = "b2" -> 1
                      [] kind = "b2d1" -> IF i <= 2 THEN 1 ELSE 2
                      [] kind = "d1b2" -> IF i = 1 THEN 1 ELSE 2
\* lower triangle row-wise: (1,1) (2,1) (2,2) (3,1) ...
TriSeq(n) == LET RECURSIVE Row(_, _)
                 Row(i, j) == IF i > n THEN <<>> ELSE IF j > i THEN Row(i + 1, 1) ELSE <<<<i, j>>>> \o Row(i, j + 1)
             IN Row(1, 1)
Par(kind, i, j, used, fix) == [kind |-> kind, i |-> i, j |-> j, used |-> used, fix |-> fix]
Thetas(cfg) == [k \in 1..cfg.nth |-> Par("THETA", k, 0, TRUE,
                   (cfg.fix = "th1" /\ k = 1) \/ (cfg.fix = "thlast" /\ k = cfg.nth))]
Mat(name, kind, allfix, blk1fix) ==
    LET t == TriSeq(Dim(kind)) IN
    [k \in 1..Len(t) |->
        LET i == t[k][1] j == t[k][2] used == BlockOf(kind, i) = BlockOf(kind, j) IN
        Par(name, i, j, used, used /\ (allfix \/ (blk1fix /\ BlockOf(kind, i) = 1)))]
Omegas(cfg) == Mat("OMEGA", cfg.om, cfg.fix = "om", cfg.fix = "omblk1")
Sigmas(cfg) == Mat("SIGMA", cfg.sg, cfg.fix = "sg", FALSE)
\* order in the files: THETA, SIGMA, OMEGA;  order pharmpy reports: THETA, OMEGA, SIGMA
FileOrder(cfg) == Thetas(cfg) \o Sigmas(cfg) \o Omegas(cfg)
ReportOrder(cfg) == Thetas(cfg) \o Omegas(cfg) \o Sigmas(cfg)
Flag(p) == p.fix \/ ~p.used                  \* what row -1000000006 says (unused off-diagonals count as fixed)
FilePos(cfg, p) == CHOOSE k \in 1..Len(FileOrder(cfg)) : FileOrder(cfg)[k] = p
CfgOK(cfg) == /\ (cfg.fix \in {"th1", "thlast"} => cfg.nth >= 2)
              /\ (cfg.fix = "omblk1" => cfg.om \in {"b2d1", "d1b2", "d2"})

\* ---------------------------------------------------------------- values (small integers)
Sgn(k) == IF k = 2 THEN 0 - 1 ELSE 1
IterVal(t, it, k, p) == IF ~p.used THEN 0 ELSE IF p.fix THEN 50 + k ELSE Sgn(k) * (10 * k + t + it)
SpecialVal(t, c, k, p, lastit) ==
    CASE c = FINAL -> IterVal(t, lastit, k, p)
      [] c = SE -> IF Flag(p) THEN BIG ELSE k + 3
      [] c = EIG -> k
      [] c = COND -> IF k = 1 THEN 40 + t ELSE 0
      [] c = SDCORR -> IF p.kind = "THETA" \/ ~p.used THEN 0 ELSE 200 + k
      [] c = SESDCORR -> IF p.kind = "THETA" THEN 0 ELSE IF Flag(p) THEN BIG ELSE 300 + k
      [] c = FIXROW -> IF Flag(p) THEN 1 ELSE 0
      [] c = TERM -> IF k = 2 THEN 37 ELSE 0
      [] c = PARTIAL -> 0 - k
IterObj(t, it) == 900 - 10 * t - it

\* a row of an .ext table
ItRow(cfg, t, it) == [special |-> FALSE, n |-> it,
                      vals |-> [k \in 1..Len(FileOrder(cfg)) |-> IterVal(t, it, k, FileOrder(cfg)[k])],
                      obj |-> IterObj(t, it)]
SpRow(cfg, t, c, lastit) == [special |-> TRUE, n |-> c,
                             vals |-> [k \in 1..Len(FileOrder(cfg)) |-> SpecialVal(t, c, k, FileOrder(cfg)[k], lastit)],
                             obj |-> IF c = FINAL THEN IterObj(t, lastit) ELSE 0]
RECURSIVE SetToSeq(_)
SetToSeq(S) == IF S = {} THEN <<>> ELSE LET m == CHOOSE x \in S : \A y \in S : x <= y IN <<m>> \o SetToSeq(S \ {m})
ExtRows(cfg, tab) ==
    LET its == IterSeq(tab.iters)
        last == its[Len(its)]
        sp == SetToSeq(RowSet(tab.rows))
    IN [i \in 1..Len(its) |-> ItRow(cfg, tab.no, its[i])] \o [i \in 1..Len(sp) |-> SpRow(cfg, tab.no, sp[i], last)]

\* ---------------------------------------------------------------- lines
\* title line metadata: "TABLE NO. <no>: <method>[: D-OPTIMALITY]: [Goal Function=<goal>: ]Problem=<p> Subproblem=<s>
\* Superproblem1=<a> Iteration1=<b> Superproblem2=<c> Iteration2=<d>".  .ext files of NONMEM >= 7.3 have the
\* Goal Function part, .phi / .cov / .cor / .coi files (and .ext files of NONMEM 7.2) do not; the table of a
\* $DESIGN problem carries the design optimality.  meth: 1 FOCE-I, 2 importance sampling, 4 "First Order (Evaluation)"
Meta(meth, design, goal, problem, sub, sp) ==
    [meth |-> meth, design |-> design, goal |-> goal, problem |-> problem, sub |-> sub,
     sup1 |-> sp[1], it1 |-> sp[2], sup2 |-> sp[3], it2 |-> sp[4]]
NoMeta == Meta(0, FALSE, FALSE, 0, 0, <<0, 0, 0, 0>>)        \* $TABLE output: "TABLE NO.  1" only
ExtMeta(tab) == Meta(tab.no, FALSE, tab.rows # "nm72", 1, 0, <<0, 0, 0, 0>>)
DesignMeta == Meta(4, TRUE, TRUE, 2, 0, <<0, 0, 0, 0>>)
\* the same table in the .phi / .cov file: no Goal Function part
Plain(m) == [m EXCEPT !.goal = FALSE]

GenVal(t, r, c) == ((t * 5 + r * 3 + c * 7) % 11) - 5
GenCols == 3
GenLines(f) ==
    LET RECURSIVE Tab(_)
        Tab(k) == IF k > Len(f.tabs) THEN <<>>
                  ELSE LET tb == f.tabs[k]
                           RECURSIVE Body(_)
                           Body(r) == IF r > tb.nrows THEN <<>>
                                      ELSE <<[k |-> "R", row |-> [special |-> FALSE, n |-> r,
                                                                   vals |-> [c \in 1..GenCols |-> GenVal(tb.no, r, c)], obj |-> 0]]>>
                                           \o (IF r \in tb.rep THEN <<[k |-> "H"]>> ELSE <<>>) \o Body(r + 1)
                       IN <<[k |-> "T", no |-> tb.no, meta |-> NoMeta], [k |-> "H"]>> \o Body(1) \o Tab(k + 1)
    IN Tab(1)
\* the table of a $DESIGN problem that follows the estimation problem: no iterations; the final estimates of the
\* last estimation step again (with the design criterion as OBJ) and the expected standard errors
DesignCodes == {FINAL, SE, SDCORR, SESDCORR, FIXROW}
DesignRows(cfg, tabs) ==
    LET prev == tabs[Len(tabs)]
        its == IterSeq(prev.iters)
        no == Len(tabs) + 1
        sp == SetToSeq(DesignCodes)
    IN [i \in 1..Len(sp) |-> [SpRow(cfg, IF sp[i] = FINAL THEN prev.no ELSE no, sp[i], its[Len(its)]) EXCEPT !.obj = IF sp[i] = FINAL THEN 0 - 40 - no ELSE 0]]
ExtLines(f) ==
    LET RECURSIVE Tab(_)
        Tab(k) == IF k > Len(f.tabs)
                  THEN IF f.design
                       THEN LET rows == DesignRows(f.cfg, f.tabs) IN
                            <<[k |-> "T", no |-> Len(f.tabs) + 1, meta |-> DesignMeta], [k |-> "H"]>> \o [i \in 1..Len(rows) |-> [k |-> "R", row |-> rows[i]]]
                       ELSE <<>>
                  ELSE LET rows == ExtRows(f.cfg, f.tabs[k]) IN
                       <<[k |-> "T", no |-> f.tabs[k].no, meta |-> ExtMeta(f.tabs[k])], [k |-> "H"]>> \o [i \in 1..Len(rows) |-> [k |-> "R", row |-> rows[i]]] \o Tab(k + 1)
    IN Tab(1)

\* ---- mode "hdr": one title line of every shape, put on a table file of every kind by the writer
HdrLines(f) == <<[k |-> "T", no |-> f.no, meta |-> f.meta], [k |-> "H"],
                 [k |-> "R", row |-> [special |-> FALSE, n |-> 0, vals |-> <<1>>, obj |-> 2]]>>
HdrMetas == {Meta(m, d, g, p, sb, sp) : m \in {1, 2, 4}, d \in BOOLEAN, g \in BOOLEAN, p \in 1..2, sb \in 0..1,
                                       sp \in {<<0, 0, 0, 0>>, <<1, 2, 0, 0>>, <<1, 2, 1, 3>>}}

\* ---- mode "log": the error / warning log of a results object in its JSON form.  Log.to_dict numbers the
\* entries 0, 1, 2, ...; JSON object keys are STRINGS, so a decoder must restore the order of the entries from
\* the order of the object or from the NUMERIC value of the keys - the lexicographic order of the decimal keys
\* is the sequence order only up to 10 entries (theorem LexOrderBreaks below).
LogSizes == {0, 1, 10, 11, 14}
LogEntries(f) == [i \in 1..f.n |-> [cat |-> IF (i + f.pat) % 3 = 0 THEN "WARNING" ELSE "ERROR", msg |-> i]]
Digits(k) == IF k < 10 THEN <<k>> ELSE <<k \div 10, k % 10>>          \* decimal key of entry number k (< 100)
LexLess(a, b) == \/ \E i \in 1..Len(a) : i <= Len(b) /\ a[i] < b[i] /\ \A j \in 1..(i - 1) : a[j] = b[j]
                 \/ Len(a) < Len(b) /\ \A j \in 1..Len(a) : a[j] = b[j]
LexOrderIsSequenceOrder(n) == \A i, j \in 0..(n - 1) : i < j => LexLess(Digits(i), Digits(j))

\* ---- mode "tab": the column layout of a $TABLE file.  The record lists ID TIME and some of DV PRED RES WRES
\* IPRED CWRES in any order; unless NOAPPEND is given NONMEM appends DV PRED RES WRES and writes an explicitly
\* listed PRED / RES / WRES only there - an explicitly listed DV is written where it is listed AND in the
\* appended block.  Values depend on (record, label) only, so both DV columns agree.
TabItems == {"DV", "PRED", "RES", "WRES", "IPRED", "CWRES"}
Appended == <<"DV", "PRED", "RES", "WRES">>
Layout(listed, noappend) == IF noappend THEN listed
                            ELSE SelectSeq(listed, LAMBDA l : l \notin {"PRED", "RES", "WRES"}) \o Appended
LabelCode(l) == CASE l = "ID" -> 1 [] l = "TIME" -> 2 [] l = "DV" -> 3 [] l = "PRED" -> 4 [] l = "RES" -> 5
                  [] l = "WRES" -> 6 [] l = "IPRED" -> 7 [] l = "CWRES" -> 8
TabVal(r, l) == (IF LabelCode(l) % 2 = 0 THEN 0 - 1 ELSE 1) * (r + 4 * LabelCode(l))      \* never 0
TabRows == 3
TabLines(f) == LET lay == Layout(f.listed, f.noappend) IN
    <<[k |-> "T", no |-> 1, meta |-> NoMeta], [k |-> "H"]>>
    \o [r \in 1..TabRows |-> [k |-> "R", row |-> [special |-> FALSE, n |-> r, vals |-> [c \in 1..Len(lay) |-> TabVal(r, lay[c])], obj |-> 0]]]
TabLists == {<<"ID", "TIME">> \o q : q \in {q \in UNION {[1..n -> TabItems] : n \in 1..MaxTabItems} :
                                                   \A i, j \in DOMAIN q : i # j => q[i] # q[j]}}
\* where a label is found: the FIRST column with that label (both DV columns carry the same values)
FirstCol(lay, l) == CHOOSE c \in 1..Len(lay) : lay[c] = l /\ \A d \in 1..(c - 1) : lay[d] # l

\* ---------------------------------------------------------------- initial states: the files
Cfgs == {c \in [nth : 1..MaxTheta, om : OmegaKinds, sg : SigmaKinds, fix : FixPats] : CfgOK(c)}
GenTab(no) == [no : {no}, nrows : 1..MaxGenRows, rep : SUBSET (1..MaxGenRows)]
GenFiles == {f \in UNION {[1..n -> UNION {GenTab(no) : no \in 1..MaxGenTables}] : n \in 1..MaxGenTables} :
                \A k \in DOMAIN f : f[k].no = k /\ f[k].rep \subseteq 1..f[k].nrows}
ExtTab(no) == [no : {no}, iters : IterSets, rows : RowSets]
ExtFiles == UNION {{f \in [1..n -> UNION {ExtTab(no) : no \in 1..MaxSteps}] : \A k \in DOMAIN f : f[k].no = k} : n \in 1..MaxSteps}

\* 0: ETA columns; 1: ETA columns and an individual without observations (all zero); 2: PHI columns;
\* 3: as 1, and another individual whose ETAs are all exactly zero but who has observations (ETC, OBJ non-zero)
PhiVariants == 0..3
\* The covariance step writes .cov, .cor and .coi; users keep any non-empty subset of them.  The reported covariance
\* matrix is the .cov file when present, otherwise it has to be derived: from .cor and the standard errors of the
\* .ext file (cov = D cor D), otherwise from .coi (cov = coi^-1).  Whatever the source, the expected matrix is
\* CovExpected (the matrix NONMEM wrote).
MatSets == << {"cov"}, {"cov", "cor", "coi"}, {"cor", "coi"}, {"cor"}, {"cov", "coi"}, {"coi"}, {"cov", "cor"} >>
CovSource(ms) == IF "cov" \in ms THEN "cov" ELSE IF "cor" \in ms THEN "cor" ELSE "coi"
MatSetsOK == /\ \A k \in 1..Len(MatSets) : MatSets[k] # {} /\ MatSets[k] \subseteq {"cov", "cor", "coi"}
             /\ \A src \in {"cov", "cor", "coi"} : \E k \in 1..Len(MatSets) : CovSource(MatSets[k]) = src
ASSUME MatSetsOK
Init == /\ pc = 1
        /\ acc = <<>>
        /\ \/ /\ "gen" \in Modes /\ mode = "gen"
              /\ \E tabs \in GenFiles : file = [tabs |-> tabs] /\ lines = GenLines([tabs |-> tabs])
           \/ /\ "hdr" \in Modes /\ mode = "hdr"
              /\ \E m \in HdrMetas, no \in {1, 12} :
                    file = [no |-> no, meta |-> m] /\ lines = HdrLines([no |-> no, meta |-> m])
           \/ /\ "log" \in Modes /\ mode = "log"
              /\ \E n \in LogSizes, pat \in 0..2 : file = [n |-> n, pat |-> pat] /\ lines = <<>>
           \/ /\ "tab" \in Modes /\ mode = "tab"
              /\ \E listed \in TabLists, na \in BOOLEAN :
                    file = [listed |-> listed, noappend |-> na] /\ lines = TabLines([listed |-> listed, noappend |-> na])
           \/ /\ "run" \in Modes /\ mode = "run"
              /\ \E cfg \in Cfgs, tabs \in ExtFiles, pv \in PhiVariants, dsg \in BOOLEAN :
                    \* a $DESIGN problem after the estimation problem (one more table in .ext and .phi): only after
                    \* estimation steps without covariance step
                    /\ (dsg => \A k \in 1..Len(tabs) : tabs[k].rows = "nocov")
                    \* an aborted earlier step followed by a later step does not occur; all steps log the same iterations
                    /\ \A k \in 1..(Len(tabs) - 1) : tabs[k].rows # "abort"
                    /\ \A k \in 1..Len(tabs) : tabs[k].iters = tabs[1].iters
                    /\ (~AllPhi => pv = ((cfg.nth + Len(tabs) + (IF tabs[Len(tabs)].rows = "full" THEN 1 ELSE 0)) % 4))
                    /\ (~AllIters => tabs[1].iters = IF (cfg.nth + Len(tabs) + (IF cfg.sg = "d1" THEN 0 ELSE 1)) % 2 = 0 THEN "0" ELSE "0-5-10")
                    /\ file = [cfg |-> cfg, tabs |-> tabs, phikind |-> IF pv = 2 THEN "PHI" ELSE "ETA", zero |-> pv \in {1, 3}, zeta |-> pv = 3, design |-> dsg,
                                \* which of the matrix files of the covariance step are (still) in the run directory
                                mats |-> MatSets[1 + ((cfg.nth + Len(tabs) + (IF cfg.om = "d2" THEN 1 ELSE 0) + (IF cfg.sg = "d1" THEN 0 ELSE 2)
                                                      + (IF cfg.fix = "none" THEN 0 ELSE 3) + (IF tabs[1].iters = "0" THEN 0 ELSE 1)) % Len(MatSets))]]
                    /\ lines = ExtLines([cfg |-> cfg, tabs |-> tabs, design |-> dsg])

\* ---------------------------------------------------------------- the reader: a line automaton
NoReg == [c \in Codes |-> 0]
ReadT(l) == acc' = Append(acc, [no |-> l.no, meta |-> l.meta, hdr |-> 0, dropped |-> 0, rows |-> <<>>, reg |-> NoReg, lastit |-> 0])
ReadH == LET k == Len(acc) IN
         acc' = IF acc[k].hdr = 0 THEN [acc EXCEPT ![k].hdr = 1]
                ELSE [acc EXCEPT ![k].dropped = @ + 1]           \* repeated header: dropped
ReadR(l) == LET k == Len(acc)
                idx == Len(acc[k].rows) + 1
                r == l.row
            IN acc' = [acc EXCEPT ![k].rows = Append(@, r),
                                  ![k].reg = IF r.special THEN [@ EXCEPT ![r.n] = idx] ELSE @,
                                  ![k].lastit = IF ~r.special /\ (@ = 0 \/ acc[k].rows[@].n <= r.n) THEN idx ELSE @]
ReadTitle == pc <= Len(lines) /\ lines[pc].k = "T" /\ ReadT(lines[pc]) /\ pc' = pc + 1 /\ UNCHANGED <<mode, file, lines>>
ReadHeader == pc <= Len(lines) /\ lines[pc].k = "H" /\ Len(acc) > 0 /\ ReadH /\ pc' = pc + 1 /\ UNCHANGED <<mode, file, lines>>
ReadRow == pc <= Len(lines) /\ lines[pc].k = "R" /\ Len(acc) > 0 /\ acc[Len(acc)].hdr = 1 /\ ReadR(lines[pc]) /\ pc' = pc + 1 /\ UNCHANGED <<mode, file, lines>>
Next == ReadTitle \/ ReadHeader \/ ReadRow
Spec == Init /\ [][Next]_vars
Done == pc = Len(lines) + 1

\* what the automaton reports for table k of an .ext file
AutoRow(k, c) == IF acc[k].reg[c] = 0 THEN [special |-> TRUE, n |-> 0 - 1, vals |-> <<>>, obj |-> 0] ELSE acc[k].rows[acc[k].reg[c]]
AutoFinal(k) == IF acc[k].reg[FINAL] # 0 THEN acc[k].rows[acc[k].reg[FINAL]] ELSE acc[k].rows[acc[k].lastit]

\* ---------------------------------------------------------------- reference (property layer)
\* (rows = ExtRows(cfg, tab), passed explicitly so that it is evaluated once per use site)
\* the row NONMEM designates for code c: the unique row with that ITERATION value
NoRow == [special |-> TRUE, n |-> 0 - 1, vals |-> <<>>, obj |-> 0]      \* "no such row": the reader raises KeyError
Missing(r) == r.n = 0 - 1
Designated(rows, c) == LET S == {i \in 1..Len(rows) : rows[i].special /\ rows[i].n = c} IN
                       IF S = {} THEN NoRow ELSE rows[CHOOSE i \in S : TRUE]
Ordinary(rows) == {i \in 1..Len(rows) : ~rows[i].special}
\* final estimates: the -1000000000 row; for an aborted run the last ordinary iteration
RefFinal(rows) == IF ~Missing(Designated(rows, FINAL)) THEN Designated(rows, FINAL)
                  ELSE rows[CHOOSE i \in Ordinary(rows) : \A j \in Ordinary(rows) : rows[j].n <= rows[i].n]
RefInitialOfv(rows) == LET Z == {i \in Ordinary(rows) : rows[i].n = 0} IN
                       IF Z # {} THEN [err |-> "", v |-> rows[CHOOSE i \in Z : TRUE].obj]
                       ELSE IF ~Missing(Designated(rows, FINAL)) THEN [err |-> "", v |-> Designated(rows, FINAL).obj]
                       ELSE [err |-> "KeyError", v |-> 0]

AutomatonIsReference ==
    Done =>
      IF mode = "gen"
      THEN /\ Len(acc) = Len(file.tabs)
           /\ \A k \in 1..Len(acc) :
                /\ acc[k].no = file.tabs[k].no /\ acc[k].hdr = 1
                /\ acc[k].dropped = Cardinality(file.tabs[k].rep)
                /\ Len(acc[k].rows) = file.tabs[k].nrows
                /\ \A r \in 1..Len(acc[k].rows) : acc[k].rows[r].vals = [c \in 1..GenCols |-> GenVal(acc[k].no, r, c)]
      ELSE IF mode = "tab"
      THEN LET lay == Layout(file.listed, file.noappend) IN
           /\ Len(acc) = 1 /\ acc[1].hdr = 1 /\ acc[1].dropped = 0 /\ Len(acc[1].rows) = TabRows
           /\ \A l \in {lay[c] : c \in 1..Len(lay)} : \A r \in 1..TabRows : acc[1].rows[r].vals[FirstCol(lay, l)] = TabVal(r, l)
           /\ (~file.noappend => SubSeq(lay, Len(lay) - 3, Len(lay)) = Appended)
           /\ \A l \in {file.listed[c] : c \in 1..Len(file.listed)} : \E c \in 1..Len(lay) : lay[c] = l     \* nothing listed is lost
      ELSE IF mode = "log"
      THEN LexOrderIsSequenceOrder(file.n) <=> file.n <= 10        \* LexOrderBreaks
      ELSE IF mode = "hdr"
      THEN Len(acc) = 1 /\ acc[1].no = file.no /\ acc[1].meta = file.meta /\ Len(acc[1].rows) = 1
      ELSE /\ Len(acc) = Len(file.tabs) + (IF file.design THEN 1 ELSE 0)
           /\ (file.design => LET d == Len(acc) IN
                                /\ acc[d].no = Len(file.tabs) + 1 /\ acc[d].meta = DesignMeta
                                /\ acc[d].rows = DesignRows(file.cfg, file.tabs)
                                \* the design table repeats the final estimates of the last estimation step
                                /\ AutoRow(d, FINAL).vals = RefFinal(ExtRows(file.cfg, file.tabs[Len(file.tabs)])).vals)
           /\ \A k \in 1..Len(file.tabs) :
                LET rows == ExtRows(file.cfg, file.tabs[k]) IN
                /\ acc[k].no = file.tabs[k].no /\ acc[k].meta = ExtMeta(file.tabs[k])
                /\ \A c \in Codes : AutoRow(k, c) = Designated(rows, c)
                /\ AutoFinal(k) = RefFinal(rows)

\* ---------------------------------------------------------------- what pharmpy must report (emitted)
\* position in the file of the k-th reported parameter
RepPos(cfg) == [k \in 1..Len(ReportOrder(cfg)) |-> FilePos(cfg, ReportOrder(cfg)[k])]
RowOut(cfg, pos, row, dropthetas) ==
    IF Missing(row) THEN [err |-> "KeyError", vals |-> <<>>, obj |-> 0]
    ELSE [err |-> "", vals |-> [k \in 1..Len(pos) |->
                                   IF dropthetas /\ ReportOrder(cfg)[k].kind = "THETA" THEN 0 - 77777
                                   ELSE row.vals[pos[k]]], obj |-> row.obj]
ExtOut(cfg, pos, tab) ==
    LET rows == ExtRows(cfg, tab) IN
    [no |-> tab.no, iters |-> IterSeq(tab.iters), rowset |-> tab.rows, codes |-> SetToSeq(RowSet(tab.rows)),
     rows |-> rows,
     final |-> RowOut(cfg, pos, RefFinal(rows), FALSE),
     se |-> RowOut(cfg, pos, Designated(rows, SE), FALSE),
     cond |-> IF Missing(Designated(rows, COND)) THEN [err |-> "KeyError", v |-> 0] ELSE [err |-> "", v |-> Designated(rows, COND).vals[1]],
     sdcorr |-> RowOut(cfg, pos, Designated(rows, SDCORR), TRUE),
     sesdcorr |-> RowOut(cfg, pos, Designated(rows, SESDCORR), TRUE),
     fixed |-> RowOut(cfg, pos, Designated(rows, FIXROW), FALSE),
     final_ofv |-> RefFinal(rows).obj,
     initial_ofv |-> RefInitialOfv(rows)]

\* run level (parse_modelfit_results): everything comes from the LAST table
LastTab == file.tabs[Len(file.tabs)]
\* fixed status: row -1000000006 of the last table; NONMEM 7.2 has none: the model's FIX, unused elements count as fixed
RunFixed(cfg) == [k \in 1..Len(ReportOrder(cfg)) |-> Flag(ReportOrder(cfg)[k])]
KeptIdx(cfg) == {k \in 1..Len(ReportOrder(cfg)) : ~RunFixed(cfg)[k]}
HasSE == {SE, SESDCORR} \subseteq RowSet(LastTab.rows)

\* .cov : rows / columns in file order, zero rows and columns for fixed and unused parameters.
\* diagonal (k+3)^2 (so that SE = k+3 as in the .ext file), off-diagonals in -1..1: positive definite
\* by strict diagonal dominance (checked below)
CovVal(k1, k2) == IF k1 = k2 THEN (k1 + 3) * (k1 + 3) ELSE ((k1 + k2) % 3) - 1
CovFileVal(cfg, k1, k2) == IF Flag(FileOrder(cfg)[k1]) \/ Flag(FileOrder(cfg)[k2]) THEN 0 ELSE CovVal(k1, k2)
\* expected data frame: report order, fixed / unused removed
CovExpected(cfg) == LET K == SetToSeq(KeptIdx(cfg)) pos == RepPos(cfg) IN
    [a \in 1..Len(K) |-> [b \in 1..Len(K) |-> CovVal(pos[K[a]], pos[K[b]])]]
Abs(x) == IF x < 0 THEN 0 - x ELSE x
RECURSIVE SumAbs(_, _, _)
SumAbs(k, n, j) == IF j > n THEN 0 ELSE (IF j = k THEN 0 ELSE Abs(CovVal(k, j))) + SumAbs(k, n, j + 1)
CovDominant == (Done /\ mode = "run") => \A k \in 1..Len(FileOrder(file.cfg)) : CovVal(k, k) > SumAbs(k, Len(FileOrder(file.cfg)), 1)
\* second definition of the expected frame: delete the zero rows/columns of the FILE matrix, then permute
CovByDeletion(cfg) ==
    LET n == Len(FileOrder(cfg))
        nonzero == {k \in 1..n : \E j \in 1..n : CovFileVal(cfg, k, j) # 0}
        pos == RepPos(cfg)
        K == SetToSeq({k \in 1..Len(pos) : pos[k] \in nonzero})
    IN [a \in 1..Len(K) |-> [b \in 1..Len(K) |-> CovFileVal(cfg, pos[K[a]], pos[K[b]])]]
CovTwoWays == (Done /\ mode = "run") => CovExpected(file.cfg) = CovByDeletion(file.cfg)

\* .phi : subjects with ids 1, 3, 7; ETA(i) / PHI(i); ETC flattened lower triangle row-wise; OBJ
PhiIds == <<1, 3, 7>>
EtaVal(t, s, i) == ((s * 3 + i * 2 + t) % 7) - 3
EtcVal(t, s, i, j) == IF i = j THEN 10 + i + s + t ELSE ((s + 2 * i + j + t) % 5) - 2       \* i >= j
PhiObj(t, s) == 5 + 2 * s + t
\* position of (i,j), i >= j, in the flattened triangle
TriPos(i, j) == (i * (i - 1)) \div 2 + j
PhiZero(s) == file.zero /\ s = 2               \* an individual without observations: all zero, not reported
\* an individual WITH observations whose ETAs are all exactly zero (ETC and OBJ are not): must be reported
EtaOf(t, s, i) == IF file.zeta /\ s = 3 THEN 0 ELSE EtaVal(t, s, i)
\* EM methods write PHI(i) = MU_i + ETA(i) (docs/NONMEM.rst); the synthetic model has MU_1 = THETA(1), so the
\* MU_1 of step k is the final estimate of THETA(1) in table k (THETA1 is the first column of the file)
Mu(k, i) == IF file.phikind = "PHI" /\ i = 1 THEN RefFinal(ExtRows(file.cfg, file.tabs[k])).vals[1] ELSE 0
PhiExpected(t) == LET n == Dim(file.cfg.om)
                      S == IF file.zero THEN <<1, 3>> ELSE <<1, 2, 3>> IN
    [q \in 1..Len(S) |-> [id |-> PhiIds[S[q]], obj |-> PhiObj(t, S[q]),
                          eta |-> [i \in 1..n |-> EtaOf(t, S[q], i)],            \* the individual estimate to report
                          raw |-> [i \in 1..n |-> EtaOf(t, S[q], i) + Mu(t, i)],  \* the ETA(i) / PHI(i) column as written
                          etc |-> [i \in 1..n |-> [j \in 1..n |-> IF i >= j THEN EtcVal(t, S[q], i, j) ELSE EtcVal(t, S[q], j, i)]]]]
\* the flattened row as written, and the transcription of flattened_to_symmetric proved equal to the reference
PhiFlat(t, s) == LET tr == TriSeq(Dim(file.cfg.om)) IN [k \in 1..Len(tr) |-> IF PhiZero(s) THEN 0 ELSE EtcVal(t, s, tr[k][1], tr[k][2])]
PhiTriOK == (Done /\ mode = "run") =>
    LET n == Dim(file.cfg.om) tr == TriSeq(n) IN
    /\ \A k \in 1..Len(tr) : TriPos(tr[k][1], tr[k][2]) = k
    /\ \A s \in {1, 3} : \A i, j \in 1..n :
          PhiFlat(1, s)[TriPos(IF i >= j THEN i ELSE j, IF i >= j THEN j ELSE i)] = PhiExpected(1)[IF s = 1 THEN 1 ELSE Len(PhiExpected(1))].etc[i][j]

ParOut(p) == [kind |-> p.kind, i |-> p.i, j |-> p.j, used |-> p.used, fix |-> p.fix]
Emit ==
    Done =>
      IF mode = "gen"
      THEN PrintT(<<"GEN", ToJson([tabs |-> [k \in 1..Len(file.tabs) |->
                        [no |-> file.tabs[k].no, nrows |-> file.tabs[k].nrows, rep |-> SetToSeq(file.tabs[k].rep),
                         rows |-> [r \in 1..file.tabs[k].nrows |-> [c \in 1..GenCols |-> GenVal(file.tabs[k].no, r, c)]]]]])>>)
      ELSE IF mode = "log"
      THEN PrintT(<<"LOG", ToJson([n |-> file.n, pat |-> file.pat, entries |-> LogEntries(file)])>>)
      ELSE IF mode = "hdr"
      THEN PrintT(<<"HDR", ToJson([no |-> file.no, meta |-> file.meta])>>)
      ELSE IF mode = "tab"
      THEN LET lay == Layout(file.listed, file.noappend) IN
           PrintT(<<"TAB", ToJson([listed |-> file.listed, noappend |-> file.noappend, layout |-> lay,
                                   rows |-> [r \in 1..TabRows |-> [c \in 1..Len(lay) |-> TabVal(r, lay[c])]],
                                   bylabel |-> [l \in {lay[c] : c \in 1..Len(lay)} |-> [r \in 1..TabRows |-> TabVal(r, l)]]])>>)
      ELSE LET cfg == file.cfg IN
           PrintT(<<"RUN", ToJson([cfg |-> cfg, phikind |-> file.phikind, zero |-> file.zero, zeta |-> file.zeta, design |-> file.design,
                      metas |-> [k \in 1..Len(file.tabs) |-> ExtMeta(file.tabs[k])],
                      dtab |-> IF file.design
                               THEN [on |-> TRUE, no |-> Len(file.tabs) + 1, meta |-> DesignMeta, rows |-> DesignRows(cfg, file.tabs),
                                     phiflat |-> [s \in 1..3 |-> PhiFlat(Len(file.tabs) + 1, s)],
                                     phirows |-> [s \in 1..3 |-> [id |-> PhiIds[s],
                                                                  eta |-> [i \in 1..Dim(cfg.om) |-> IF PhiZero(s) THEN 0 ELSE EtaOf(Len(file.tabs) + 1, s, i)],
                                                                  obj |-> IF PhiZero(s) THEN 0 ELSE 0 - PhiObj(Len(file.tabs) + 1, s)]]]
                               ELSE [on |-> FALSE],
                      fileorder |-> [k \in 1..Len(FileOrder(cfg)) |-> ParOut(FileOrder(cfg)[k])],
                      reportorder |-> [k \in 1..Len(ReportOrder(cfg)) |-> ParOut(ReportOrder(cfg)[k])],
                      ext |-> LET pos == RepPos(cfg) IN [k \in 1..Len(file.tabs) |-> ExtOut(cfg, pos, file.tabs[k])],
                      runfixed |-> RunFixed(cfg),
                      has_se |-> HasSE,
                      mats |-> file.mats, covsrc |-> CovSource(file.mats),
                      covfile |-> [a \in 1..Len(FileOrder(cfg)) |-> [b \in 1..Len(FileOrder(cfg)) |-> CovFileVal(cfg, a, b)]],
                      cov |-> CovExpected(cfg),
                      covidx |-> SetToSeq(KeptIdx(cfg)),
                      phi |-> [k \in 1..Len(file.tabs) |->
                                 [flat |-> [s \in 1..3 |-> PhiFlat(file.tabs[k].no, s)],
                                  rows |-> [s \in 1..3 |-> [id |-> PhiIds[s], zero |-> PhiZero(s),
                                                            eta |-> [i \in 1..Dim(cfg.om) |-> IF PhiZero(s) THEN 0 ELSE EtaOf(file.tabs[k].no, s, i) + Mu(k, i)],
                                                            obj |-> IF PhiZero(s) THEN 0 ELSE PhiObj(file.tabs[k].no, s)]],
                                  expected |-> PhiExpected(file.tabs[k].no)]]])>>)
=============================================================================
