----------------------------- MODULE DeltaMethod -----------------------------
(* Property C19, discrete part of "delta-method standard errors equal their
   defining formula": se^2 = g^T Sigma g where g is the gradient of the expression
   at the estimates and Sigma the covariance of exactly the parameters of the
   expression - and the i-th gradient component must meet the row / column OF THE
   SAME PARAMETER, whatever order the covariance matrix lists the parameters in.

   Inputs (JSON): parameter names 1..P with integer estimates, a symmetric integer
   covariance matrix keyed by parameter, multilinear expressions = sums of
   monomials [c, vars] (c * product of the listed parameters).
   Machine: DoPlace appends a not yet placed parameter to the row / column order
   of the covariance matrix (every permutation is reachable); terminal states are
   emitted with the expected variance.
   Reference VarByLabel: sum over parameters p, q of the expression of
   g[p] * Sigma[p, q] * g[q]  (no order involved).
   Second definition VarByPosition: what an implementation does - take the
   sub-matrix in the order of `order`, the gradient in the same order, multiply.
   Theorem OrderInvariant: both agree for every permutation.                    *)
EXTENDS Integers, Sequences, FiniteSets, TLC, Json, IOUtils

In == JsonDeserialize(IOEnv.DELTA)      \* [vals : Seq(Int), cov : Seq(Seq(Int)), exprs : Seq(Seq([c, vars]))]
P == Len(In.vals)
VARIABLES ex, order
vars == <<ex, order>>

SeqSet(s) == {s[i] : i \in 1..Len(s)}
Init == ex \in 1..Len(In.exprs) /\ order = <<>>
DoPlace == \E p \in (1..P) \ SeqSet(order) : order' = Append(order, p) /\ UNCHANGED ex
Next == DoPlace
Spec == Init /\ [][Next]_vars
Placed == Len(order) = P

E == In.exprs[ex]
RECURSIVE ProdOthers(_, _, _)
ProdOthers(vs, p, k) == IF k = 0 THEN 1
                        ELSE (IF vs[k] = p THEN 1 ELSE In.vals[vs[k]]) * ProdOthers(vs, p, k - 1)
RECURSIVE GradSum(_, _)
GradSum(p, k) == IF k = 0 THEN 0
                 ELSE (IF p \in SeqSet(E[k].vars) THEN E[k].c * ProdOthers(E[k].vars, p, Len(E[k].vars)) ELSE 0) + GradSum(p, k - 1)
Grad(p) == GradSum(p, Len(E))
Used == UNION {SeqSet(E[k].vars) : k \in 1..Len(E)}
RECURSIVE SumOver(_, _)
SumOver(S, f) == IF S = {} THEN 0 ELSE LET x == CHOOSE y \in S : TRUE IN f[x] + SumOver(S \ {x}, f)
VarByLabel == SumOver(Used \X Used, [pq \in Used \X Used |-> Grad(pq[1]) * In.cov[pq[1]][pq[2]] * Grad(pq[2])])
\* by position: parameters of the expression in matrix order
Sub == SelectSeq(order, LAMBDA p : p \in Used)
VarByPosition == LET n == Len(Sub)
                     g == [i \in 1..n |-> Grad(Sub[i])]
                     m == [i \in 1..n |-> [j \in 1..n |-> In.cov[Sub[i]][Sub[j]]]]
                 IN SumOver((1..n) \X (1..n), [ij \in (1..n) \X (1..n) |-> g[ij[1]] * m[ij[1]][ij[2]] * g[ij[2]]])
OrderInvariant == Placed => VarByPosition = VarByLabel /\ VarByLabel >= 0
Emit == Placed => PrintT(<<"DELTA", ToJson([ex |-> ex, order |-> order, var |-> VarByLabel, grad |-> [p \in 1..P |-> Grad(p)]])>>)
=============================================================================
