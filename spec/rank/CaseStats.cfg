INIT Init
NEXT Next
INVARIANT AlignAgree
INVARIANT NanIffFailed
INVARIANT Emit
CHECK_DEADLOCK FALSE
