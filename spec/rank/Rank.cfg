INIT Init
NEXT Next
INVARIANT RankCase
INVARIANT CountLaws
INVARIANT Emit
CHECK_DEADLOCK FALSE
