INIT Init
NEXT Next
INVARIANT OrderInvariant
INVARIANT Emit
CHECK_DEADLOCK FALSE
