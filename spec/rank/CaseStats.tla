------------------------------ MODULE CaseStats ------------------------------
(* Property C19, the discrete part of its second half: per-case statistics of
   the resampling / diagnostic tools are reported under the label of THEIR OWN
   run, and a run without results gives NaN for exactly that case.

   (The general statement "the statistics equal their defining formulas on
   arbitrary real inputs" is floating-point linear algebra and is not decided.
   Here the inputs are small integers chosen so that every statistic is an exact
   integer or a ratio of integers: two parameters, identity covariance of the
   full-data fit, diagonal covariances of the case-deleted fits.)

   State: out[i] for the cases / replicates i = 1..n:  0 = still running,
   -1 = finished without results, e > 0 = finished with the results Pool[e].
   Actions: DoFinish (a run finishes with some results of the pool),
   DoFail (kind "cdd": a run finishes without results) - in any order, at any
   position.  Terminal states (nothing running) are emitted with the reference
   table.

   kind "cdd"  (case i = individual i deleted)
     CookSq[i]    = |P_i - P_orig|^2                      (cov(P_orig) = identity)
     RatioSq[i]   = det cov(P_i) / det cov(P_orig) = product of the diagonal
     DeltaOfv[i]  = sum of the other individuals' iOFV - OFV_i
     jackknife Cook score, only when every run has results:
                    T = N * sum(p p^T) - (sum p)(sum p)^T   (= N^2 * sample scatter / N)
                    cov_jack = T (N-1)/N^2,  JackSq[i] = N^2 d^T adj(T) d / ((N-1) det T)
     each NaN for a run without results (RatioSq also when it has no covariance).
   kind "boot" (replicate i; every replicate has results)
     row i of the estimates / OFV tables = the values of replicate i;
     original_bootdata_ofv[i] = sum of the base iOFVs of the individuals included
     in replicate i (with multiplicity); bootstrap_origdata_ofv[i] = OFV of its
     dofv evaluation or NaN; the two deltas; per parameter n*mean, n*bias,
     2*median, n(n-1)*variance, n(n-1)*covariance as exact integers.

   Design-level theorem AlignAgree: the implementation's way of aligning - build
   the table of the runs WITH results (labelled by their own case), compute, and
   update a NaN column by label - gives the reference table, whatever the order
   in which the runs finished (the table is a function of `out` alone).        *)
EXTENDS Integers, Sequences, FiniteSets, TLC, Json, IOUtils

In == JsonDeserialize(IOEnv.CASESTATS)   \* [cdd : [n, pool, base], boot : [n, pool, base]]
VARIABLES kind, out
vars == <<kind, out>>

Cfg == IF kind = "cdd" THEN In.cdd ELSE In.boot
Nn == Cfg.n
Pool == Cfg.pool       \* Seq([est : <<a, b>>, ofv, cov : <<c, d>> | <<>>, dofv (0 = no dofv run), inc : Seq(individual)])
Base == Cfg.base       \* [est : <<a, b>>, ofv, iofv : Seq(Int)]

Init == /\ kind \in {"cdd", "boot"}
        /\ out = [i \in 1..(IF kind = "cdd" THEN In.cdd.n ELSE In.boot.n) |-> 0]
DoFinish == \E i \in 1..Nn, e \in 1..Len(Pool) : out[i] = 0 /\ out' = [out EXCEPT ![i] = e] /\ UNCHANGED kind
DoFail == /\ kind = "cdd"
          /\ \E i \in 1..Nn : out[i] = 0 /\ out' = [out EXCEPT ![i] = 0 - 1] /\ UNCHANGED kind
Next == DoFinish \/ DoFail
Spec == Init /\ [][Next]_vars

AllDone == \A i \in 1..Nn : out[i] # 0
Ok(i) == out[i] > 0
R(i) == Pool[out[i]]
Nan == [nan |-> TRUE, v |-> 0]
Num(x) == [nan |-> FALSE, v |-> x]
RECURSIVE SumSeq(_, _)
SumSeq(f, k) == IF k = 0 THEN 0 ELSE f[k] + SumSeq(f, k - 1)
Sq(x) == x * x

\* ---------------------------------------------------------------- cdd reference (per label)
D(i, k) == R(i).est[k] - Base.est[k]
CookSq(i) == IF Ok(i) THEN Num(Sq(D(i, 1)) + Sq(D(i, 2))) ELSE Nan
RatioSq(i) == IF Ok(i) /\ R(i).cov # <<>> THEN Num(R(i).cov[1] * R(i).cov[2]) ELSE Nan
OthersIofv(i) == SumSeq(Base.iofv, Len(Base.iofv)) - Base.iofv[i]
DeltaOfv(i) == IF Ok(i) THEN Num(OthersIofv(i) - R(i).ofv) ELSE Nan
AllOk == \A i \in 1..Nn : Ok(i)
S1(k) == SumSeq([i \in 1..Nn |-> R(i).est[k]], Nn)
S2(j, k) == SumSeq([i \in 1..Nn |-> R(i).est[j] * R(i).est[k]], Nn)
T(j, k) == Nn * S2(j, k) - S1(j) * S1(k)
DetT == T(1, 1) * T(2, 2) - T(1, 2) * T(1, 2)
JackNum(i) == Nn * Nn * (Sq(D(i, 1)) * T(2, 2) - 2 * D(i, 1) * D(i, 2) * T(1, 2) + Sq(D(i, 2)) * T(1, 1))
JackDen == (Nn - 1) * DetT

\* the implementation's alignment: table of the runs with results, labelled by their own case, then update by label
OkSeq == SelectSeq([i \in 1..Nn |-> i], LAMBDA i : Ok(i))
ImplCook == [i \in 1..Nn |-> IF \E k \in 1..Len(OkSeq) : OkSeq[k] = i
                             THEN LET k == CHOOSE q \in 1..Len(OkSeq) : OkSeq[q] = i IN CookSq(OkSeq[k])
                             ELSE Nan]
AlignAgree == (kind = "cdd" /\ AllDone) => \A i \in 1..Nn : ImplCook[i] = CookSq(i)
NanIffFailed == (kind = "cdd" /\ AllDone) => \A i \in 1..Nn : (CookSq(i).nan <=> ~Ok(i)) /\ (DeltaOfv(i).nan <=> ~Ok(i))

\* ---------------------------------------------------------------- bootstrap reference (per replicate)
IncSum(i) == SumSeq([q \in 1..Len(R(i).inc) |-> Base.iofv[R(i).inc[q]]], Len(R(i).inc))
BootOrig(i) == IF R(i).dofv = 0 THEN Nan ELSE Num(R(i).dofv)
RECURSIVE SortAsc(_)
SortAsc(s) == IF s = <<>> THEN <<>>
              ELSE LET m == CHOOSE q \in 1..Len(s) : \A r \in 1..Len(s) : s[q] <= s[r]
                   IN <<s[m]>> \o SortAsc([r \in 1..(Len(s) - 1) |-> IF r < m THEN s[r] ELSE s[r + 1]])
Median2(k) == LET s == SortAsc([i \in 1..Nn |-> R(i).est[k]])
              IN IF Nn % 2 = 1 THEN 2 * s[(Nn + 1) \div 2] ELSE s[Nn \div 2] + s[Nn \div 2 + 1]

\* ---------------------------------------------------------------- emission
CddRec == [kind |-> "cdd", out |-> out,
           rows |-> [i \in 1..Nn |-> [cookSq |-> CookSq(i), ratioSq |-> RatioSq(i), dofv |-> DeltaOfv(i),
                                     jackNum |-> IF AllOk THEN JackNum(i) ELSE 0]],
           allOk |-> AllOk, jackDen |-> IF AllOk THEN JackDen ELSE 0]
BootRec == [kind |-> "boot", out |-> out,
            rows |-> [i \in 1..Nn |-> [est |-> R(i).est, ofv |-> R(i).ofv, origBoot |-> IncSum(i), bootOrig |-> BootOrig(i),
                                      deltaBoot |-> IncSum(i) - R(i).ofv,
                                      deltaOrig |-> IF R(i).dofv = 0 THEN Nan ELSE Num(R(i).dofv - Base.ofv)]],
            sum |-> <<S1(1), S1(2)>>, nbias |-> <<S1(1) - Nn * Base.est[1], S1(2) - Nn * Base.est[2]>>,
            median2 |-> <<Median2(1), Median2(2)>>,
            nnvar |-> <<T(1, 1), T(2, 2)>>, nncov |-> T(1, 2)]
Emit == AllDone => PrintT(<<"STATS", ToJson(IF kind = "cdd" THEN CddRec ELSE BootRec)>>)
=============================================================================
