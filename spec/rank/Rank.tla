-------------------------------- MODULE Rank --------------------------------
(* Property C19 (first half): information criteria, likelihood-ratio test,
   strictness, cut-off and ranking follow their definitions.

   Abstract world
     descriptor   the parameter structure of a model: thetas of the groups CL, V, P
                  (peripheral parameters), each "est" | "fix"; the eta of CL / V:
                  "est" | "fixnz" (variance fixed to a non-zero value) | "fix0"
                  (variance fixed to 0: not a random effect) | "none"; etas on the
                  peripheral parameters; a joint (block) IIV distribution with
                  estimated or fixed covariances; IOV on CL; sigma "est" | "fix".  The driver realises every descriptor as a real
                  model derived from pheno.
     model        [d : descriptor, ofv : 80|90|95|100|0 (0 encodes NaN), ms :
                  minimization_successful, tc : termination cause, fzg : warning
                  final_zero_gradient, sd : significant digits (tenths), rse :
                  relative standard errors (tenths)]
     config       rank type, BIC type, cut-off, strictness expression (AST of the
                  documented grammar), penalties, parent map (LRT)
   All numbers are integers in MILLI units (x 1000); ln(n_obs), ln(n_ind) and the
   chi-square quantiles are constant tables in the same units.

   Machine:  kind "rank": DoAddModel appends a model of the group's pool to the
   candidate sequence (position 1 = base model), DoRank picks a configuration of
   the group and the state becomes terminal; the expected table is emitted.
   kind "lrt": the same with (descriptor, ofv) pairs and DoTest(alpha): expected
   cutoff / test / best_of_two / best_of_many.  kind "desc": DoDescribe walks the
   descriptor table and emits the parameter counts behind AIC / BIC.

   Reference definitions (set comprehensions):
     StrictOK(m)   ofv is a number and the strictness expression holds
     Eligible      StrictOK, and for a candidate: passed the LRT against its
                   parent (rank type lrt) / delta > cut-off (others; the cut-off
                   is not applied when the base model itself is not StrictOK)
     Rank(i)       1 + |{j in Eligible : Key(j) > Key(i)}|   - ties share a rank
     Best          the eligible models of rank 1
   Second definition (transcription of rank_models' loop over the sorted list):
   RankLoop; theorem RankAgree (checked inside RankCase): both agree on every
   enumerated case.           *)
EXTENDS Integers, Sequences, FiniteSets, TLC, Json, IOUtils

Groups == JsonDeserialize(IOEnv.GROUPS)     \* Seq([models, cfgs, maxLen])
Descs  == JsonDeserialize(IOEnv.DESCS)      \* Seq(descriptor)
LrtIn  == JsonDeserialize(IOEnv.LRT)        \* [pool : Seq([d, ofv]), maxLen]
Data   == JsonDeserialize(IOEnv.DATA)       \* [lnobs, lnind]  (milli)

VARIABLES kind, g, ms, cfg, alpha, phase
vars == <<kind, g, ms, cfg, alpha, phase>>

\* chi-square upper quantiles x 1000, df = 1..10
Chi2 == [a \in {"0.05", "0.01"} |->
           IF a = "0.05" THEN <<3841, 5991, 7815, 9488, 11070, 12592, 14067, 15507, 16919, 18307>>
                         ELSE <<6635, 9210, 11345, 13277, 15086, 16812, 18475, 20090, 21666, 23209>>]
SeqSet(s) == {s[i] : i \in 1..Len(s)}
Abs(x) == IF x < 0 THEN 0 - x ELSE x

\* ------------------------------------------------------------------ parameter counts of a descriptor
\* The IIV OMEGA matrix of a descriptor: variances of the etas of CL, V ("est" | "fixnz" | "fix0" | "none") and, with
\* etaP = "diag", of the two peripheral parameters; covariances from `block`: "est" (CL-V: 1 estimated covariance),
\* "fix" (the whole CL-V block fixed), "est3" (CL-V-QP1: 3 estimated covariances).  iov = "est": inter-occasion
\* variability on CL - one omega that is a random-effects parameter but NOT an IIV omega.
Cnt(s, v) == Cardinality({i \in 1..Len(s) : s[i] = v})
NEstVar(d) == (IF d.etaCL = "est" THEN 1 ELSE 0) + (IF d.etaV = "est" THEN 1 ELSE 0) + (IF d.etaP = "diag" THEN 2 ELSE 0)
NVar(d) == (IF d.etaCL # "none" THEN 1 ELSE 0) + (IF d.etaV # "none" THEN 1 ELSE 0) + (IF d.etaP = "diag" THEN 2 ELSE 0)
NCov(d) == CASE d.block = "none" -> 0 [] d.block = "est" -> 1 [] d.block = "fix" -> 1 [] d.block = "est3" -> 3
NEstCov(d) == IF d.block \in {"est", "est3"} THEN NCov(d) ELSE 0
NIov(d) == IF d.iov = "est" THEN 1 ELSE 0
\* documented: n_estimated_iiv_omega_parameters = every estimated element (variance or covariance) of the IIV OMEGA matrix
NEstIivOmega(d) == NEstVar(d) + NEstCov(d)
NEstOmega(d) == NEstIivOmega(d) + NIov(d)                 \* all estimated variance-covariance parameters of the etas
NSig(d) == IF d.sig = "est" THEN 1 ELSE 0
K(d) == Cnt(d.thCL, "est") + Cnt(d.thV, "est") + Cnt(d.thP, "est") + NEstOmega(d) + NSig(d)    \* estimated parameters
NPar(d) == Len(d.thCL) + Len(d.thV) + Len(d.thP) + NVar(d) + NCov(d) + NIov(d) + 1              \* all parameters
\* an individual parameter carries a random effect when it has an eta whose variance is not fixed to 0 (IIV or IOV)
RandomCL(d) == d.etaCL \in {"est", "fixnz"} \/ d.iov = "est"
RandomV(d) == d.etaV \in {"est", "fixnz"}
RandomP(d) == d.etaP = "diag"
\* random-effects parameters: variance-covariance parameters and the fixed effects of individual parameters with an eta
NRandom(d) == NEstOmega(d) + (IF RandomCL(d) THEN Cnt(d.thCL, "est") ELSE 0)
                           + (IF RandomV(d) THEN Cnt(d.thV, "est") ELSE 0)
                           + (IF RandomP(d) THEN Cnt(d.thP, "est") ELSE 0)
NFixed(d) == K(d) - NRandom(d)
\* penalty = a * ln(n_obs) + b * ln(n_ind)
BicCoef(d, bt) == CASE bt = "mixed" -> <<NFixed(d), NRandom(d)>>
                    [] bt = "fixed" -> <<K(d), 0>>
                    [] bt = "random" -> <<0, K(d)>>
                    [] bt = "iiv" -> <<0, NEstIivOmega(d)>>
WellFormedDesc(d) == /\ (d.block \in {"est", "est3"} => d.etaCL = "est" /\ d.etaV = "est")
                     /\ (d.block = "fix" => d.etaCL = "fixnz" /\ d.etaV = "fixnz")
                     /\ (d.block = "est3" => d.etaP = "diag")
                     /\ (d.etaP = "diag" => Len(d.thP) = 2)

\* ------------------------------------------------------------------ strictness
Rel(x, r, y) == CASE r = "<" -> x < y [] r = "<=" -> x <= y [] r = ">" -> x > y [] r = ">=" -> x >= y
                  [] r = "==" -> x = y [] r = "!=" -> x # y
Atom(n, m) == CASE n = "minimization_successful" -> m.ms
                [] n = "rounding_errors" -> m.tc = "rounding_errors"
                [] n = "maxevals_exceeded" -> m.tc = "maxevals_exceeded"
                [] n = "final_zero_gradient" -> m.fzg
RECURSIVE EvalS(_, _)
EvalS(e, m) == CASE e.op = "empty" -> TRUE
                 [] e.op = "atom" -> Atom(e.name, m)
                 \* sigdigs < 0 encodes NaN (a run that produced no significant digits): NaN satisfies no comparison,
                 \* only `!=`; a multi-valued attribute (rse) satisfies a comparison when EVERY element does
                 [] e.op = "cmp" -> IF e.name = "sigdigs"
                                    THEN (IF m.sd < 0 THEN e.rel = "!=" ELSE Rel(m.sd, e.rel, e.val))
                                    ELSE \A i \in 1..Len(m.rse) : Rel(m.rse[i], e.rel, e.val)
                 [] e.op = "not" -> ~EvalS(e.x, m)
                 [] e.op = "and" -> EvalS(e.l, m) /\ EvalS(e.r, m)
                 [] e.op = "or" -> EvalS(e.l, m) \/ EvalS(e.r, m)

\* ------------------------------------------------------------------ one ranking case
Pool == Groups[g].models
C == Groups[g].cfgs[cfg]
M(i) == Pool[ms[i]]
N == Len(ms)
D(i) == Descs[M(i).d]
StrictOK(i) == M(i).ofv # 0 /\ EvalS(C.strict, M(i))
Coef(i) == IF C.rt = "bic" THEN BicCoef(D(i), C.bt) ELSE <<0, 0>>
Pen(i) == IF C.pen = <<>> THEN 0 ELSE 1000 * C.pen[i]
Val(i) == 1000 * M(i).ofv + Pen(i) +
          (CASE C.rt = "aic" -> 2000 * K(D(i))
             [] C.rt = "bic" -> Coef(i)[1] * Data.lnobs + Coef(i)[2] * Data.lnind
             [] OTHER -> 0)
Parent(i) == IF C.parents = "chain" /\ i > 2 THEN i - 1 ELSE 1
Df(i) == NPar(D(i)) - NPar(D(Parent(i)))
Alpha(i) == IF C.cutoff.kind = "none" THEN (IF Df(i) >= 0 THEN "0.05" ELSE "0.01")
            ELSE IF C.cutoff.kind = "pair" THEN (IF Df(i) >= 0 THEN C.cutoff.a1 ELSE C.cutoff.a2)
            ELSE C.cutoff.a1
LrtCut(df, a) == IF df = 0 THEN 0 ELSE IF df > 0 THEN Chi2[a][df] ELSE 0 - Chi2[a][0 - df]
Dofv(i) == 1000 * (M(Parent(i)).ofv - M(i).ofv)
\* the test uses the parent's own OFV (also when the parent itself is not eligible); NaN never passes
LrtPass(i) == M(Parent(i)).ofv # 0 /\ Dofv(i) >= LrtCut(Df(i), Alpha(i))

\* ---- transcription of the loop in rank_models (over a key function)
RECURSIVE SortDesc(_, _)
SortDesc(S, key) == IF S = {} THEN <<>>
                    ELSE LET x == CHOOSE y \in S : \A z \in S : key[y] > key[z] \/ (key[y] = key[z] /\ y <= z)
                         IN <<x>> \o SortDesc(S \ {x}, key)
RECURSIVE RankLoop(_, _, _, _, _, _, _)
RankLoop(s, key, pos, rank, count, hasPrev, prev) ==
    IF pos > Len(s) THEN <<>>
    ELSE LET i == s[pos]
             c1 == count + 1
             new == ~hasPrev \/ key[i] # prev
             r == IF new THEN rank + c1 ELSE rank
         IN (i :> r) @@ RankLoop(s, key, pos + 1, r, IF new THEN 0 ELSE c1, TRUE, key[i])

\* ---- the reference table of one case (every column computed once per state)
Table ==
    LET ok == [i \in 1..N |-> StrictOK(i)]
        val == [i \in 1..N |-> Val(i)]
        refok == ok[1]
        delta == [i \in 1..N |-> val[1] - val[i]]
        key == [i \in 1..N |-> IF refok THEN delta[i] ELSE 0 - val[i]]
        \* convention: the cut-off is not applied when the base model itself is not eligible (reference value NaN)
        cutApplies == C.rt # "lrt" /\ C.cutoff.kind = "val" /\ refok
        elig == [i \in 1..N |-> /\ ok[i]
                                /\ i > 1 => IF C.rt = "lrt" THEN LrtPass(i)
                                            ELSE (cutApplies => delta[i] > C.cutoff.v)]
        E == {i \in 1..N : elig[i]}
        rank == [i \in 1..N |-> IF elig[i] THEN 1 + Cardinality({j \in E : key[j] > key[i]}) ELSE 0]
        \* the documentation says "below the cut-off" / the test is "dofv >= quantile": on the boundary itself nothing
        \* is judged; neither when two values are closer than the rounding of the logarithm / quantile tables
        boundary == \/ \E i \in 2..N : ok[i] /\ cutApplies /\ Abs(delta[i] - C.cutoff.v) < 20
                    \/ \E i \in 2..N : ok[i] /\ C.rt = "lrt" /\ M(Parent(i)).ofv # 0
                                         /\ Abs(Dofv(i) - LrtCut(Df(i), Alpha(i))) < 20
                    \/ \E i, j \in 1..N : ok[i] /\ ok[j] /\ val[i] # val[j] /\ Abs(val[i] - val[j]) < 20
    IN [ok |-> ok, val |-> val, refok |-> refok, delta |-> delta, key |-> key, elig |-> elig, E |-> E, rank |-> rank,
        best |-> {i \in E : rank[i] = 1}, boundary |-> boundary]

\* ------------------------------------------------------------------ LRT helper cases
LP == LrtIn.pool
LM(i) == LP[ms[i]]
LDf(i) == NPar(Descs[LM(i).d]) - NPar(Descs[LM(1).d])
LTest(i) == LM(1).ofv # 0 /\ LM(i).ofv # 0 /\ 1000 * (LM(1).ofv - LM(i).ofv) >= LrtCut(LDf(i), alpha)
\* best_of_many: the child with the smallest OFV (NaN ignored) against the parent; the parent when it fails or all are NaN
Children == {i \in 2..N : LM(i).ofv # 0}
MinChildren == {i \in Children : \A j \in Children : LM(i).ofv <= LM(j).ofv}
LBoundary == \E i \in 2..N : LM(1).ofv # 0 /\ LM(i).ofv # 0
                              /\ Abs(1000 * (LM(1).ofv - LM(i).ofv) - LrtCut(LDf(i), alpha)) < 20

\* ------------------------------------------------------------------ the machine
Init == /\ kind \in {"rank", "lrt", "desc"}
        /\ g \in (IF kind = "rank" THEN 1..Len(Groups) ELSE {0})
        /\ ms = <<>> /\ cfg = 0 /\ alpha = "" /\ phase = "build"
MaxLen == IF kind = "rank" THEN Groups[g].maxLen ELSE LrtIn.maxLen
PoolSize == IF kind = "rank" THEN Len(Pool) ELSE Len(LP)
AddModel(i) == /\ kind \in {"rank", "lrt"} /\ phase = "build" /\ Len(ms) < MaxLen
               /\ ms' = Append(ms, i) /\ UNCHANGED <<kind, g, cfg, alpha, phase>>
DoAddModel == \E i \in 1..PoolSize : AddModel(i)
DoRank == /\ kind = "rank" /\ phase = "build" /\ Len(ms) >= 2
          /\ \E c \in 1..Len(Groups[g].cfgs) :
                /\ (Groups[g].cfgs[c].pen # <<>> => Len(Groups[g].cfgs[c].pen) >= Len(ms))
                /\ cfg' = c
          /\ phase' = "done" /\ UNCHANGED <<kind, g, ms, alpha>>
DoTest == /\ kind = "lrt" /\ phase = "build" /\ Len(ms) >= 2
          /\ alpha' \in {"0.05", "0.01"} /\ phase' = "done" /\ UNCHANGED <<kind, g, ms, cfg>>
DoDescribe == /\ kind = "desc" /\ cfg < Len(Descs)
              /\ cfg' = cfg + 1 /\ UNCHANGED <<kind, g, ms, alpha, phase>>
Next == DoAddModel \/ DoRank \/ DoTest \/ DoDescribe
Spec == Init /\ [][Next]_vars

Ranked == kind = "rank" /\ phase = "done"

\* ------------------------------------------------------------------ theorems (on the table T of the case)
RankAgreeAt(T) == LET loop == RankLoop(SortDesc(T.E, T.key), T.key, 1, 0, 0, FALSE, 0)
                  IN \A i \in T.E : loop[i] = T.rank[i]
RankLawsAt(T) ==
    /\ \A i, j \in T.E : (T.key[i] = T.key[j] => T.rank[i] = T.rank[j]) /\ (T.key[i] > T.key[j] => T.rank[i] < T.rank[j])
    /\ \A i \in T.E : T.rank[i] \in 1..Cardinality(T.E)
    /\ (T.E # {} => T.best # {})
    /\ \A i \in 1..N : ~T.ok[i] => i \notin T.E                      \* a failed candidate is never ranked
    /\ \A i \in T.best : \A j \in T.E : T.key[i] >= T.key[j]         \* best = top of the eligible ones
CountLaws == (kind = "desc" /\ cfg >= 1) => LET d == Descs[cfg] IN
    /\ WellFormedDesc(d)
    /\ NFixed(d) >= 0 /\ NFixed(d) + NRandom(d) = K(d) /\ K(d) <= NPar(d)
    /\ NEstIivOmega(d) <= NRandom(d) /\ BicCoef(d, "iiv")[2] + NIov(d) = NEstOmega(d)
    /\ BicCoef(d, "fixed")[1] = BicCoef(d, "random")[2]

\* ------------------------------------------------------------------ emission
NanOr(ok, v) == [nan |-> ~ok, v |-> IF ok THEN v ELSE 0]
RankRecAt(T) ==
           [g |-> g, ms |-> ms, cfg |-> cfg,
            rows |-> [i \in 1..N |-> [ok |-> T.ok[i], elig |-> T.elig[i],
                                      val |-> NanOr(T.elig[i], T.val[i]), delta |-> NanOr(T.elig[i] /\ T.refok, T.delta[i]),
                                      rank |-> T.rank[i], ofv |-> M(i).ofv, k |-> K(D(i)), coef |-> Coef(i), pen |-> Pen(i)]],
            best |-> T.best, boundary |-> T.boundary, refok |-> T.refok]
\* one invariant per ranking case: the table is computed once, the theorems are checked on it and the case is emitted
\* (RankAgree: loop transcription = set-comprehension rank;  RankLaws: ties share a rank, order, best, no failed model)
RankCase == Ranked => LET T == Table IN
                      /\ Assert(RankAgreeAt(T), <<"RankAgree violated", ms, cfg>>)
                      /\ Assert(RankLawsAt(T), <<"RankLaws violated", ms, cfg>>)
                      /\ PrintT(<<"RANK", ToJson(RankRecAt(T))>>)
LrtRec == [ms |-> ms, alpha |-> alpha, boundary |-> LBoundary,
           rows |-> [i \in 1..N |-> IF i = 1 THEN [df |-> 0, cut |-> 0, test |-> FALSE]
                                    ELSE [df |-> LDf(i), cut |-> LrtCut(LDf(i), alpha), test |-> LTest(i)]],
           many |-> IF Children = {} THEN {1} ELSE {IF LTest(i) THEN i ELSE 1 : i \in MinChildren}]
DescRec == LET d == Descs[cfg] IN
           [d |-> cfg, k |-> K(d), npar |-> NPar(d), mixed |-> BicCoef(d, "mixed"), fixed |-> BicCoef(d, "fixed"),
            random |-> BicCoef(d, "random"), iiv |-> BicCoef(d, "iiv")]
Emit == /\ (kind = "lrt" /\ phase = "done") => PrintT(<<"LRT", ToJson(LrtRec)>>)
        /\ (kind = "desc" /\ cfg >= 1) => PrintT(<<"DESC", ToJson(DescRec)>>)
=============================================================================
