---------------------------- MODULE StreamTrace -----------------------------
(* C03, code -> spec: every record-level diff the driver observed on the real code
       {edit, old: [[kind, uid]...], new: [[kind, uid]...], oldc / newc: [[kind, cid, ext]...]}
   (same uid = byte-identical record text) is validated against the frame property and the placement rule
   of StreamOps.  Thousands of traces per TLC run; accepted ids are printed, rejected ones with the reason. *)
EXTENDS StreamOps, TLC, Json, IOUtils

Traces == JsonDeserialize(IOEnv.TRACES)
VARIABLES tid
Pairs(s) == [i \in 1..Len(s) |-> <<s[i][1], s[i][2]>>]
Old == Pairs(Traces[tid].old)
New == Pairs(Traces[tid].new)
Ed == Traces[tid].edit
TraceInit == tid \in 1..Len(Traces)
TraceNext == UNCHANGED tid
KnownEdit == Ed \in Edits
Triples(s) == [i \in 1..Len(s) |-> <<s[i][1], s[i][2], s[i][3]>>]
OldC == Triples(Traces[tid].oldc)
NewC == Triples(Traces[tid].newc)
FrameOK == FrameHolds(Old, New, Ed)
CommentsOK == CommentsHold(OldC, NewC, Ed)
OldL == [i \in 1..Len(Traces[tid].oldl) |-> <<Traces[tid].oldl[i][1], Traces[tid].oldl[i][2]>>]
NewL == [i \in 1..Len(Traces[tid].newl) |-> Traces[tid].newl[i]]
LinesOK == LinesHold(OldL, NewL)
PlaceOK == PlacementHolds(Old, New, Ed)
Emit == IF KnownEdit /\ FrameOK /\ PlaceOK /\ CommentsOK /\ LinesOK THEN PrintT(<<"ACC", ToJson(tid)>>)
        ELSE PrintT(<<"REJ", ToJson([tid |-> tid, known |-> KnownEdit, frame |-> FrameOK, placement |-> PlaceOK, comments |-> CommentsOK, lines |-> LinesOK])>>)
=============================================================================
