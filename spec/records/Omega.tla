------------------------------- MODULE Omega -------------------------------
(* C04, $OMEGA / $SIGMA part.  History machine over the LAYOUT of the records
   (DIAGONAL items with FIX / SD / (v)xn, BLOCK(n) on the five NM-TRAN scales,
   BLOCK SAME) and their MEANING: a list of blocks, each a symmetric covariance
   matrix over named etas (SAME expanded, sharing the parameters of its base).

   phase "build": the layout is chosen record by record / item by item;
   phase "edit" : SetInit, Fix, Unfix, AddEta, RemoveEta, Join, Split -- each
                  defined on the MEANING (what the edited block list must be).

   Design-level theorems checked on every reachable state:
     * Decode(scale, Encode(scale, A)) = A  for every block matrix A that is
       reached and representable (the scale conversion a writer has to apply
       after a variance edit is the inverse of the reader's),
     * every block is symmetric with positive leading minors (<= 3x3),
     * eta names are unique, parameter names are unique.
   Every terminal state is emitted as a replay case.                          *)
EXTENDS RecRat, FiniteSets, TLC, Json

CONSTANTS MaxRecs, MaxEtas, MaxEdits,
          MaxDiagItems,  \* items per DIAGONAL record
          Sizes,         \* BLOCK sizes, subset of 1..3
          Scales,        \* subset of {"VC","SC","VR","SR","CH"}: VAR/SD x COV/CORR, CHOLESKY
          DiagSd,        \* subset of BOOLEAN: item level SD option
          DiagReps,      \* repeat counts of diagonal items (besides 1)
          NameOpts,      \* subset of BOOLEAN
          HdrOpts,       \* subset of BOOLEAN: DIAGONAL(n) written?
          AllowSame,     \* BOOLEAN
          BlockRep,      \* subset of BOOLEAN: BLOCK(3) with (c)x2 for the last row
          Structural,    \* BOOLEAN: AddEta / RemoveEta / Join / Split enabled (FALSE for $SIGMA cases)
          RichPos,       \* the record position that draws from the full alphabets above; the other records
          TailFix, TailSizes, MaxTailItems, \* ... are plain: DIAG items v [FIX] [; name] and BLOCK(n) on the covariance scale
          NEditVals,     \* 1 or 2 new values per SetInit
          FixPos,        \* where a fixed BLOCK carries its FIX: "hdr" BLOCK(n) FIX | "first" v FIX | "firstpar" (v FIX)
                         \*   | "prefix" (FIXED v) | "last" FIX after the last value  (all fix the whole block)
          NSlices, Slice

VARIABLES phase, recs, bs, steps, touched, nadd

vars == <<phase, recs, bs, steps, touched, nadd>>

AnyQ == <<0, 0>>      \* a covariance the property does not constrain (initial value chosen by create_joint_distribution)
IsAny(q) == q[2] = 0

(* ---------------------------------------------------------------- values by eta position *)
SdOf(g) == CASE g = 1 -> <<1, 2>> [] g = 2 -> <<1, 5>> [] g = 3 -> <<1, 10>> [] g = 4 -> <<3, 10>>
             [] g = 5 -> <<2, 5>> [] OTHER -> <<1, 4>>
VarOf(g) == Mul(SdOf(g), SdOf(g))
Rho(scale) == IF scale = "CH" THEN <<3, 5>> ELSE <<1, 2>>
NameOfOm(g) == CASE g = 1 -> "IVA" [] g = 2 -> "IVB" [] g = 3 -> "IVC" [] g = 4 -> "IVD" [] g = 5 -> "IVE" [] OTHER -> "IVF"
EtaName(g) == "ETA_" \o ToString(g)

(* ---------------------------------------------------------------- matrices *)
Tri(n) == (n * (n + 1)) \div 2
TriIdx(i, j) == IF i >= j THEN ((i * (i - 1)) \div 2) + j ELSE ((j * (j - 1)) \div 2) + i   \* 1-based index in the lower triangle
Mat(n, f(_, _)) == [i \in 1..n |-> [j \in 1..n |-> f(i, j)]]
Symmetric(m) == \A i, j \in 1..Len(m) : m[i][j] = m[j][i]
Det2(m) == Sub(Mul(m[1][1], m[2][2]), Mul(m[1][2], m[2][1]))
Det3(m) == Add(Sub(Mul(m[1][1], Sub(Mul(m[2][2], m[3][3]), Mul(m[2][3], m[3][2]))),
                   Mul(m[1][2], Sub(Mul(m[2][1], m[3][3]), Mul(m[2][3], m[3][1])))),
               Mul(m[1][3], Sub(Mul(m[2][1], m[3][2]), Mul(m[2][2], m[3][1]))))
HasAny(m) == \E i, j \in 1..Len(m) : IsAny(m[i][j])
PosDef(m) == \/ HasAny(m)
             \/ /\ Lt(Zero, m[1][1])
                /\ Len(m) >= 2 => Lt(Zero, Det2(m))
                /\ Len(m) >= 3 => Lt(Zero, Det3(m))
DelRC(m, k) == LET n == Len(m)
                   keep == SelectSeq([i \in 1..n |-> i], LAMBDA i : i # k)
               IN [a \in 1..(n - 1) |-> [b \in 1..(n - 1) |-> m[keep[a]][keep[b]]]]
DelIdx(s, k) == [a \in 1..(Len(s) - 1) |-> IF a < k THEN s[a] ELSE s[a + 1]]

(* the reader's conversion: spelled lower triangle on `scale` -> covariance matrix *)
Decode(scale, n, v) ==
    LET d(i) == v[TriIdx(i, i)]
        o(i, j) == v[TriIdx(i, j)]
    IN CASE scale = "VC" -> Mat(n, LAMBDA i, j : o(i, j))
         [] scale = "SC" -> Mat(n, LAMBDA i, j : IF i = j THEN Mul(d(i), d(i)) ELSE o(i, j))
         [] scale = "VR" -> Mat(n, LAMBDA i, j : IF i = j THEN d(i) ELSE Mul(o(i, j), Mul(Sqrt(d(i)), Sqrt(d(j)))))
         [] scale = "SR" -> Mat(n, LAMBDA i, j : IF i = j THEN Mul(d(i), d(i)) ELSE Mul(o(i, j), Mul(d(i), d(j))))
         [] OTHER ->  \* CHOLESKY: A = L L^T, L lower triangular
              LET L(i, j) == IF j <= i THEN v[TriIdx(i, j)] ELSE Zero
                  RECURSIVE S(_, _, _)
                  S(i, j, k) == IF k > n THEN Zero ELSE Add(Mul(L(i, k), L(j, k)), S(i, j, k + 1))
              IN Mat(n, LAMBDA i, j : S(i, j, 1))
(* the writer's conversion (design layer): covariance matrix -> spelled lower triangle *)
LowerTri(n, f(_, _)) == [k \in 1..Tri(n) |->
                           LET i == CHOOSE i \in 1..n : Tri(i - 1) < k /\ k <= Tri(i) IN f(i, k - Tri(i - 1))]
Representable(scale, m) ==
    /\ ~HasAny(m)
    /\ scale \in {"SC", "VR", "SR"} => \A i \in 1..Len(m) : IsSquare(m[i][i]) /\ ~IsZero(m[i][i])
    /\ scale = "CH" => /\ Len(m) <= 2 /\ IsSquare(m[1][1]) /\ ~IsZero(m[1][1])
                       /\ Len(m) = 2 => IsSquare(Sub(m[2][2], Div(Mul(m[2][1], m[2][1]), m[1][1])))
Encode(scale, m) ==
    LET n == Len(m)
        sd(i) == Sqrt(m[i][i])
    IN CASE scale = "VC" -> LowerTri(n, LAMBDA i, j : m[i][j])
         [] scale = "SC" -> LowerTri(n, LAMBDA i, j : IF i = j THEN sd(i) ELSE m[i][j])
         [] scale = "VR" -> LowerTri(n, LAMBDA i, j : IF i = j THEN m[i][i] ELSE Div(m[i][j], Mul(sd(i), sd(j))))
         [] scale = "SR" -> LowerTri(n, LAMBDA i, j : IF i = j THEN sd(i) ELSE Div(m[i][j], Mul(sd(i), sd(j))))
         [] OTHER -> IF n = 1 THEN <<sd(1)>>
                     ELSE LET l21 == Div(m[2][1], sd(1))
                          IN <<sd(1), l21, Sqrt(Sub(m[2][2], Mul(l21, l21)))>>

(* ---------------------------------------------------------------- layout *)
NoItem == <<>>
BlockVals(scale, g, n, rp) ==    \* spelled values of a fresh BLOCK(n) whose first eta is number g
    LET rho == Rho(scale)
        s(i) == SdOf(g + i - 1)
        A == Mat(n, LAMBDA i, j : IF i = j THEN Mul(s(i), s(i))
                                  ELSE IF rp THEN <<1, 1000>>       \* equal covariances: the last row can be written (c)x2
                                  ELSE Mul(rho, Mul(s(i), s(j))))
    IN Encode(scale, A)

Rich(r) == r = RichPos
DiagItemsAt(g, r, i) ==
    IF Rich(r)
    THEN {it \in [sd : DiagSd, fix : BOOLEAN, rep : {1} \cup DiagReps, par : BOOLEAN,
                  name : {IF n THEN NameOfOm(g) ELSE "" : n \in NameOpts}, g : {g}, id : {<<r, i>>}] :
             /\ it.rep > 1 => it.par /\ it.name = ""
             /\ it.rep = 1 /\ it.par => it.fix \/ it.sd}          \* (v) alone is not written by anybody
    ELSE [sd : {FALSE}, fix : TailFix, rep : {1}, par : {FALSE},
          name : {IF n THEN NameOfOm(g) ELSE "" : n \in NameOpts}, g : {g}, id : {<<r, i>>}]
DiagSpelled(it) == IF it.sd THEN SdOf(it.g) ELSE VarOf(it.g)

RecEtas(rec) == CASE rec.kind = "DIAG" -> LET RECURSIVE S(_) S(k) == IF k > Len(rec.items) THEN 0 ELSE rec.items[k].rep + S(k + 1) IN S(1)
                  [] OTHER -> rec.size
NEtas(rs) == LET RECURSIVE S(_) S(k) == IF k > Len(rs) THEN 0 ELSE RecEtas(rs[k]) + S(k + 1) IN S(1)

Blank == [kind |-> "DIAG", hdr |-> FALSE, items |-> <<>>, size |-> 0, scale |-> "VC", vals |-> <<>>, fix |-> FALSE,
          named |-> FALSE, bare |-> FALSE, first |-> 1, rep |-> FALSE, fixpos |-> "hdr"]

(* ---------------------------------------------------------------- meaning *)
(* block: etas (names), m (matrix), fix, same, pn (matrix of parameter names, "" = positional default, "?" = free),
          src = <<r, i>>: DIAG item i of record r;  <<r, 0>>: BLOCK record r;  <<0, 0>>: created by an edit   *)
BlocksOfRec(rec, r, prev) ==
    CASE rec.kind = "DIAG" ->
            LET RECURSIVE B(_, _)
                B(k, g) == IF k > Len(rec.items) THEN <<>>
                           ELSE LET it == rec.items[k]
                                IN [j \in 1..it.rep |->
                                      [etas |-> <<EtaName(g + j - 1)>>, m |-> <<<<VarOf(it.g)>>>>, fix |-> it.fix, same |-> FALSE,
                                       pn |-> <<<<it.name>>>>, src |-> it.id, scale |-> "VC"]] \o B(k + 1, g + it.rep)
            IN B(1, rec.first)
      [] rec.kind = "BLOCK" ->
            <<[etas |-> [i \in 1..rec.size |-> EtaName(rec.first + i - 1)],
               m |-> Decode(rec.scale, rec.size, rec.vals), fix |-> rec.fix, same |-> FALSE,
               pn |-> Mat(rec.size, LAMBDA i, j : IF i = j /\ rec.named THEN NameOfOm(rec.first + i - 1) ELSE ""),
               src |-> <<r, 0>>, scale |-> rec.scale]>>
      [] OTHER -> <<[prev EXCEPT !.etas = [i \in 1..rec.size |-> EtaName(rec.first + i - 1)], !.same = TRUE, !.src = <<r, 0>>]>>
Blocks(rs) == LET RECURSIVE F(_, _)
                  F(k, acc) == IF k > Len(rs) THEN acc
                               ELSE F(k + 1, acc \o BlocksOfRec(rs[k], k, IF Len(acc) = 0 THEN Blank ELSE acc[Len(acc)]))
              IN F(1, <<>>)

(* ---------------------------------------------------------------- build phase *)
Init == /\ phase = "build" /\ recs = <<>> /\ bs = <<>> /\ steps = <<>> /\ touched = {} /\ nadd = 0

Room(n) == Len(recs) < MaxRecs /\ NEtas(recs) + n <= MaxEtas
NewDiag ==
    /\ phase = "build"
    /\ LET g == NEtas(recs) + 1 IN
       \E h \in HdrOpts, it \in DiagItemsAt(g, Len(recs) + 1, 1) :
          /\ Room(it.rep)
          /\ recs' = Append(recs, [Blank EXCEPT !.hdr = h, !.items = <<it>>, !.first = g])
    /\ UNCHANGED <<phase, bs, steps, touched, nadd>>
AddDiagItem ==
    /\ phase = "build" /\ Len(recs) > 0 /\ recs[Len(recs)].kind = "DIAG"
    /\ Len(recs[Len(recs)].items) < (IF Rich(Len(recs)) THEN MaxDiagItems ELSE MaxTailItems)
    /\ LET g == NEtas(recs) + 1
           r == Len(recs) IN
       \E it \in DiagItemsAt(g, r, Len(recs[r].items) + 1) :
          /\ NEtas(recs) + it.rep <= MaxEtas
          /\ recs' = [recs EXCEPT ![r].items = Append(@, it)]
    /\ UNCHANGED <<phase, bs, steps, touched, nadd>>
NewBlock ==
    /\ phase = "build"
    /\ LET g == NEtas(recs) + 1 IN
       \E n \in (IF Rich(Len(recs) + 1) THEN Sizes ELSE TailSizes),
          sc \in (IF Rich(Len(recs) + 1) THEN Scales ELSE {"VC"}),
          fx \in (IF Rich(Len(recs) + 1) THEN BOOLEAN ELSE {FALSE}),
          nm \in (IF Rich(Len(recs) + 1) THEN NameOpts ELSE {FALSE}),
          rp \in (IF Rich(Len(recs) + 1) THEN BlockRep ELSE {FALSE}),
          fp \in (IF Rich(Len(recs) + 1) THEN FixPos ELSE {"hdr"}) :
          /\ Room(n)
          /\ ~fx => fp = "hdr"
          /\ rp => fp \in {"hdr", "first"}
          /\ n = 1 => sc \in {"VC", "SC"}
          /\ sc = "CH" => n <= 2
          /\ rp => n = 3 /\ sc = "VC"
          /\ recs' = Append(recs, [Blank EXCEPT !.kind = "BLOCK", !.size = n, !.scale = sc, !.fix = fx, !.named = nm,
                                                !.vals = BlockVals(sc, g, n, rp), !.first = g, !.rep = rp, !.fixpos = fp])
    /\ UNCHANGED <<phase, bs, steps, touched, nadd>>
NewSame ==
    /\ phase = "build" /\ AllowSame /\ Len(recs) > 0 /\ recs[Len(recs)].kind \in {"BLOCK", "SAME"}
    /\ Room(recs[Len(recs)].size)
    /\ \E b \in BOOLEAN :
         recs' = Append(recs, [Blank EXCEPT !.kind = "SAME", !.size = recs[Len(recs)].size, !.bare = b, !.first = NEtas(recs) + 1])
    /\ UNCHANGED <<phase, bs, steps, touched, nadd>>

RecCode(rc) == (IF rc.kind = "DIAG" THEN 3 ELSE IF rc.kind = "BLOCK" THEN 5 ELSE 7)
               + 11 * rc.size + 13 * Len(rc.items) + (IF rc.fix THEN 17 ELSE 0)
               + (IF rc.scale = "SC" THEN 19 ELSE IF rc.scale = "VR" THEN 23 ELSE IF rc.scale = "SR" THEN 29 ELSE IF rc.scale = "CH" THEN 31 ELSE 0)
               + (IF rc.hdr THEN 37 ELSE 0) + (IF rc.named THEN 41 ELSE 0) + (IF rc.bare THEN 43 ELSE 0)
               + (CASE rc.fixpos = "hdr" -> 0 [] rc.fixpos = "first" -> 71 [] rc.fixpos = "firstpar" -> 73
                    [] rc.fixpos = "prefix" -> 79 [] OTHER -> 83)
               + (LET RECURSIVE I(_) I(k) == IF k > Len(rc.items) THEN 0
                                             ELSE (k + 1) * ((IF rc.items[k].fix THEN 47 ELSE 0) + (IF rc.items[k].sd THEN 53 ELSE 0)
                                                             + 59 * rc.items[k].rep + (IF rc.items[k].name # "" THEN 61 ELSE 0)
                                                             + (IF rc.items[k].par THEN 67 ELSE 0)) + I(k + 1)
                  IN I(1))
LayoutHash(rs) == LET RECURSIVE H(_, _)
                      H(k, acc) == IF k > Len(rs) THEN acc ELSE H(k + 1, (acc * 131 + RecCode(rs[k])) % 10007)
                  IN H(1, 7)
(* the everyday layouts belong to every slice: DIAGONAL records of plain values v [FIX] ("plain"), and the same
   shape with unfixed values of which any may carry a name comment ("named": unnamed next to named values,
   in either order -- a removed value must take its comment with it)                                          *)
PlainShape(rs) == \A r \in 1..Len(rs) : /\ rs[r].kind = "DIAG" /\ ~rs[r].hdr
                                        /\ \A i \in 1..Len(rs[r].items) :
                                              LET it == rs[r].items[i] IN ~it.sd /\ it.rep = 1 /\ ~it.par
AllUnnamed(rs) == \A r \in 1..Len(rs) : \A i \in 1..Len(rs[r].items) : rs[r].items[i].name = ""
AllUnfixed(rs) == \A r \in 1..Len(rs) : \A i \in 1..Len(rs[r].items) : ~rs[r].items[i].fix
PlainLayout(rs) == PlainShape(rs) /\ AllUnnamed(rs)
LayoutClass(rs) == IF PlainLayout(rs) THEN "plain" ELSE IF PlainShape(rs) /\ AllUnfixed(rs) THEN "named" ELSE "no"
StartEdit ==
    /\ phase = "build" /\ Len(recs) > 0
    /\ NSlices = 1 \/ LayoutHash(recs) % NSlices = Slice \/ LayoutClass(recs) # "no"
    /\ phase' = "edit" /\ bs' = Blocks(recs)
    /\ UNCHANGED <<recs, steps, touched, nadd>>

(* ---------------------------------------------------------------- edit phase *)
Editing == phase = "edit" /\ Len(steps) < MaxEdits
AllEtas == LET RECURSIVE F(_) F(k) == IF k > Len(bs) THEN <<>> ELSE bs[k].etas \o F(k + 1) IN F(1)
IsIov(k) == bs[k].same \/ (k < Len(bs) /\ bs[k + 1].same)
Level(q, k) == IF q[k].same \/ (k < Len(q) /\ q[k + 1].same) THEN "IOV" ELSE "IIV"
RecIds(r) == LET rec == recs[r]
             IN IF rec.kind = "DIAG" THEN (IF rec.hdr THEN {<<r, 0>>} ELSE {}) \cup {<<r, i>> : i \in 1..Len(rec.items)}
                ELSE {<<r, k>> : k \in 0..Len(rec.vals)}
AllIds == LET RECURSIVE F(_)
              F(r) == IF r > Len(recs) THEN <<>>
                      ELSE LET rec == recs[r]
                               hd == IF rec.kind # "DIAG" \/ rec.hdr THEN <<<<r, 0>>>> ELSE <<>>
                               n == IF rec.kind = "DIAG" THEN Len(rec.items) ELSE Len(rec.vals)
                           IN hd \o [i \in 1..n |-> <<r, i>>] \o F(r + 1)
          IN F(1)
Untouched(t) == SelectSeq(AllIds, LAMBDA id : id \notin t)
HdrOf(r) == IF recs[r].kind = "DIAG" /\ recs[r].hdr THEN {<<r, 0>>} ELSE {}

ProjB(q) == [k \in 1..Len(q) |-> [etas |-> q[k].etas, m |-> q[k].m, fix |-> q[k].fix, same |-> q[k].same,
                                  pn |-> q[k].pn, level |-> Level(q, k)]]
Step(e, feat, q, t) == [edit |-> e, expect |-> ProjB(q), untouched |-> Untouched(t), feat |-> feat]
Feat(b) == [src_kind |-> IF b.src = <<0, 0>> THEN "NEW" ELSE recs[b.src[1]].kind,
            scale |-> b.scale,
            in_repeat |-> b.src # <<0, 0>> /\ b.src[2] > 0 /\ recs[b.src[1]].items[b.src[2]].rep > 1,
            item_sd |-> b.src # <<0, 0>> /\ b.src[2] > 0 /\ recs[b.src[1]].items[b.src[2]].sd,
            rec_items |-> IF b.src = <<0, 0>> THEN 0 ELSE Len(recs[b.src[1]].items),
            rec_last_item |-> b.src # <<0, 0>> /\ b.src[2] > 0 /\ b.src[2] = Len(recs[b.src[1]].items),
            last_of_multi |-> b.src # <<0, 0>> /\ b.src[2] > 1 /\ b.src[2] = Len(recs[b.src[1]].items),
            rec_has_repeat |-> b.src # <<0, 0>> /\ \E i \in 1..Len(recs[b.src[1]].items) : recs[b.src[1]].items[i].rep > 1,
            size |-> Len(b.etas), fixed |-> b.fix, iov |-> FALSE,
            item_pos |-> IF b.src = <<0, 0>> THEN 0 ELSE b.src[2],
            rec_names |-> IF b.src = <<0, 0>> THEN <<>>
                          ELSE [i \in 1..Len(recs[b.src[1]].items) |-> recs[b.src[1]].items[i].name # ""],
            block_rep |-> b.src # <<0, 0>> /\ recs[b.src[1]].rep,
            fixpos |-> IF b.src # <<0, 0>> /\ b.src[2] = 0 THEN recs[b.src[1]].fixpos ELSE "hdr"]

PosOf(b, eta) == CHOOSE i \in 1..Len(b.etas) : b.etas[i] = eta
Base(k) == LET RECURSIVE B(_) B(j) == IF bs[j].same THEN B(j - 1) ELSE j IN B(k)    \* the block whose parameters block k uses

NewVars == IF NEditVals = 1 THEN {<<9, 100>>} ELSE {<<9, 100>>, <<1, 1>>}
NewCovs == {<<1, 100>>}
SetEntry(m, i, j, v) == [a \in 1..Len(m) |-> [b \in 1..Len(m) |-> IF (a = i /\ b = j) \/ (a = j /\ b = i) THEN v ELSE m[a][b]]]
TouchSet(b, i, j) ==
    IF b.src = <<0, 0>> THEN {}
    ELSE IF b.src[2] > 0 THEN {b.src}
    ELSE IF b.scale \in {"VC", "SC"} THEN {<<b.src[1], TriIdx(i, j)>>}
    ELSE {<<b.src[1], k>> : k \in 1..Len(recs[b.src[1]].vals)}

(* set_initial_estimates of the (co)variance of etas i, j of block k (k is not a SAME copy) *)
SetInit(k, i, j, v) ==
    /\ Editing /\ k \in 1..Len(bs) /\ ~bs[k].same
    /\ i \in 1..Len(bs[k].etas) /\ j \in 1..i
    /\ ~IsAny(bs[k].m[i][j]) /\ v # bs[k].m[i][j]
    /\ LET m2 == SetEntry(bs[k].m, i, j, v)
           t == touched \cup TouchSet(bs[k], i, j)
           q == [a \in 1..Len(bs) |-> IF Base(a) = k THEN [bs[a] EXCEPT !.m = m2] ELSE bs[a]]
       IN /\ PosDef(m2)
          /\ bs' = q /\ touched' = t
          /\ steps' = Append(steps, Step([op |-> "SetInit", a |-> bs[k].etas[i], b |-> bs[k].etas[j], v |-> v],
                                         Feat(bs[k]), q, t))
    /\ UNCHANGED <<phase, recs, nadd>>
(* fix_parameters / unfix_parameters of all parameters of block k *)
SetFix(k, f) ==
    /\ Editing /\ k \in 1..Len(bs) /\ ~bs[k].same /\ bs[k].fix # f
    /\ LET r == bs[k].src[1]
           fixitem == IF bs[k].src = <<0, 0>> \/ bs[k].src[2] # 0 \/ recs[r].fixpos = "hdr" THEN {}
                      ELSE IF recs[r].fixpos = "last" THEN {<<r, Len(recs[r].vals)>>} ELSE {<<r, 1>>}
           t == touched \cup (IF bs[k].src = <<0, 0>> THEN {} ELSE {bs[k].src}) \cup fixitem
           q == [a \in 1..Len(bs) |-> IF Base(a) = k THEN [bs[a] EXCEPT !.fix = f] ELSE bs[a]]
       IN /\ bs' = q /\ touched' = t
          /\ steps' = Append(steps, Step([op |-> IF f THEN "Fix" ELSE "Unfix", etas |-> bs[k].etas], Feat(bs[k]), q, t))
    /\ UNCHANGED <<phase, recs, nadd>>
(* add_iiv(model, 'CL' | 'V', 'exp'): a new eta with variance 0.09 after the existing ones *)
AddEta ==
    /\ Editing /\ Structural /\ nadd < 2
    /\ LET tgt == IF nadd = 0 THEN "CL" ELSE "V"
           nb == [etas |-> <<"ETA_" \o tgt>>, m |-> <<<<(<<9, 100>>)>>>>, fix |-> FALSE, same |-> FALSE,
                  pn |-> <<<<"IIV_" \o tgt>>>>, src |-> <<0, 0>>, scale |-> "VC"]
           q == Append(bs, nb)
       IN /\ bs' = q
          /\ steps' = Append(steps, Step([op |-> "AddEta", target |-> tgt], Feat(nb), q, touched))
    /\ nadd' = nadd + 1
    /\ UNCHANGED <<phase, recs, touched>>
Shrink(b, i) == [b EXCEPT !.etas = DelIdx(@, i), !.m = DelRC(@, i), !.pn = DelRC(@, i), !.src = <<0, 0>>]
ReplaceBlock(k, new) == [a \in 1..(k - 1) |-> bs[a]] \o new \o [a \in 1..(Len(bs) - k) |-> bs[k + a]]
StructTouch(b) == IF b.src = <<0, 0>> THEN {}
                  ELSE IF b.src[2] > 0 THEN {b.src} \cup HdrOf(b.src[1])
                  ELSE RecIds(b.src[1])
(* remove_iiv(model, eta): the eta disappears, its block loses the row and column *)
RemoveEta(k, i) ==      \* ($SIGMA cases: the epsilon is taken out of the statements and remove_unused_parameters_and_rvs is called)
    /\ Editing /\ k \in 1..Len(bs) /\ ~IsIov(k) /\ i \in 1..Len(bs[k].etas)
    /\ ~bs[k].fix                                          \* remove_iiv refuses fixed etas (ValueError)
    /\ Len(AllEtas) > 1                                    \* at least one eta remains
    /\ LET b == bs[k]
           q == ReplaceBlock(k, IF Len(b.etas) = 1 THEN <<>> ELSE <<Shrink(b, i)>>)
           t == touched \cup StructTouch(b)
       IN /\ bs' = q /\ touched' = t
          /\ steps' = Append(steps, Step([op |-> "RemoveEta", eta |-> b.etas[i]], Feat(b), q, t))
    /\ UNCHANGED <<phase, recs, nadd>>
(* create_joint_distribution(model, S): the single, unfixed IIV etas of S form one block; the new
   covariances are chosen by the function (not constrained here), position of the block not constrained *)
Join(S) ==
    /\ Editing /\ Structural /\ Cardinality(S) >= 2 /\ S \subseteq 1..Len(bs)
    /\ \A k \in S : Len(bs[k].etas) = 1 /\ ~IsIov(k) /\ ~bs[k].fix /\ ~IsZero(bs[k].m[1][1])
    /\ LET ks == SelectSeq([a \in 1..Len(bs) |-> a], LAMBDA a : a \in S)
           n == Len(ks)
           nb == [etas |-> [a \in 1..n |-> bs[ks[a]].etas[1]],
                  m |-> Mat(n, LAMBDA a, b : IF a = b THEN bs[ks[a]].m[1][1] ELSE AnyQ),
                  fix |-> FALSE, same |-> FALSE,
                  pn |-> Mat(n, LAMBDA a, b : IF a = b THEN bs[ks[a]].pn[1][1] ELSE "?"),
                  src |-> <<0, 0>>, scale |-> "VC"]
           rest == SelectSeq([a \in 1..Len(bs) |-> a], LAMBDA a : a \notin S)
           q == <<nb>> \o [a \in 1..Len(rest) |-> bs[rest[a]]]
           t == touched \cup UNION {StructTouch(bs[k]) : k \in S}
       IN /\ bs' = q /\ touched' = t
          /\ steps' = Append(steps, Step([op |-> "Join", etas |-> nb.etas],
                                         [Feat(bs[ks[1]]) EXCEPT !.rec_last_item = \E k \in S : Feat(bs[k]).rec_last_item,
                                                                 !.last_of_multi = \E k \in S : Feat(bs[k]).last_of_multi,
                                                                 !.in_repeat = \E k \in S : Feat(bs[k]).in_repeat,
                                                                 !.item_sd = \E k \in S : Feat(bs[k]).item_sd,
                                                                 !.rec_has_repeat = \E k \in S : Feat(bs[k]).rec_has_repeat], q, t))
    /\ UNCHANGED <<phase, recs, nadd>>
(* split_joint_distribution(model, eta): eta leaves its block and keeps its variance *)
Split(k, i) ==
    /\ Editing /\ Structural /\ k \in 1..Len(bs) /\ ~IsIov(k) /\ Len(bs[k].etas) >= 2 /\ i \in 1..Len(bs[k].etas)
    /\ ~bs[k].fix
    /\ ~HasAny(bs[k].m)
    /\ LET b == bs[k]
           one == [etas |-> <<b.etas[i]>>, m |-> <<<<b.m[i][i]>>>>, fix |-> b.fix, same |-> FALSE,
                   pn |-> <<<<b.pn[i][i]>>>>, src |-> <<0, 0>>, scale |-> "VC"]
           q == ReplaceBlock(k, <<one, Shrink(b, i)>>)
           t == touched \cup StructTouch(b)
       IN /\ bs' = q /\ touched' = t
          /\ steps' = Append(steps, Step([op |-> "Split", eta |-> b.etas[i]], Feat(b), q, t))
    /\ UNCHANGED <<phase, recs, nadd>>

Ks == 1..(MaxEtas + 2)
DoSetInit == \E k \in Ks, i \in 1..3, j \in 1..3, v \in NewVars \cup NewCovs :
                 /\ (i = j) = (v \in NewVars)
                 /\ SetInit(k, i, j, v)
DoFix == \E k \in Ks : SetFix(k, TRUE)
DoUnfix == \E k \in Ks : SetFix(k, FALSE)
DoAddEta == AddEta
DoRemoveEta == \E k \in Ks, i \in 1..3 : RemoveEta(k, i)
DoJoin == \E S \in SUBSET Ks : Cardinality(S) \in {2, 3} /\ Join(S)
DoSplit == \E k \in Ks, i \in 1..3 : Split(k, i)

Next == NewDiag \/ AddDiagItem \/ NewBlock \/ NewSame \/ StartEdit
        \/ DoSetInit \/ DoFix \/ DoUnfix \/ DoAddEta \/ DoRemoveEta \/ DoJoin \/ DoSplit
Spec == Init /\ [][Next]_vars

(* ---------------------------------------------------------------- properties *)
Edited == phase = "edit"
EtaNamesUnique == Edited => \A a, b \in 1..Len(AllEtas) : a # b => AllEtas[a] # AllEtas[b]
BlocksValid == Edited => \A k \in 1..Len(bs) :
                  /\ Len(bs[k].m) = Len(bs[k].etas) /\ Len(bs[k].pn) = Len(bs[k].etas) /\ Len(bs[k].etas) >= 1
                  /\ Symmetric(bs[k].m) /\ Symmetric(bs[k].pn) /\ PosDef(bs[k].m)
                  /\ bs[k].same => k > 1 /\ bs[k].m = bs[k - 1].m /\ bs[k].fix = bs[k - 1].fix
ParamNamesUnique ==
    Edited => \A a, b \in 1..Len(bs) : \A i \in 1..Len(bs[a].etas), j \in 1..Len(bs[b].etas) :
                 (bs[a].pn[i][i] \notin {"", "?"} /\ bs[a].pn[i][i] = bs[b].pn[j][j]) => (Base(a) = Base(b) /\ i = j)
(* scale conversions: what the writer has to write for the current matrix is read back as that matrix *)
ScaleRoundTrip ==
    Edited => \A k \in 1..Len(bs) : \A sc \in {"VC", "SC", "VR", "SR", "CH"} :
                 (Len(bs[k].etas) <= 3 /\ Representable(sc, bs[k].m) /\ (sc = "CH" => Len(bs[k].etas) <= 2))
                    => Decode(sc, Len(bs[k].etas), Encode(sc, bs[k].m)) = bs[k].m

(* ---------------------------------------------------------------- case emission *)
Terminal == phase = "edit" /\ Len(steps) = MaxEdits
ItemJson(it) == [sd |-> it.sd, fix |-> it.fix, rep |-> it.rep, par |-> it.par, name |-> it.name,
                 v |-> DiagSpelled(it), id |-> it.id]
RecJson(rec) == [kind |-> rec.kind, hdr |-> rec.hdr, items |-> [i \in 1..Len(rec.items) |-> ItemJson(rec.items[i])],
                 size |-> rec.size, scale |-> rec.scale, vals |-> rec.vals, fix |-> rec.fix, named |-> rec.named,
                 bare |-> rec.bare, first |-> rec.first, rep |-> rec.rep, fixpos |-> rec.fixpos,
                 names |-> [i \in 1..rec.size |-> IF rec.named THEN NameOfOm(rec.first + i - 1) ELSE ""]]
Case == [recs |-> [r \in 1..Len(recs) |-> RecJson(recs[r])], netas |-> NEtas(recs), plain |-> LayoutClass(recs),
         read |-> ProjB(Blocks(recs)), structural |-> Structural, steps |-> steps]
EmitCase == Terminal => PrintT(<<"CASE", ToJson(Case)>>)
=============================================================================
