------------------------------- MODULE Stream -------------------------------
(* C03 - control streams round-trip losslessly; edits touch only what changed.

   TEXT LEVEL (Mode = "text").  A control stream is a sequence over a token
   alphabet (record names incl. abbreviations and unknown records, words,
   numbers, parentheses, comma, =, ;comment, blank, TAB, newline, CR LF,
   & continuation, NUL, verbatim line; tokens before the first $ are the text
   before the first record).  The stream is built token by token and the
   record-splitting automaton `Feed` consumes each token:
        a record starts at a $name that is preceded on its line by blanks / TABs only,
        and those blanks belong to the new record.
   Invariants:  Concat(chunks) \o pend = toks        (the split loses nothing)
                the automaton's record starts = the declarative definition IsStart
   Every reachable token sequence is emitted as a case with its expected split.

   RECORD LEVEL (Mode = "rec").  State = sequence of <<kind, uid>> records.  The
   layout is built (base order, duplicates, unknown records, parameter records
   before the code), then ONE edit is applied.  Each edit has a footprint
   Touches(edit) \subseteq Kinds; its effect is composed from the transcribed
   stream operations insert_record / replace_all / replace_records /
   remove_records acting on touched kinds only.  Properties:
        Frame      records of untouched kinds: byte-identical (same uid), same relative order
        Placement  a record inserted by insert_record follows the documented rule
        Comments   (StreamOps.CommentsHold, on real traces) no comment of the old text survives only as part of a
                   longer or shorter comment: a rewritten record may lose its comments, it must not corrupt them
   (design => property, checked on every reachable transition).  Every layout
   x edit is emitted as a case; the real old/new streams come back as traces
   and are validated by StreamTrace.tla against Frame / Placement.            *)
EXTENDS StreamOps, TLC, Json

CONSTANTS Mode,                       \* "text" | "rec"
          Dollars, Blanks, Newlines, Others,   \* token classes (sets of strings; a token is its own name)
          PrefixName,                 \* fixed first tokens of every stream (record specific profiles), see Prefix
          MaxLen,                     \* tokens after Prefix
          LastTokens,                 \* tokens allowed in the last position (seeded sampling of the longest sequences)
          MaxExtra,                   \* rec level: number of layout variations applied
          MaxOps                      \* rec level: stream operations per edit in the abstract machine

VARIABLES toks, chunks, pend, bol,    \* text level: tokens so far, automaton state
          stream, nuid, phase, edit, before, nops,  \* record level
          decor                                     \* record level: shape classes of individual records (see Decorations)

vars == <<toks, chunks, pend, bol, stream, nuid, phase, edit, before, nops, decor>>

(* ======================================================================== text level *)
Alphabet == Dollars \cup Blanks \cup Newlines \cup Others
Prefix == CASE PrefixName = "data" -> <<"$DATA", " ", "pheno.dta">>
             [] PrefixName = "input" -> <<"$INPUT", " ", "ID">>
             [] PrefixName = "est" -> <<"$ESTIMATION">>
             [] PrefixName = "table" -> <<"$TABLE", " ", "ID">>
             [] PrefixName = "sub" -> <<"$SUBROUTINES">>
             [] PrefixName = "pk" -> <<"$PK", "NL">>
             [] PrefixName = "problem" -> <<"$PROBLEM">>
             [] OTHER -> <<>>

RECURSIVE Concat(_)
Concat(ss) == IF ss = <<>> THEN <<>> ELSE Head(ss) \o Concat(Tail(ss))
AppendLast(cs, s) == [cs EXCEPT ![Len(cs)] = @ \o s]

(* the splitting automaton: state (chunks, pend, bol) *)
FeedChunks(cs, pd, b, t) ==
    IF t \in Dollars /\ b THEN Append(cs, pd \o <<t>>)
    ELSE IF t \in Blanks /\ b THEN cs
    ELSE AppendLast(cs, pd \o <<t>>)
FeedPend(pd, b, t) == IF t \in Blanks /\ b THEN Append(pd, t) ELSE <<>>
FeedBol(b, t) == IF t \in Blanks /\ b THEN TRUE ELSE t \in Newlines

TextInit == /\ toks = Prefix /\ Mode = "text"
            /\ LET RECURSIVE Run(_, _, _, _)
                   Run(k, cs, pd, b) == IF k > Len(Prefix) THEN <<cs, pd, b>>
                                        ELSE Run(k + 1, FeedChunks(cs, pd, b, Prefix[k]), FeedPend(pd, b, Prefix[k]), FeedBol(b, Prefix[k]))
                   r == Run(1, << <<>> >>, <<>>, TRUE)
               IN chunks = r[1] /\ pend = r[2] /\ bol = r[3]
            /\ stream = <<>> /\ nuid = 0 /\ phase = "text" /\ edit = "none" /\ before = <<>> /\ nops = 0 /\ decor = {}

AppendTok(t) ==
    /\ Mode = "text" /\ Len(toks) < Len(Prefix) + MaxLen
    /\ Len(toks) = Len(Prefix) + MaxLen - 1 => t \in LastTokens
    /\ toks' = Append(toks, t)
    /\ chunks' = FeedChunks(chunks, pend, bol, t)
    /\ pend' = FeedPend(pend, bol, t)
    /\ bol' = FeedBol(bol, t)
    /\ UNCHANGED <<stream, nuid, phase, edit, before, nops, decor>>
DoDollar == \E t \in Dollars : AppendTok(t)
DoBlank == \E t \in Blanks : AppendTok(t)
DoNewline == \E t \in Newlines : AppendTok(t)
DoOther == \E t \in Others : AppendTok(t)

(* the result of splitting: pending blanks at the end of the text stay with the last chunk *)
Split == AppendLast(chunks, pend)
SplitLossless == Mode = "text" => Concat(Split) = toks

(* declarative definition of a record start, independent of the automaton *)
LastNL(i) == LET S == {j \in 1..(i - 1) : toks[j] \in Newlines} IN IF S = {} THEN 0 ELSE CHOOSE j \in S : \A k \in S : k <= j
IsStart(i) == toks[i] \in Dollars /\ \A j \in (LastNL(i) + 1)..(i - 1) : toks[j] \in Blanks
LineStartOf(i) == LastNL(i) + 1          \* the record owns the blanks of its line
ChunkStarts == LET RECURSIVE P(_, _) P(k, pos) == IF k > Len(Split) THEN <<>> ELSE <<pos>> \o P(k + 1, pos + Len(Split[k])) IN P(1, 1)
SplitMatchesDefinition ==
    Mode = "text" =>
       /\ Len(Split) = 1 + Cardinality({i \in 1..Len(toks) : IsStart(i)})
       /\ \A k \in 2..Len(Split) : \E i \in 1..Len(toks) : IsStart(i) /\ ChunkStarts[k] = LineStartOf(i)
       /\ \A i \in 1..Len(toks) : IsStart(i) => \E k \in 2..Len(Split) : ChunkStarts[k] = LineStartOf(i)

EmitText == (Mode = "text" /\ Len(toks) > 0) => PrintT(<<"TEXT", ToJson([toks |-> toks, split |-> Split])>>)

(* ======================================================================== record level *)
(* ---- layout building *)
BaseLayout == <<"PROBLEM", "INPUT", "DATA", "SUBROUTINES", "PK", "ERROR", "THETA", "OMEGA", "SIGMA", "ESTIMATION">>
Variations == {"dupTHETA", "dupOMEGA", "dupSIGMA", "dupEST", "splitTHETA", "splitOMEGA", "unknown", "table", "cov",
               "paramsFirst", "pretext", "pred"}
RecInit == /\ Mode = "rec" /\ phase = "layout"
           /\ stream = [i \in 1..Len(BaseLayout) |-> <<BaseLayout[i], i>>] /\ nuid = Len(BaseLayout)
           /\ edit = "none" /\ before = <<>> /\ nops = 0 /\ decor = {}
           /\ toks = <<>> /\ chunks = <<>> /\ pend = <<>> /\ bol = TRUE
InsertAt(s, p, r) == [i \in 1..(Len(s) + 1) |-> IF i < p THEN s[i] ELSE IF i = p THEN r ELSE s[i - 1]]
LastOf(s, k) == Max({i \in 1..Len(s) : KindOf(s[i]) = k})
HasKind(s, k) == \E i \in 1..Len(s) : KindOf(s[i]) = k
CountKind(s, k) == Cardinality({i \in 1..Len(s) : KindOf(s[i]) = k})

Vary(v) ==
    /\ Mode = "rec" /\ phase = "layout" /\ nuid < Len(BaseLayout) + MaxExtra
    /\ LET fresh(k) == <<k, nuid + 1>>
       IN \/ /\ v \in {"dupTHETA", "dupOMEGA", "dupSIGMA", "dupEST"}         \* second record right after the last of its kind
             /\ LET k == CASE v = "dupTHETA" -> "THETA" [] v = "dupOMEGA" -> "OMEGA" [] v = "dupSIGMA" -> "SIGMA" [] OTHER -> "ESTIMATION"
                IN HasKind(stream, k) /\ CountKind(stream, k) < 2 /\ stream' = InsertAt(stream, LastOf(stream, k) + 1, fresh(k))
          \/ /\ v \in {"splitTHETA", "splitOMEGA"}                            \* second record of the kind at the END (separated)
             /\ LET k == IF v = "splitTHETA" THEN "THETA" ELSE "OMEGA"
                IN HasKind(stream, k) /\ CountKind(stream, k) < 2 /\ KindOf(stream[Len(stream)]) # k
                   /\ stream' = Append(stream, fresh(k))
          \/ /\ v = "unknown" /\ CountKind(stream, "UNKNOWN") < 2
             /\ \E p \in 2..(Len(stream) + 1) : stream' = InsertAt(stream, p, fresh("UNKNOWN"))
          \/ /\ v = "table" /\ ~HasKind(stream, "TABLE") /\ stream' = Append(stream, fresh("TABLE"))
          \/ /\ v = "cov" /\ ~HasKind(stream, "COVARIANCE") /\ HasKind(stream, "ESTIMATION")
             /\ stream' = InsertAt(stream, LastOf(stream, "ESTIMATION") + 1, fresh("COVARIANCE"))
          \/ /\ v = "paramsFirst" /\ HasKind(stream, "PK") /\ KindOf(stream[5]) = "PK"   \* $THETA/$OMEGA/$SIGMA before $PK
             /\ LET par == SelectSeq(stream, LAMBDA r : KindOf(r) \in {"THETA", "OMEGA", "SIGMA"})
                    rest == SelectSeq(stream, LAMBDA r : KindOf(r) \notin {"THETA", "OMEGA", "SIGMA"})
                IN stream' = SubSeq(rest, 1, 4) \o par \o SubSeq(rest, 5, Len(rest))
          \/ /\ v = "pretext" /\ KindOf(stream[1]) # "PRETEXT" /\ stream' = <<fresh("PRETEXT")>> \o stream
          \/ /\ v = "pred" /\ HasKind(stream, "PK")                            \* $PRED model: no $SUBROUTINES / $PK / $ERROR
             /\ stream' = LET s1 == SelectSeq(stream, LAMBDA r : KindOf(r) \notin {"SUBROUTINES", "ERROR"})
                          IN [i \in 1..Len(s1) |-> IF KindOf(s1[i]) = "PK" THEN <<"PRED", s1[i][2]>> ELSE s1[i]]
    /\ nuid' = nuid + 1
    /\ UNCHANGED <<phase, edit, before, toks, chunks, pend, bol, nops, decor>>
DoVary == \E v \in Variations : Vary(v)

(* shape classes of single records (they do not change the record sequence, the renderer obeys them):
     tableML   $TABLE over two lines, a comment at the end of the first, the continuation line starts with the
               options NOPRINT ONEHEADER FILE= that estimation / table edits remove and re-append
     thetaRep  one $THETA record holding a (v)xn repeat FOLLOWED by another theta (three parameters)
     thetaInf  one $THETA record with several parameters and explicit infinite bounds
     codeCmt   the code record ($PK / $PRED) has comment lines between its statements, a verbatim line, a comment
               line directly before its last statement and an unused first statement (WT70=70)
     omega4 / sigma4   the two records of the kind hold two values each (a later record next to an earlier one)  *)
Decorations == {"tableML", "thetaRep", "thetaInf", "omega4", "sigma4", "codeCmt"}
Decorate(d) ==
    /\ Mode = "rec" /\ phase = "layout" /\ nuid < Len(BaseLayout) + MaxExtra /\ d \notin decor
    /\ d = "tableML" => HasKind(stream, "TABLE")
    /\ d = "codeCmt" => HasKind(stream, "PK") \/ HasKind(stream, "PRED")
    /\ d = "thetaRep" => CountKind(stream, "THETA") = 1 /\ "thetaInf" \notin decor
    /\ d = "thetaInf" => CountKind(stream, "THETA") = 1 /\ "thetaRep" \notin decor
    /\ d = "omega4" => CountKind(stream, "OMEGA") = 2
    /\ d = "sigma4" => CountKind(stream, "SIGMA") = 2
    /\ decor' = decor \cup {d} /\ nuid' = nuid + 1
    /\ UNCHANGED <<stream, phase, edit, before, toks, chunks, pend, bol, nops>>
DoDecorate == \E d \in Decorations : Decorate(d)

(* ---- the transcribed stream operations (NMTranControlStream) *)
InsertRecord(s, r) ==       \* insert_record(record)
    LET k == KindOf(r)
        same == {i \in 1..Len(s) : KindOf(s[i]) = k}
        idx == IF same # {} THEN Max(same)
               ELSE IF KnownBefore(s, k) # {} THEN Max(KnownBefore(s, k)) ELSE Len(s)
    IN InsertAt(s, idx + 1, r)
ReplaceAll(s, k, new) ==    \* replace_all(name, new): the new records take the place of the first old one
    LET same == {i \in 1..Len(s) : KindOf(s[i]) = k}
        keep == SelectSeq(s, LAMBDA r : KindOf(r) # k)
    IN IF same # {}
       THEN LET first == CHOOSE i \in same : \A j \in same : i <= j
                nbefore == Cardinality({i \in 1..(first - 1) : KindOf(s[i]) # k})
            IN SubSeq(keep, 1, nbefore) \o new \o SubSeq(keep, nbefore + 1, Len(keep))
       ELSE LET after == IF LooseBefore(keep, k) # {} THEN Max(LooseBefore(keep, k)) ELSE Len(keep)
            IN SubSeq(keep, 1, after) \o new \o SubSeq(keep, after + 1, Len(keep))
ReplaceRecord(s, i, r) == [s EXCEPT ![i] = r]       \* replace_records([old], [new])
RemoveRecord(s, i) == [j \in 1..(Len(s) - 1) |-> IF j < i THEN s[j] ELSE s[j + 1]]

(* ---- one edit: any composition of the operations above on records of touched kinds *)
StartEdit(e) == /\ Mode = "rec" /\ phase = "layout"
                /\ (e \in {"PkStatement", "RemoveTheta"}) => HasKind(stream, "PK") \/ HasKind(stream, "PRED")
                /\ (e = "PkStatement") => HasKind(stream, "PK")
                /\ (e \in {"CodeInsertThenEdit", "CodeRemoveThenEdit"}) => "codeCmt" \in decor
                /\ (e = "PredStatement") => HasKind(stream, "PRED")
                /\ (e = "ErrorStatement") => HasKind(stream, "ERROR")
                /\ (e = "Rename") => HasKind(stream, "TABLE")
                /\ (e = "RemoveEst") => CountKind(stream, "ESTIMATION") >= 2
                /\ phase' = "edit" /\ edit' = e /\ before' = stream
                /\ UNCHANGED <<stream, nuid, toks, chunks, pend, bol, nops, decor>>
DoStartEdit == \E e \in Edits : StartEdit(e)

Op(kind) ==   \* one stream operation on a touched kind (bounded: at most 3 operations per edit)
    /\ Mode = "rec" /\ phase = "edit" /\ nops < MaxOps
    /\ kind \in Touches(edit)
    /\ \/ stream' = InsertRecord(stream, <<kind, nuid + 1>>)
       \/ \E i \in 1..Len(stream) : KindOf(stream[i]) = kind /\ stream' = ReplaceRecord(stream, i, <<kind, nuid + 1>>)
       \/ \E i \in 1..Len(stream) : KindOf(stream[i]) = kind /\ stream' = RemoveRecord(stream, i)
       \/ \E n \in 0..2 : stream' = ReplaceAll(stream, kind, [j \in 1..n |-> <<kind, nuid + j>>])
    /\ nuid' = nuid + 2 /\ nops' = nops + 1
    /\ UNCHANGED <<phase, edit, before, toks, chunks, pend, bol, decor>>
DoOp == \E k \in Kinds : Op(k)

(* properties of the record level *)
Frame == (Mode = "rec" /\ phase = "edit") => FrameHolds(before, stream, edit)
(* Placement is a statement about ONE stream operation (the rule is evaluated on the stream the record enters);
   after several operations of one edit only the frame property is claimed.                                  *)
Placement == (Mode = "rec" /\ phase = "edit" /\ nops <= 1) => PlacementHolds(before, stream, edit)
UidsUnique == Mode = "rec" => \A i, j \in 1..Len(stream) : i # j => stream[i][2] # stream[j][2]

EmitLayout == (Mode = "rec" /\ phase = "edit" /\ stream = before) =>
                 PrintT(<<"LAYOUT", ToJson([kinds |-> [i \in 1..Len(stream) |-> KindOf(stream[i])], edit |-> edit,
                                            touches |-> Touches(edit), decor |-> decor])>>)

Init == IF Mode = "text" THEN TextInit ELSE RecInit
Next == DoDollar \/ DoBlank \/ DoNewline \/ DoOther \/ DoVary \/ DoDecorate \/ DoStartEdit \/ DoOp
Spec == Init /\ [][Next]_vars
=============================================================================
