INIT TraceInit
NEXT TraceNext
INVARIANT Emit
CHECK_DEADLOCK FALSE
