\* quick profile A, slice 0 (the driver writes one cfg per profile, see harness/c04_omega.py)
CONSTANTS
  MaxRecs = 2
  MaxEtas = 4
  MaxEdits = 1
  MaxDiagItems = 2
  Sizes = {1, 2}
  Scales = {"VC", "SC", "VR", "SR", "CH"}
  DiagSd = {TRUE, FALSE}
  DiagReps = {2}
  NameOpts = {TRUE, FALSE}
  HdrOpts = {FALSE}
  AllowSame = TRUE
  BlockRep = {FALSE}
  Structural = TRUE
  RichPos = 1
  TailFix = {FALSE}
  TailSizes = {2}
  MaxTailItems = 1
  NEditVals = 1
  NSlices = 6
  FixPos = {"hdr", "first", "firstpar", "prefix", "last"}
  Slice = 0
INIT Init
NEXT Next
INVARIANT EtaNamesUnique
INVARIANT BlocksValid
INVARIANT ParamNamesUnique
INVARIANT ScaleRoundTrip
INVARIANT EmitCase
CHECK_DEADLOCK FALSE
