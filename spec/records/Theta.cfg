\* quick profile A, slice 0 (the driver writes one cfg per profile, see harness/c04_params.py)
CONSTANTS
  MaxRecs = 2
  MaxItems = 2
  MaxParams = 4
  MaxEdits = 1
  Forms = {1, 2, 3, 5}
  LowKinds = {"none", "inf", "mil", "val"}
  UpKinds = {"none", "inf", "val"}
  Reps = {2}
  NameOpts = {TRUE, FALSE}
  SpOpts = {0}
  RepNames = FALSE
  TailForms = {1, 3}
  TailLowKinds = {"none", "val"}
  TailUpKinds = {"none", "val"}
  NEditVals = 1
  NSlices = 6
  Slice = 0
INIT Init
NEXT Next
INVARIANT NamesUnique
INVARIANT BoundsOrdered
INVARIANT WriteBackFaithful
INVARIANT Frame
INVARIANT EmitCase
CHECK_DEADLOCK FALSE
