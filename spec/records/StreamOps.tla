----------------------------- MODULE StreamOps ------------------------------
(* C03, record level: the constant part shared by Stream.tla (exploration) and StreamTrace.tla (validation of
   what the real code did): record kinds, the edits with their footprints, the frame property and the
   placement rule as predicates over an old and a new stream of <<kind, uid>> records.                      *)
EXTENDS Integers, Sequences, FiniteSets

Kinds == {"PROBLEM", "INPUT", "DATA", "SUBROUTINES", "ABBREVIATED", "PK", "PRED", "ERROR", "THETA", "OMEGA", "SIGMA",
          "ESTIMATION", "COVARIANCE", "TABLE", "SIZES", "ETAS", "UNKNOWN", "PRETEXT"}
(* NMTranParser.default_record_order *)
DefaultOrder == <<"SIZES", "INPUT", "DATA", "SUBROUTINES", "MODEL", "ABBREVIATED", "PK", "PRED", "DES", "ERROR", "THETA",
                  "OMEGA", "SIGMA", "MSFI", "ESTIMATION", "DESIGN", "COVARIANCE", "ETAS", "TABLE">>
OrderIdx(k) == IF \E i \in 1..Len(DefaultOrder) : DefaultOrder[i] = k
               THEN CHOOSE i \in 1..Len(DefaultOrder) : DefaultOrder[i] = k ELSE 0
Before(k) == {DefaultOrder[i] : i \in 1..(OrderIdx(k) - 1)}

(* single-component edits and their footprints: the kinds of records that may be rewritten, added or removed *)
Edits == {"Empty", "ThetaValue", "OmegaValue", "SigmaValue", "AddTheta", "RemoveTheta", "Description", "EstOptions",
          "AddEst", "RemoveEst", "AddCov", "PkStatement", "PredStatement", "ErrorStatement", "AddEta", "RemoveEta",
          "Rename", "Dataset",
          \* two successive statement edits in ONE code record with the code regenerated in between:
          \* insert (or remove) a statement at the top of the record, then change its last statement
          "CodeInsertThenEdit", "CodeRemoveThenEdit"}
Touches(e) ==
    CASE e = "Empty" -> {}
      [] e \in {"ThetaValue", "AddTheta"} -> {"THETA"}
      [] e = "RemoveTheta" -> {"THETA", "PK", "PRED"}                 \* the statement that used it changes too
      [] e = "OmegaValue" -> {"OMEGA"}
      [] e = "SigmaValue" -> {"SIGMA"}
      [] e = "Description" -> {"PROBLEM"}
      \* an estimation step of pharmpy bundles method options, the covariance step and the table output
      \* (predictions / residuals): $COVARIANCE and $TABLE express that component as well
      \* (NEXTPROBLEM: everything from a second $PROBLEM on -- the $DESIGN problem of an EFIM step shares the MSF file name)
      [] e \in {"EstOptions", "AddEst", "RemoveEst", "AddCov"} -> {"ESTIMATION", "COVARIANCE", "TABLE", "NEXTPROBLEM"}
      [] e = "PkStatement" -> {"PK"}
      [] e \in {"CodeInsertThenEdit", "CodeRemoveThenEdit"} -> {"PK", "PRED"}
      [] e = "PredStatement" -> {"PRED"}
      [] e = "ErrorStatement" -> {"ERROR"}
      [] e \in {"AddEta", "RemoveEta"} -> {"OMEGA", "PK", "PRED", "ABBREVIATED", "SIZES", "ETAS"}
      [] e = "Rename" -> {"TABLE"}
      [] e = "Dataset" -> {"INPUT", "DATA"}
      [] OTHER -> {}

KindOf(r) == r[1]
Untouched(s, e) == SelectSeq(s, LAMBDA r : KindOf(r) \notin Touches(e))
(* the frame property, on an old and a new stream *)
FrameHolds(old, new, e) == Untouched(old, e) = Untouched(new, e)

(* Placement.  The untouched records U are the same in the old and the new stream (Frame); they cut each stream
   into gaps 0..Len(U).  A record of a touched kind k may only sit in a gap that held records of kind k before
   (rewritten in place / inserted after the last of its kind / replace_all at the first one's position), or,
   when the kind was absent, in the gap the documented rule of insert_record gives: after the last record that
   precedes k in the default record order, else at the end (replace_all's fall-back counts unknown records as
   preceding: both readings are admitted).                                                                   *)
GapOf(s, i, e) == Cardinality({j \in 1..(i - 1) : KindOf(s[j]) \notin Touches(e)})
Gaps(s, k, e) == {GapOf(s, i, e) : i \in {j \in 1..Len(s) : KindOf(s[j]) = k}}
Max(S) == CHOOSE i \in S : \A j \in S : j <= i
KnownBefore(s, k) == {i \in 1..Len(s) : KindOf(s[i]) \in Before(k)}
LooseBefore(s, k) == {i \in 1..Len(s) : KindOf(s[i]) \in Before(k) \/ OrderIdx(KindOf(s[i])) = 0}
RuleGaps(new, k, e) ==
    LET o == SelectSeq(new, LAMBDA r : KindOf(r) # k)
        after(S) == IF S = {} THEN Len(o) ELSE Max(S)
    IN {GapOf(o, after(KnownBefore(o, k)) + 1, e), GapOf(o, after(LooseBefore(o, k)) + 1, e)}
PlacementHolds(old, new, e) ==
    \A k \in Touches(e) : \A g \in Gaps(new, k, e) :
        \/ g \in Gaps(old, k, e)
        \/ g \in RuleGaps(new, k, e)          \* (also after all records of the kind were removed and one is inserted anew)
        \* explicit position next to the other records that express the same component
        \* (add_covariance_record puts $COVARIANCE right after the $ESTIMATION it belongs to)
        \/ Gaps(old, k, e) = {} /\ g \in UNION {Gaps(old, k2, e) : k2 \in Touches(e) \ {k}}

(* Comments.  oldc / newc: the comments (";..." to the end of the line) of the old and the new text in order,
   each <<kind of its record, cid, ext>>: cid identifies the exact comment text, ext = cid of an OLD comment of
   which this text is a proper extension or truncation (0: none).  The statement "every comment ... that does not
   express the modified component is preserved exactly":
     (1) the comments of records of untouched kinds are the same sequence (follows from Frame, stated for itself);
     (2) no comment is corrupted: a new comment may not be an extension / truncation of an old comment that is
         itself gone (text glued onto a comment line, or a comment cut short) -- whatever the kind of its record.
   Comments that vanish together with a record that was rewritten are admitted (the record expressed the component). *)
(* Lines of an edited code record.  oldl: its lines before the edit(s) as <<lid, keep>> (lid = identity of the exact
   line text; keep = the line does not belong to an edited / removed statement: comments, verbatim lines, the other
   statements), newl: the lids of its lines afterwards.  Frame inside the record: the lines to keep occur exactly
   once each (as often as before) and in the same order -- no stale copy, no loss, nothing glued onto them.      *)
KeepLines(oldl) == SelectSeq([i \in 1..Len(oldl) |-> IF oldl[i][2] THEN oldl[i][1] ELSE 0], LAMBDA x : x # 0)
LinesHold(oldl, newl) ==
    LET keep == KeepLines(oldl)
        ids == {keep[i] : i \in 1..Len(keep)}
    IN SelectSeq(newl, LAMBDA x : x \in ids) = keep

CommentIds(cs) == {cs[i][2] : i \in 1..Len(cs)}
UntouchedComments(cs, e) == SelectSeq(cs, LAMBDA c : c[1] \notin Touches(e))
CommentsHold(oldc, newc, e) ==
    /\ UntouchedComments(oldc, e) = UntouchedComments(newc, e)
    /\ \A i \in 1..Len(newc) : newc[i][3] = 0 \/ newc[i][3] \in CommentIds(newc)
=============================================================================
