------------------------------- MODULE Theta -------------------------------
(* C04, $THETA part.  History machine over the LAYOUT of $THETA records and the
   MEANING (flattened parameter list) of that layout.

   phase "build": TLC chooses a layout item by item (every legal NM-TRAN form that
                  the constants allow), i.e. the layout is part of the behaviour;
   phase "edit" : the public editing operations, each defined on the MEANING
                  (`ps`: what the edited parameter list must be -- property layer).

   Design layer: `lay` is the layout as a loss-free writer would write it back
   (one item rewritten per edit, a (v)xn repeat split when one member is edited).
   TLC proves on every reachable state
        Thetas(lay) = ps                      (a faithful write-back exists and is this one)
        untouched items of the original layout occur unchanged and in order in `lay`
   and the invariants of the property (unique names, ordered bounds).
   Every terminal state is emitted as a replay case: layout + per step
   <<edit, expected meaning, untouched item ids>>.                              *)
EXTENDS RecRat, FiniteSets, TLC, Json

CONSTANTS MaxRecs,     \* number of $THETA records
          MaxItems,    \* items over all records
          MaxParams,   \* parameters after expanding repeats
          MaxEdits,
          Forms,       \* subset of 1..5  (the five legal forms of the grammar file)
          LowKinds,    \* subset of {"none","inf","mil","val","eq"}
          UpKinds,     \* subset of {"none","inf","mil","val","eq"}
          Reps,        \* repeat counts for form 5
          NameOpts,    \* subset of BOOLEAN: item followed by a name comment?
          SpOpts,      \* subset of {0,1}: canonical / alternative number spelling
          RepNames,    \* BOOLEAN: allow a name comment after a repeat (finding 22 class)
          TailForms, TailLowKinds, TailUpKinds,  \* alphabets of the items after the first one (quick: smaller)
          NEditVals,   \* 1 or 2: how many new values per SetInit / SetLower / SetUpper / AddTheta shape pair
          NSlices, Slice  \* only layouts whose hash falls into slice `Slice` of `NSlices` are edited (seeded sampling
                          \* of the deep profiles; NSlices = 1: all)

VARIABLES phase, recs, lay, ps, steps, touched, nadd

vars == <<phase, recs, lay, ps, steps, touched, nadd>>

NInf == <<-1, 0>>          \* infinite bounds: denominator 0
PInf == <<1, 0>>
IsInf(b) == b[2] = 0
LtB(a, b) == IF IsInf(a) /\ IsInf(b) THEN a[1] < b[1] ELSE a[1] * b[2] < b[1] * a[2]
LeB(a, b) == a = b \/ LtB(a, b)

(* values are a function of the position of the item: distinct everywhere, so a
   value written to the wrong item is visible                                  *)
InitOf(g) == CASE g = 1 -> <<1, 1>> [] g = 2 -> <<3, 2>> [] g = 3 -> <<2, 1>> [] OTHER -> <<1, 2>>
LowOf(g)  == CASE g = 1 -> <<0, 1>> [] g = 2 -> <<1, 2>> [] g = 3 -> <<-1, 1>> [] OTHER -> <<1, 4>>
UpOf(g)   == CASE g = 1 -> <<5, 1>> [] g = 2 -> <<10, 1>> [] g = 3 -> <<7, 2>> [] OTHER -> <<4, 1>>
NameOf(g) == CASE g = 1 -> "TVA" [] g = 2 -> "TVB" [] g = 3 -> "TVC" [] OTHER -> "TVD"

(* ---------------------------------------------------------------- layout *)
(* item: form 1  init [FIX]
         form 2  ([low,] init [,up] FIX)      FIX inside: bounds must equal init ("eq")
         form 3  ([low,] init [,up]) [FIX]
         form 4  (low,,up)                    no initial estimate
         form 5  (...)xn                                                        *)
LowerOf(it) == CASE it.lk \in {"none", "inf", "mil"} -> NInf
                 [] it.lk = "eq" -> it.init
                 [] OTHER -> it.lv
UpperOf(it) == CASE it.uk \in {"none", "inf", "mil"} -> PInf
                 [] it.uk = "eq" -> it.init
                 [] OTHER -> it.uv
Implied(it) == LowerOf(it) = it.init /\ UpperOf(it) = it.init   \* NM-TRAN rule 3
FixOf(it) == it.fix \/ Implied(it)

LegalItem(it) ==
    /\ it.uk # "none" => it.lk # "none"                          \* "MUST have low if up exists"
    /\ it.form = 1 => it.lk = "none" /\ it.uk = "none" /\ it.rep = 1
    /\ it.form = 2 => it.fix /\ it.rep = 1 /\ it.lk \in {"none", "eq"} /\ it.uk \in {"none", "eq"}
    /\ it.form = 3 => it.rep = 1
    /\ it.form = 4 => it.rep = 1 /\ ~it.fix /\ it.lk \in {"val", "inf"} /\ it.uk \in {"val", "inf"} /\ it.name = ""
    /\ it.form = 5 => it.rep > 1 /\ (it.fix => it.lk \in {"none", "eq"} /\ it.uk \in {"none", "eq"})
    /\ it.form # 5 => it.rep = 1
    /\ it.lk = "eq" => FixOf(it)                                 \* low = init only when fixed
    /\ it.uk = "eq" => it.lk = "eq"
    /\ (it.rep > 1 /\ it.name # "") => RepNames
    /\ LeB(LowerOf(it), it.init) /\ LeB(it.init, UpperOf(it))

ItemsAt(g, r, i) ==
    {it \in [form : IF g = 1 THEN Forms ELSE TailForms, lk : IF g = 1 THEN LowKinds ELSE TailLowKinds,
             lv : {LowOf(g)}, init : {InitOf(g)}, uk : IF g = 1 THEN UpKinds ELSE TailUpKinds, uv : {UpOf(g)},
             fix : BOOLEAN, rep : {1} \cup Reps, name : {IF n THEN NameOf(g) ELSE "" : n \in NameOpts},
             sp : SpOpts, id : {<<r, i>>}] : LegalItem(it)}

Flat(rs) == LET RECURSIVE F(_) F(k) == IF k > Len(rs) THEN <<>> ELSE rs[k] \o F(k + 1) IN F(1)
NItems(rs) == Len(Flat(rs))
NParams(rs) == LET f == Flat(rs)
                   RECURSIVE S(_) S(k) == IF k > Len(f) THEN 0 ELSE f[k].rep + S(k + 1)
               IN S(1)

(* meaning of a layout: the flattened parameter list (form 4 has no meaning: never built into cases
   that are judged -- `rejected` marks layouts pharmpy is expected not to accept)            *)
ParamsOfItem(it) == [j \in 1..it.rep |->
    [name |-> IF it.rep > 1 /\ it.name # "" THEN "?" ELSE it.name,
     init |-> it.init, low |-> LowerOf(it), up |-> UpperOf(it), fix |-> FixOf(it),
     id |-> it.id, j |-> j]]
Thetas(rs) == LET f == Flat(rs)
                  RECURSIVE T(_) T(k) == IF k > Len(f) THEN <<>> ELSE ParamsOfItem(f[k]) \o T(k + 1)
              IN T(1)
HasForm4(rs) == \E k \in 1..Len(Flat(rs)) : Flat(rs)[k].form = 4

(* ---------------------------------------------------------------- build phase *)
WithMem(rs) == [r \in 1..Len(rs) |-> [i \in 1..Len(rs[r]) |-> rs[r][i] @@ [mem |-> 0]]]
Init == /\ phase = "build" /\ recs = <<>> /\ lay = <<>> /\ ps = <<>> /\ steps = <<>>
        /\ touched = {} /\ nadd = 0

AddItem(newrec) ==
    /\ phase = "build"
    /\ NItems(recs) < MaxItems
    /\ IF newrec THEN Len(recs) < MaxRecs ELSE Len(recs) > 0
    /\ LET g == NItems(recs) + 1
           r == IF newrec THEN Len(recs) + 1 ELSE Len(recs)
           i == IF newrec THEN 1 ELSE Len(recs[r]) + 1
       IN \E it \in ItemsAt(g, r, i) :
            /\ NParams(recs) + it.rep <= MaxParams
            /\ recs' = IF newrec THEN Append(recs, <<it>>) ELSE [recs EXCEPT ![r] = Append(@, it)]
    /\ UNCHANGED <<phase, lay, ps, steps, touched, nadd>>
DoNewRecord == AddItem(TRUE)
DoSameRecord == AddItem(FALSE)

KindCode(k) == CASE k = "none" -> 0 [] k = "inf" -> 1 [] k = "mil" -> 2 [] k = "val" -> 3 [] OTHER -> 4
ItemCode(it) == it.form * 7 + KindCode(it.lk) * 3 + KindCode(it.uk) * 5 + (IF it.fix THEN 11 ELSE 0) + it.rep * 13
                + (IF it.name # "" THEN 17 ELSE 0) + it.sp * 19
LayoutHash(rs) == LET f == Flat(rs)
                      RECURSIVE H(_, _)
                      H(k, acc) == IF k > Len(f) THEN acc ELSE H(k + 1, (acc * 131 + ItemCode(f[k])) % 10007)
                  IN (H(1, 7) * 131 + Len(rs)) % 10007
StartEdit ==
    /\ phase = "build" /\ Len(recs) > 0
    /\ NSlices = 1 \/ LayoutHash(recs) % NSlices = Slice
    /\ phase' = "edit" /\ lay' = WithMem(recs) /\ ps' = Thetas(recs)
    /\ UNCHANGED <<recs, steps, touched, nadd>>

(* ---------------------------------------------------------------- reference writer (design layer) *)
ReplaceItem(L, id, j, new) ==
    \* `new` : Seq of items that replace member j of the item with original id `id`
    \* (a repeat is split into single items first; the other members keep their values)
    [r \in 1..Len(L) |->
        LET rec == L[r]
            RECURSIVE G(_)
            G(k) == IF k > Len(rec) THEN <<>>
                    ELSE IF rec[k].id = id /\ rec[k].rep > 1
                         THEN LET one == [rec[k] EXCEPT !.rep = 1, !.form = IF rec[k].fix THEN 2 ELSE 3, !.name = ""]
                              IN [m \in 1..(j - 1) |-> [one EXCEPT !.mem = m]] \o new
                                 \o [m \in 1..(rec[k].rep - j) |-> [one EXCEPT !.mem = j + m]] \o G(k + 1)
                         ELSE IF rec[k].id = id /\ rec[k].mem = j THEN new \o G(k + 1)
                         ELSE <<rec[k]>> \o G(k + 1)
        IN G(1)]
DropEmpty(L) == SelectSeq(L, LAMBDA rec : Len(rec) > 0)

(* the layout items carry `mem`: which member of an original repeat they are (0: whole item) *)
MemOf(p) == p.j
ItemOfParam(L, p) ==   \* the layout item that currently expresses parameter p, as single item
    LET f == Flat(L)
        k == CHOOSE k \in 1..Len(f) : f[k].id = p.id /\ (f[k].rep > 1 \/ f[k].mem \in {0, p.j})
    IN [f[k] EXCEPT !.mem = IF f[k].rep > 1 \/ f[k].mem # 0 THEN p.j ELSE 0,
                    !.form = IF f[k].rep > 1 THEN (IF f[k].fix THEN 2 ELSE 3) ELSE @,
                    !.name = IF f[k].rep > 1 THEN "" ELSE @,
                    !.rep = 1]
MemKey(L, p) == LET f == Flat(L)
                    k == CHOOSE k \in 1..Len(f) : f[k].id = p.id /\ (f[k].rep > 1 \/ f[k].mem \in {0, p.j})
                IN IF f[k].rep > 1 THEN p.j ELSE f[k].mem

Rewrite(it, init, low, up, fix) ==
    \* the item spelled anew for the given values (smallest form that can say it)
    LET needpar == ~IsInf(low) \/ ~IsInf(up)
        lk == IF ~IsInf(low) THEN "val" ELSE IF ~IsInf(up) THEN "inf" ELSE "none"
        uk == IF ~IsInf(up) THEN "val" ELSE "none"
    IN [it EXCEPT !.init = init, !.lk = lk, !.lv = low, !.uk = uk, !.uv = up, !.fix = fix,
                  !.form = IF needpar THEN 3 ELSE 1]

(* ---------------------------------------------------------------- edit phase: actions on the meaning *)
EditInits == IF NEditVals = 1 THEN {<<5, 2>>} ELSE {<<5, 2>>, <<3, 4>>}
EditLows == IF NEditVals = 1 THEN {NInf, <<-2, 1>>} ELSE {NInf, <<-2, 1>>, <<1, 4>>}
EditUps == IF NEditVals = 1 THEN {PInf, <<20, 1>>} ELSE {PInf, <<20, 1>>, <<9, 1>>}
AddShapes == { [init |-> <<7, 2>>, low |-> NInf, up |-> PInf, fix |-> FALSE],
               [init |-> <<7, 2>>, low |-> <<0, 1>>, up |-> <<9, 1>>, fix |-> TRUE] }
             \cup IF NEditVals = 1 THEN {} ELSE
             { [init |-> <<7, 2>>, low |-> <<0, 1>>, up |-> PInf, fix |-> FALSE],
               [init |-> <<7, 2>>, low |-> NInf, up |-> <<9, 1>>, fix |-> FALSE] }

Editing == phase = "edit" /\ Len(steps) < MaxEdits /\ ~HasForm4(recs)
InRepeat(p) == \E k \in 1..Len(Flat(recs)) : Flat(recs)[k].id = p.id /\ Flat(recs)[k].rep > 1
RecSize(p) == IF p.id = <<0, 0>> THEN 1
              ELSE LET rec == recs[p.id[1]]
                       RECURSIVE S(_) S(k) == IF k > Len(rec) THEN 0 ELSE rec[k].rep + S(k + 1)
                   IN S(1)
Untouched(t) == LET f == Flat(recs) IN SelectSeq([k \in 1..Len(f) |-> f[k].id], LAMBDA id : id \notin t)
Proj(q) == [k \in 1..Len(q) |-> [name |-> q[k].name, init |-> q[k].init, low |-> q[k].low,
                                  up |-> q[k].up, fix |-> q[k].fix]]
OrigItem(p) == recs[p.id[1]][p.id[2]]
Step(e, p, newps, t) ==
    [edit |-> e, expect |-> Proj(newps), untouched |-> Untouched(t),
     in_repeat |-> InRepeat(p), rec_size |-> RecSize(p), added_target |-> p.id = <<0, 0>>,
     target_form |-> IF p.id = <<0, 0>> THEN 0 ELSE OrigItem(p).form,
     target_named |-> p.id # <<0, 0>> /\ OrigItem(p).name # "",
     target_uk_inf |-> p.id # <<0, 0>> /\ OrigItem(p).uk \in {"inf", "mil"},
     target_fix_in_parens |-> p.id # <<0, 0>> /\ OrigItem(p).fix /\ OrigItem(p).form \in {2, 5},
     rec_has_repeat |-> p.id # <<0, 0>> /\ \E i \in 1..Len(recs[p.id[1]]) : recs[p.id[1]][i].rep > 1]

Change(k, e, q) ==   \* parameter k becomes q (same identity); write-back of that one item
    LET p == ps[k]
        it == ItemOfParam(lay, p)
        t == touched \cup {p.id}
    IN /\ ps' = [ps EXCEPT ![k] = q]
       /\ lay' = ReplaceItem(lay, p.id, MemKey(lay, p), <<Rewrite(it, q.init, q.low, q.up, q.fix)>>)
       /\ touched' = t
       /\ steps' = Append(steps, Step(e, p, ps', t))
       /\ UNCHANGED <<phase, recs, nadd>>

SetInit(k, v) == /\ Editing /\ k \in 1..Len(ps)
                 /\ v # ps[k].init /\ LtB(ps[k].low, v) /\ LtB(v, ps[k].up)
                 /\ Change(k, [op |-> "SetInit", p |-> k, v |-> v], [ps[k] EXCEPT !.init = v])
SetLower(k, v) == /\ Editing /\ k \in 1..Len(ps)
                  /\ v # ps[k].low /\ LtB(v, ps[k].init)
                  /\ Change(k, [op |-> "SetLower", p |-> k, v |-> v], [ps[k] EXCEPT !.low = v])
SetUpper(k, v) == /\ Editing /\ k \in 1..Len(ps)
                  /\ v # ps[k].up /\ LtB(ps[k].init, v)
                  /\ Change(k, [op |-> "SetUpper", p |-> k, v |-> v], [ps[k] EXCEPT !.up = v])
Fix(k) == /\ Editing /\ k \in 1..Len(ps) /\ ~ps[k].fix
          /\ Change(k, [op |-> "Fix", p |-> k, v |-> Zero], [ps[k] EXCEPT !.fix = TRUE])
Unfix(k) == /\ Editing /\ k \in 1..Len(ps) /\ ps[k].fix
            /\ ~(ps[k].low = ps[k].init /\ ps[k].up = ps[k].init)    \* not the implied FIX of rule 3
            /\ LtB(ps[k].low, ps[k].init)                            \* low = init is only legal with FIX
            /\ Change(k, [op |-> "Unfix", p |-> k, v |-> Zero], [ps[k] EXCEPT !.fix = FALSE])
AddTheta(s) ==
    /\ Editing /\ nadd < 2
    /\ LET nm == IF nadd = 0 THEN "TVN" ELSE "TVM"
           q == [name |-> nm, init |-> s.init, low |-> s.low, up |-> s.up, fix |-> s.fix, id |-> <<0, 0>>, j |-> nadd + 1]
           it == [form |-> 1, lk |-> "none", lv |-> Zero, init |-> s.init, uk |-> "none", uv |-> Zero, fix |-> s.fix,
                  rep |-> 1, name |-> nm, sp |-> 0, id |-> <<0, 0>>, mem |-> nadd + 1]
       IN /\ ps' = Append(ps, q)
          /\ lay' = Append(lay, <<Rewrite(it, s.init, s.low, s.up, s.fix)>>)
          /\ steps' = Append(steps, Step([op |-> "AddTheta", p |-> Len(ps) + 1, v |-> s.init, name |-> nm,
                                          low |-> s.low, up |-> s.up, fix |-> s.fix], q, ps', touched))
    /\ nadd' = nadd + 1
    /\ UNCHANGED <<phase, recs, touched>>
RemoveTheta(k) ==
    /\ Editing /\ k \in 1..Len(ps) /\ Len(ps) > 1
    /\ LET p == ps[k]
           t == touched \cup {p.id}
       IN /\ ps' = [m \in 1..(Len(ps) - 1) |-> IF m < k THEN ps[m] ELSE ps[m + 1]]
          /\ lay' = DropEmpty(ReplaceItem(lay, p.id, MemKey(lay, p), <<>>))
          /\ touched' = t
          /\ steps' = Append(steps, Step([op |-> "RemoveTheta", p |-> k, v |-> Zero], p, ps', t))
    /\ UNCHANGED <<phase, recs, nadd>>

DoSetInit == \E k \in 1..MaxParams + 2, v \in EditInits : SetInit(k, v)
DoSetLower == \E k \in 1..MaxParams + 2, v \in EditLows : SetLower(k, v)
DoSetUpper == \E k \in 1..MaxParams + 2, v \in EditUps : SetUpper(k, v)
DoFix == \E k \in 1..MaxParams + 2 : Fix(k)
DoUnfix == \E k \in 1..MaxParams + 2 : Unfix(k)
DoAddTheta == \E s \in AddShapes : AddTheta(s)
DoRemoveTheta == \E k \in 1..MaxParams + 2 : RemoveTheta(k)

Next == DoNewRecord \/ DoSameRecord \/ StartEdit
        \/ DoSetInit \/ DoSetLower \/ DoSetUpper \/ DoFix \/ DoUnfix \/ DoAddTheta \/ DoRemoveTheta
Spec == Init /\ [][Next]_vars

(* ---------------------------------------------------------------- properties *)
Edited == phase = "edit" /\ ~HasForm4(recs)
NamesUnique == Edited => \A a, b \in 1..Len(ps) : (a # b /\ ps[a].name \notin {"", "?"}) => ps[a].name # ps[b].name
BoundsOrdered == Edited => \A k \in 1..Len(ps) : LeB(ps[k].low, ps[k].init) /\ LeB(ps[k].init, ps[k].up)
                                                   /\ (ps[k].low = ps[k].init => ps[k].fix)
(* design-level theorem: the reference write-back expresses exactly the edited meaning *)
StripId(q) == [k \in 1..Len(q) |-> [init |-> q[k].init, low |-> q[k].low, up |-> q[k].up, fix |-> q[k].fix,
                                    name |-> IF q[k].name = "?" THEN "" ELSE q[k].name]]
WriteBackFaithful == Edited => StripId(Thetas(lay)) = StripId(ps)
(* ... and leaves every untouched item of the original layout as it was, in order *)
IsSubseq(a, b) == LET RECURSIVE M(_, _)
                      M(i, j) == IF i > Len(a) THEN TRUE ELSE IF j > Len(b) THEN FALSE
                                 ELSE IF a[i] = b[j] THEN M(i + 1, j + 1) ELSE M(i, j + 1)
                  IN M(1, 1)
Frame == Edited => IsSubseq(SelectSeq(Flat(WithMem(recs)), LAMBDA it : it.id \notin touched), Flat(lay))

(* ---------------------------------------------------------------- case emission *)
Terminal == phase = "edit" /\ (Len(steps) = MaxEdits \/ HasForm4(recs))
ItemJson(it) == [form |-> it.form, lk |-> it.lk, lv |-> it.lv, init |-> it.init, uk |-> it.uk, uv |-> it.uv,
                 fix |-> it.fix, rep |-> it.rep, name |-> it.name, sp |-> it.sp, id |-> it.id]
Case == [recs |-> [r \in 1..Len(recs) |-> [i \in 1..Len(recs[r]) |-> ItemJson(recs[r][i])]],
         read |-> IF HasForm4(recs) THEN <<>> ELSE Proj(Thetas(recs)),
         rejected |-> HasForm4(recs),
         steps |-> steps]
EmitCase == Terminal => PrintT(<<"CASE", ToJson(Case)>>)
=============================================================================
