CONSTANTS
  MaxRecs = 3
  MaxItems = 3
  MaxParams = 5
  MaxEdits = 2
  Forms = {1, 2, 3, 4, 5}
  LowKinds = {"none", "inf", "mil", "val", "eq"}
  UpKinds = {"none", "inf", "mil", "val", "eq"}
  Reps = {2, 3}
  NameOpts = {TRUE, FALSE}
  SpOpts = {0, 1}
  RepNames = TRUE
  TailForms = {1, 2, 3, 5}
  TailLowKinds = {"none", "inf", "mil", "val", "eq"}
  TailUpKinds = {"none", "inf", "mil", "val", "eq"}
  NEditVals = 2
INIT Init
NEXT Next
INVARIANT NamesUnique
INVARIANT BoundsOrdered
INVARIANT WriteBackFaithful
INVARIANT Frame
INVARIANT EmitCase
CHECK_DEADLOCK FALSE
