\* generic alphabet, length 3 (the driver writes one cfg per profile, see harness/c03_roundtrip.py)
CONSTANTS
  Mode = "text"
  Dollars = {"$PROBLEM", "$THETA", "$THE", "$EST", "$PK", "$FOO"}
  Blanks = {" ", "TAB"}
  Newlines = {"NL", "CRLF", "CONT"}
  Others = {"ABC", "1", "(", ")", ",", "=", ";c", "NUL", "VERB"}
  PrefixName = "none"
  MaxLen = 3
  LastTokens = {"$PROBLEM", "$THETA", "$THE", "$EST", "$PK", "$FOO", " ", "TAB", "NL", "CRLF", "CONT", "ABC", "1", "(", ")", ",", "=", ";c", "NUL", "VERB"}
  MaxExtra = 0
  MaxOps = 0
INIT Init
NEXT Next
INVARIANT SplitLossless
INVARIANT SplitMatchesDefinition
INVARIANT EmitText
CHECK_DEADLOCK FALSE
