\* quick record-level profile
CONSTANTS
  Mode = "rec"
  Dollars = {}
  Blanks = {}
  Newlines = {}
  Others = {}
  PrefixName = "none"
  MaxLen = 0
  LastTokens = {}
  MaxExtra = 2
  MaxOps = 1
INIT Init
NEXT Next
INVARIANT Frame
INVARIANT Placement
INVARIANT UidsUnique
INVARIANT EmitLayout
CHECK_DEADLOCK FALSE
