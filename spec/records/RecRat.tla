------------------------------- MODULE RecRat -------------------------------
(* Small exact rationals <<num, den>> (den > 0, normalised) for the record specs
   of C04 (Theta.tla, Omega.tla).  TLC integers are 32 bit: all values used are
   small (numerators and denominators below a few thousand).                 *)
EXTENDS Integers, Sequences

RECURSIVE Gcd(_, _)
Gcd(a, b) == IF b = 0 THEN a ELSE Gcd(b, a % b)
Abs(x) == IF x < 0 THEN -x ELSE x

Norm(n, d) == LET s == IF d < 0 THEN -1 ELSE 1
                  g == Gcd(Abs(n), Abs(d))
              IN IF n = 0 THEN <<0, 1>> ELSE <<(s * n) \div g, (s * d) \div g>>
Q(n, d) == Norm(n, d)
Zero == <<0, 1>>
One == <<1, 1>>

(* sums over the least common denominator and products after cross-cancelling keep intermediate
   values small (32-bit integers)                                                            *)
Add(a, b) == LET g == Gcd(a[2], b[2]) IN Norm(a[1] * (b[2] \div g) + b[1] * (a[2] \div g), (a[2] \div g) * b[2])
Sub(a, b) == LET g == Gcd(a[2], b[2]) IN Norm(a[1] * (b[2] \div g) - b[1] * (a[2] \div g), (a[2] \div g) * b[2])
Mul(a, b) == LET g1 == Gcd(Abs(a[1]), b[2])
                 g2 == Gcd(Abs(b[1]), a[2])
                 h1 == IF g1 = 0 THEN 1 ELSE g1
                 h2 == IF g2 = 0 THEN 1 ELSE g2
             IN Norm((a[1] \div h1) * (b[1] \div h2), (a[2] \div h2) * (b[2] \div h1))
Div(a, b) == Mul(a, IF b[1] < 0 THEN <<-b[2], -b[1]>> ELSE <<b[2], b[1]>>)
Lt(a, b) == LET g == Gcd(a[2], b[2]) IN a[1] * (b[2] \div g) < b[1] * (a[2] \div g)
Le(a, b) == LET g == Gcd(a[2], b[2]) IN a[1] * (b[2] \div g) <= b[1] * (a[2] \div g)
Eq(a, b) == a[1] * b[2] = b[1] * a[2]
IsZero(a) == a[1] = 0

(* exact square root of a rational that is a perfect square (the generators only
   produce such values where a root is needed); <<-1, 1>> marks "not a square" *)
RECURSIVE Bisect(_, _, _)
Bisect(n, lo, hi) == IF lo > hi THEN -1
                     ELSE LET mid == (lo + hi) \div 2
                          IN IF mid * mid = n THEN mid
                             ELSE IF mid * mid < n THEN Bisect(n, mid + 1, hi) ELSE Bisect(n, lo, mid - 1)
ISqrt(n) == IF n < 0 \/ n > 40000 THEN -1 ELSE Bisect(n, 0, 200)
IsSquare(a) == a[1] >= 0 /\ ISqrt(a[1]) >= 0 /\ ISqrt(a[2]) >= 0
Sqrt(a) == IF IsSquare(a) THEN <<ISqrt(a[1]), ISqrt(a[2])>> ELSE <<-1, 1>>
=============================================================================
