------------------------------- MODULE ModelDB -------------------------------
(* C16, DESIGN LAYER: LocalModelDirectoryDatabase + LocalDirectoryContext as a
   protocol machine over an abstract file tree, one action per file-system
   operation IN THE ORDER THE CODE PERFORMS THEM
   (workflows/model_database/local_directory.py, contexts/local_directory.py,
   contexts/baseclass.py:_store_model), with

     Crash    death of one process between any two of them: its volatile state
              is lost, the file it has open for writing becomes empty / torn /
              complete, its locks vanish;
     Restart  fresh LocalDirectoryContext (its constructor re-runs the
              "create what is missing" steps of Open).

   Proc = {1}: one process at a time (quick tier, case emission, conformance).
   Proc = {1, 2}: two concurrent writer/reader processes; the database-wide path
   lock, the annotations lock and the log lock are actions with guards
   (exclusion itself is property C15).

   Models m1, m2 share dataset d1, m3 has d2 (same columns, so the stored
   datainfo compares equal - as in the driver's models).

   The DEFAULT (Legacy = {}) is the code as it is now, i.e. after the repairs
   C16-F1 (index file touched last; a hash directory without index is a miss),
   C16-F4 (annotations written to a temporary file that is renamed over the old
   one), C16-F5 + C16-F12 (log.csv created under the log lock, with its header,
   via temporary file + rename) and C16-F11 (store_key tolerates a name created
   concurrently).  The behaviour before the repairs is kept as named
   alternatives (Legacy \subseteq {"IndexFirst", "InPlaceAnn",
   "InPlaceLogHeader", "UnlockedLogTmp", "StrictSymlink"}; ModelDBLegacy.cfg,
   and LegacyTwo for two processes) for the record: TLC still produces the
   historic counterexamples of findings F1, F2, F4, F5, F11, F12 there.

   The ghost variable S is the abstract state of the property layer
   (ModelDBAbs.tla); the invariants Inv* say that what a reader WOULD obtain in
   every quiescent state is admitted by the property layer.  Those that hold
   for the default are asserted in ModelDB.cfg / ModelDB2P.cfg; the others (InvD, InvName,
   InvNameNoCrash, InvLog: findings F3, F7, F6) are checked in separate runs,
   their counterexamples are design-level findings which the driver re-enacts
   on the real code.                                                         *)
EXTENDS ModelDBAbs, Json

CONSTANTS Proc, Names, Ops, MaxOps, MaxCrashes, MaxN, TrackHist, Legacy

VARIABLES fs,      \* the file tree (record of functions, see FS0)
          proc,    \* [Proc -> "up" | "down"]
          cur,     \* [Proc -> running operation (record) or NoOp]
          pc,      \* [Proc -> label of the NEXT file-system operation of cur]
          vol,     \* [Proc -> volatile state: data number, open file, lock held, ...]
          steps,   \* [Proc -> labels performed by cur so far] (only if TrackHist)
          S,       \* ghost: abstract state of the property layer
          viol,    \* ghost: property letters of operation outcomes the property layer forbids
          hist,    \* finished operations [op, out, steps] (only if TrackHist)
          nops, ncrash

vars == <<fs, proc, cur, pc, vol, steps, S, viol, hist, nops, ncrash>>

Data == {DataOf[m] : m \in Model}
NoOp == [op |-> "none"]
OpenOp == [op |-> "Open"]
Vol0 == [n |-> 0, openf |-> "none", held |-> "none", annnew |-> <<>>, absent |-> FALSE]

FS0 == [keydir  |-> [m \in Model |-> FALSE],      \* <key>/ and <key>/.pharmpy
        pending |-> [m \in Model |-> FALSE],      \* <key>/.pharmpy/PENDING
        mfile   |-> [m \in Model |-> [st |-> "absent", n |-> 0]],   \* <key>/model.ctl, refers to .datasets/data<n>.csv
        rfile   |-> [m \in Model |-> "absent"],   \* <key>/.pharmpy/results.json
        hdir    |-> [d \in Data |-> FALSE],       \* .datasets/.hash/<dataset hash>/
        index   |-> [d \in Data |-> 0],           \* .datasets/.hash/<h>/data<n>.csv (0: no index file)
        csv     |-> [i \in 1..MaxN |-> "absent"], \* .datasets/data<i>.csv: absent | empty | torn | dataset id
        dinfo   |-> [i \in 1..MaxN |-> "absent"], \* .datasets/data<i>.datainfo
        ctxdirs |-> FALSE,                        \* <ctx>/, subcontexts/, .modeldb/, annotations, models/
        link    |-> [n \in Names |-> "none"],     \* models/<name> -> key
        ann     |-> [n \in Names |-> "none"],     \* annotations: name -> description
        loghdr  |-> "absent",                     \* log.csv: absent | empty | ok (header line written)
        logtmp  |-> FALSE,                        \* log.tmp exists (ONE name for every constructor, no lock)
        loglines |-> <<>>]                        \* appended lines; "TORN" = a partial line

Init == /\ fs = FS0 /\ proc = [p \in Proc |-> "up"] /\ cur = [p \in Proc |-> OpenOp]
        /\ pc = [p \in Proc |-> "InitDirs"] /\ vol = [p \in Proc |-> Vol0]
        /\ steps = [p \in Proc |-> <<>>] /\ S = AbsInit /\ viol = {} /\ hist = <<>> /\ nops = 0 /\ ncrash = 0

-----------------------------------------------------------------------------
\* what a reader with fresh objects would obtain from the current tree

NoC == [model |-> "none", data |-> "none", hash |-> "none", res |-> "none", rlog |-> <<>>]
Garbled == [model |-> "other", data |-> "other", hash |-> "other", res |-> "other", rlog |-> <<>>]

WouldRetrieve(m) ==
    IF fs.pending[m] THEN [out |-> "pending", c |-> NoC]
    ELSE IF fs.mfile[m].st = "absent" THEN [out |-> "notfound", c |-> NoC]
    ELSE IF fs.mfile[m].st # "ok" THEN [out |-> "ok", c |-> Garbled]
    ELSE LET n == fs.mfile[m].n IN
         IF n = 0 \/ fs.csv[n] \notin Data \/ fs.dinfo[n] # "ok" THEN [out |-> "error:Data", c |-> NoC]
         ELSE [out |-> "ok",
               c |-> [model |-> ParamOf[m], data |-> fs.csv[n],
                      hash |-> IF fs.csv[n] = DataOf[m] THEN m ELSE "other",
                      res |-> IF fs.rfile[m] = "ok" THEN m ELSE IF fs.rfile[m] = "absent" THEN "none" ELSE "other",
                      \* the results log is part of results.json: read back entry by entry in file order
                      rlog |-> IF fs.rfile[m] = "ok" THEN [i \in 1..LogLenOfDef[m] |-> i] ELSE <<>>]]

WouldResolve(n) ==
    IF fs.link[n] = "none" THEN [out |-> "notfound", key |-> "none"]
    ELSE IF fs.pending[fs.link[n]] THEN [out |-> "pending", key |-> "none"]
    ELSE [out |-> "ok", key |-> fs.link[n]]

WouldReadAnn(n) == IF fs.ann[n] = "none" THEN [out |-> "notfound", d |-> "none"] ELSE [out |-> "ok", d |-> fs.ann[n]]

WouldRetrieveName(n) ==
    LET r == WouldResolve(n) IN
    IF r.out # "ok" THEN [out |-> r.out, c |-> NoC]
    ELSE LET e == WouldRetrieve(r.key) IN
         IF e.out # "ok" THEN e
         ELSE IF fs.ann[n] = "none" THEN [out |-> "notfound", c |-> NoC]
         ELSE [out |-> "ok", c |-> [model |-> e.c.model, data |-> e.c.data, hash |-> e.c.hash, res |-> e.c.res, rlog |-> e.c.rlog,
                                    name |-> n, desc |-> fs.ann[n]]]

WouldReadLog ==
    IF fs.loghdr = "ok" /\ \A i \in 1..Len(fs.loglines) : fs.loglines[i] # "TORN"
    THEN [out |-> "ok", lines |-> fs.loglines]
    ELSE [out |-> "error:Parse", lines |-> <<>>]     \* no header line / partial line: pandas cannot return the log

-----------------------------------------------------------------------------
\* bookkeeping shared by all steps (p = the process that takes the step)

Running(p, o, l) == proc[p] = "up" /\ cur[p] # NoOp /\ cur[p].op = o /\ pc[p] = l
Tick(p, l) == steps' = IF TrackHist THEN [steps EXCEPT ![p] = Append(@, l)] ELSE steps
Same == UNCHANGED <<proc, cur, S, viol, hist, nops, ncrash>>
Step(p, l, next) == Tick(p, l) /\ pc' = [pc EXCEPT ![p] = next] /\ Same        \* fs' and vol' are given by the action
Vol(p, f, x) == vol' = [vol EXCEPT ![p][f] = x]

Finish(p, l, out) ==
    LET o == cur[p]
        letter == StoreVerdict(S, o.m, out)
    IN
    /\ Tick(p, l)
    /\ hist' = IF TrackHist THEN Append(hist, [op |-> o, out |-> out, steps |-> steps'[p]]) ELSE hist
    /\ cur' = [cur EXCEPT ![p] = NoOp] /\ pc' = [pc EXCEPT ![p] = "idle"] /\ vol' = [vol EXCEPT ![p] = Vol0]
    /\ UNCHANGED <<proc, nops, ncrash>>
    /\ CASE o.op = "Store" -> /\ S' = StoreUpdate(S, o.m, o.n, o.d, out, LogLenOfDef[o.m])
                              /\ viol' = IF letter \in {"ok", "U"} THEN viol
                                         ELSE viol \cup {<<letter, o.m, out,
                                                          \E x \in S.interrupted : DataOf[x] = DataOf[o.m]>>}
         [] o.op = "Log" -> /\ S' = LogUpdate(S, o.g, out)
                            /\ viol' = IF LogVerdict(out) = "ok" THEN viol ELSE viol \cup {<<"L", "log", out, FALSE>>}
         [] o.op = "Open" -> /\ S' = S     \* the constructor of a context must work (ReopenVerdict)
                             /\ viol' = IF ReopenVerdict(out) = "ok" THEN viol ELSE viol \cup {<<"I", "open", out, FALSE>>}
         [] OTHER -> UNCHANGED <<S, viol>>

\* path locks (fcntl): guards only; a waiting process simply does not move
NoOtherHolds(p, kinds) == \A q \in Proc \ {p} : vol[q].held \notin kinds

-----------------------------------------------------------------------------
\* Open: LocalDirectoryContext.__init__ (create what is missing)

InitDirs == \E p \in Proc :
    /\ Running(p, "Open", "InitDirs")          \* mkdir ctx, subcontexts, .modeldb; touch annotations; mkdir models
    /\ fs' = [fs EXCEPT !.ctxdirs = TRUE] /\ UNCHANGED vol
    /\ Step(p, "InitDirs", IF fs.loghdr # "absent" THEN "InitCommon"
                           ELSE IF "InPlaceLogHeader" \in Legacy THEN "OpenLogHeader"
                           ELSE IF "UnlockedLogTmp" \in Legacy THEN "OpenLogTmp" ELSE "InitLogTouchLock")
\* -- as it is now (C16-F5 + C16-F12): under the log lock, test again, header written to log.tmp, renamed to log.csv
InitLogTouchLock == \E p \in Proc :
    Running(p, "Open", "InitLogTouchLock") /\ UNCHANGED <<fs, vol>> /\ Step(p, "InitLogTouchLock", "InitLogLockEx")
InitLogLockEx == \E p \in Proc :
    /\ Running(p, "Open", "InitLogLockEx") /\ NoOtherHolds(p, {"log"}) /\ UNCHANGED fs
    /\ IF fs.loghdr = "absent"                 \* `if not log_path.is_file()` inside the lock
       THEN Vol(p, "held", "log") /\ Step(p, "InitLogLockEx", "OpenLogTmp")
       ELSE UNCHANGED vol /\ Step(p, "InitLogLockEx", "InitCommon")          \* another constructor made it: unlock, go on
OpenLogTmp == \E p \in Proc :
    /\ Running(p, "Open", "OpenLogTmp") /\ fs' = [fs EXCEPT !.logtmp = TRUE] /\ Vol(p, "openf", "tmp")
    /\ Step(p, "OpenLogTmp", "CloseLogTmp")
CloseLogTmp == \E p \in Proc :
    /\ Running(p, "Open", "CloseLogTmp") /\ UNCHANGED fs /\ Vol(p, "openf", "none") /\ Step(p, "CloseLogTmp", "RenameLog")
RenameLog == \E p \in Proc :
    /\ Running(p, "Open", "RenameLog")          \* tmp_path.replace(log_path): the file appears complete; the lock is released
    \* ("UnlockedLogTmp", before C16-F12: log.tmp is one path for every constructor and no lock is held - of two racing
    \*  constructors the second finds its temporary file gone, or replaces a log that already holds lines)
    /\ IF fs.logtmp
       THEN /\ fs' = [fs EXCEPT !.loghdr = "ok", !.loglines = <<>>, !.logtmp = FALSE] /\ Vol(p, "held", "none")
            /\ Step(p, "RenameLog", "InitCommon")
       ELSE UNCHANGED fs /\ Finish(p, "RenameLog", "error:FileNotFoundError")
\* -- before repair C16-F5: open(log.csv, 'w'), then write the header
OpenLogHeader == \E p \in Proc :
    /\ Running(p, "Open", "OpenLogHeader")
    /\ fs' = [fs EXCEPT !.loghdr = "empty", !.loglines = <<>>] /\ Vol(p, "openf", "loghdr") /\ Step(p, "OpenLogHeader", "WriteLogHeader")
WriteLogHeader == \E p \in Proc :
    /\ Running(p, "Open", "WriteLogHeader")
    /\ fs' = [fs EXCEPT !.loghdr = "ok"] /\ Vol(p, "openf", "none") /\ Step(p, "WriteLogHeader", "InitCommon")
InitCommon == \E p \in Proc :
    /\ Running(p, "Open", "InitCommon")          \* common_options (not observed)
    /\ UNCHANGED fs /\ Finish(p, "InitCommon", "ok")

-----------------------------------------------------------------------------
\* Store = Context.store_model_entry: transaction(store_model, store_modelfit_results, commit), store_key, store_annotation

MkKeyDirs == \E p \in Proc :
    /\ Running(p, "Store", "MkKeyDirs")      \* destination.mkdir(parents=True, exist_ok=True)
    /\ fs' = [fs EXCEPT !.keydir[cur[p].m] = TRUE] /\ UNCHANGED vol /\ Step(p, "MkKeyDirs", "TouchLock")
TouchLock == \E p \in Proc : Running(p, "Store", "TouchLock") /\ UNCHANGED <<fs, vol>> /\ Step(p, "TouchLock", "LockEx")
LockEx == \E p \in Proc :
    /\ Running(p, "Store", "LockEx") /\ NoOtherHolds(p, {"ex", "sh"})
    /\ UNCHANGED fs /\ Vol(p, "held", "ex") /\ Step(p, "LockEx", "TouchPending")
TouchPending == \E p \in Proc : LET m == cur[p].m IN
    /\ Running(p, "Store", "TouchPending")               \* path.touch(exist_ok=False)
    /\ IF fs.pending[m]
       THEN UNCHANGED fs /\ Finish(p, "TouchPending", "pending")     \* PendingTransactionError
       ELSE /\ fs' = [fs EXCEPT !.pending[m] = TRUE] /\ UNCHANGED vol
            /\ Step(p, "TouchPending",
                    IF fs.mfile[m].st # "absent" THEN "MkMetaDir"              \* model file exists: store_model returns
                    ELSE IF fs.hdir[DataOf[m]] THEN "ListHashDir" ELSE "MkHashDir")
\* -- hash directory exists
ListHashDir == \E p \in Proc : LET d == DataOf[cur[p].m] IN
    /\ Running(p, "Store", "ListHashDir")                \* next(h_dir.iterdir(), None)   (before C16-F1: next(h_dir.iterdir()))
    /\ UNCHANGED fs
    /\ IF fs.index[d] = 0
       THEN IF "IndexFirst" \in Legacy THEN Finish(p, "ListHashDir", "error:StopIteration")
            ELSE UNCHANGED vol /\ Step(p, "ListHashDir", "MkHashDir")     \* trace of an interrupted store: a miss
       ELSE Vol(p, "n", fs.index[d]) /\ Step(p, "ListHashDir", "ReadDatainfo")
ReadDatainfo == \E p \in Proc :
    /\ Running(p, "Store", "ReadDatainfo")               \* DataInfo.read_json(dipath); equal column info => re-use the path
    /\ UNCHANGED fs
    /\ IF fs.dinfo[vol[p].n] = "absent" THEN Finish(p, "ReadDatainfo", "error:FileNotFoundError")
       ELSE IF fs.dinfo[vol[p].n] # "ok" THEN Finish(p, "ReadDatainfo", "error:JSONDecodeError")
       ELSE UNCHANGED vol /\ Step(p, "ReadDatainfo", "MkModelDir")
\* -- new dataset
MkHashDir == \E p \in Proc :
    /\ Running(p, "Store", "MkHashDir")          \* h_dir.mkdir(parents=True, exist_ok=True)
    /\ fs' = [fs EXCEPT !.hdir[DataOf[cur[p].m]] = TRUE] /\ UNCHANGED vol /\ Step(p, "MkHashDir", "ScanDatasetNumbers")
Highest == LET used == {i \in 1..MaxN : fs.csv[i] # "absent"} IN
           IF used = {} THEN 0 ELSE CHOOSE i \in used : \A j \in used : j <= i
ScanDatasetNumbers == \E p \in Proc :
    /\ Running(p, "Store", "ScanDatasetNumbers")   \* datasets_path.iterdir(): highest data<N>.csv
    /\ Highest < MaxN
    /\ UNCHANGED fs /\ Vol(p, "n", Highest + 1)
    /\ Step(p, "ScanDatasetNumbers", IF "IndexFirst" \in Legacy THEN "TouchIndex" ELSE "OpenCsv")
TouchIndex == \E p \in Proc :
    /\ Running(p, "Store", "TouchIndex")        \* index_path.touch(): LAST, after csv and datainfo (before C16-F1: first)
    /\ fs' = [fs EXCEPT !.index[DataOf[cur[p].m]] = vol[p].n] /\ UNCHANGED vol
    /\ Step(p, "TouchIndex", IF "IndexFirst" \in Legacy THEN "OpenCsv" ELSE "MkModelDir")
OpenCsv == \E p \in Proc :
    /\ Running(p, "Store", "OpenCsv")              \* write_csv(..., force=True): open 'w' truncates
    /\ fs' = [fs EXCEPT !.csv[vol[p].n] = "empty"] /\ Vol(p, "openf", "csv") /\ Step(p, "OpenCsv", "CloseCsv")
CloseCsv == \E p \in Proc :
    /\ Running(p, "Store", "CloseCsv")
    /\ fs' = [fs EXCEPT !.csv[vol[p].n] = DataOf[cur[p].m]] /\ Vol(p, "openf", "none") /\ Step(p, "CloseCsv", "OpenDatainfo")
OpenDatainfo == \E p \in Proc :
    /\ Running(p, "Store", "OpenDatainfo")    \* "write datainfo last" (of the two data files)
    /\ fs' = [fs EXCEPT !.dinfo[vol[p].n] = "empty"] /\ Vol(p, "openf", "dinfo") /\ Step(p, "OpenDatainfo", "CloseDatainfo")
CloseDatainfo == \E p \in Proc :
    /\ Running(p, "Store", "CloseDatainfo")
    /\ fs' = [fs EXCEPT !.dinfo[vol[p].n] = "ok"] /\ Vol(p, "openf", "none")
    /\ Step(p, "CloseDatainfo", IF "IndexFirst" \in Legacy THEN "MkModelDir" ELSE "TouchIndex")
\* -- the model file
MkModelDir == \E p \in Proc : Running(p, "Store", "MkModelDir") /\ UNCHANGED <<fs, vol>> /\ Step(p, "MkModelDir", "OpenModel")
OpenModel == \E p \in Proc :
    /\ Running(p, "Store", "OpenModel")
    /\ fs' = [fs EXCEPT !.mfile[cur[p].m] = [st |-> "empty", n |-> vol[p].n]]
    /\ Vol(p, "openf", "model") /\ Step(p, "OpenModel", "CloseModel")
CloseModel == \E p \in Proc :
    /\ Running(p, "Store", "CloseModel")
    /\ fs' = [fs EXCEPT !.mfile[cur[p].m].st = "ok"] /\ Vol(p, "openf", "none") /\ Step(p, "CloseModel", "MkMetaDir")
\* -- store_modelfit_results
MkMetaDir == \E p \in Proc : Running(p, "Store", "MkMetaDir") /\ UNCHANGED <<fs, vol>> /\ Step(p, "MkMetaDir", "OpenResults")
OpenResults == \E p \in Proc :
    /\ Running(p, "Store", "OpenResults")
    /\ fs' = [fs EXCEPT !.rfile[cur[p].m] = "empty"] /\ Vol(p, "openf", "results") /\ Step(p, "OpenResults", "CloseResults")
CloseResults == \E p \in Proc :
    /\ Running(p, "Store", "CloseResults")
    /\ fs' = [fs EXCEPT !.rfile[cur[p].m] = "ok"] /\ Vol(p, "openf", "none") /\ Step(p, "CloseResults", "UnlinkPending")
\* -- commit
UnlinkPending == \E p \in Proc :
    /\ Running(p, "Store", "UnlinkPending")
    /\ fs' = [fs EXCEPT !.pending[cur[p].m] = FALSE] /\ UNCHANGED vol /\ Step(p, "UnlinkPending", "Unlock")
Unlock == \E p \in Proc :
    /\ Running(p, "Store", "Unlock") /\ UNCHANGED fs /\ Vol(p, "held", "none") /\ Step(p, "Unlock", "StatLink")
\* -- store_key: `if not from_path.exists(): ... symlink_to(...)`: an existing name is NOT re-pointed; no lock is held
StatLink == \E p \in Proc :
    /\ Running(p, "Store", "StatLink") /\ UNCHANGED fs /\ Vol(p, "absent", fs.link[cur[p].n] = "none")
    /\ Step(p, "StatLink", IF fs.link[cur[p].n] = "none" THEN "Symlink" ELSE "AnnTouchLock")
Symlink == \E p \in Proc :
    /\ Running(p, "Store", "Symlink")
    /\ IF fs.link[cur[p].n] = "none"
       THEN fs' = [fs EXCEPT !.link[cur[p].n] = cur[p].m] /\ UNCHANGED vol /\ Step(p, "Symlink", "AnnTouchLock")
       ELSE /\ UNCHANGED fs                       \* another process created it in between: tolerated since C16-F11
            /\ IF "StrictSymlink" \in Legacy THEN Finish(p, "Symlink", "error:FileExistsError")
               ELSE UNCHANGED vol /\ Step(p, "Symlink", "AnnTouchLock")
\* -- store_annotation: read all lines, write all lines to annotations.tmp, rename over annotations
AnnTouchLock == \E p \in Proc : Running(p, "Store", "AnnTouchLock") /\ UNCHANGED <<fs, vol>> /\ Step(p, "AnnTouchLock", "AnnLockEx")
AnnLockEx == \E p \in Proc :
    /\ Running(p, "Store", "AnnLockEx") /\ NoOtherHolds(p, {"ann"})
    /\ UNCHANGED fs /\ Vol(p, "held", "ann") /\ Step(p, "AnnLockEx", "AnnReadAll")
AnnReadAll == \E p \in Proc :
    /\ Running(p, "Store", "AnnReadAll") /\ UNCHANGED fs
    /\ Vol(p, "annnew", [fs.ann EXCEPT ![cur[p].n] = cur[p].d])
    /\ Step(p, "AnnReadAll", IF "InPlaceAnn" \in Legacy THEN "AnnTruncate" ELSE "AnnOpenTmp")
AnnOpenTmp == \E p \in Proc :
    /\ Running(p, "Store", "AnnOpenTmp") /\ UNCHANGED fs /\ Vol(p, "openf", "tmp") /\ Step(p, "AnnOpenTmp", "AnnCloseTmp")
AnnCloseTmp == \E p \in Proc :
    /\ Running(p, "Store", "AnnCloseTmp") /\ UNCHANGED fs /\ Vol(p, "openf", "none") /\ Step(p, "AnnCloseTmp", "AnnRename")
AnnRename == \E p \in Proc :
    /\ Running(p, "Store", "AnnRename")            \* tmp_path.replace(path)
    /\ fs' = [fs EXCEPT !.ann = vol[p].annnew] /\ Finish(p, "AnnRename", "ok")
\* -- before repair C16-F4: open(path, 'w') truncates, then writelines
AnnTruncate == \E p \in Proc :
    /\ Running(p, "Store", "AnnTruncate")
    /\ fs' = [fs EXCEPT !.ann = [n \in Names |-> "none"]] /\ Vol(p, "openf", "ann") /\ Step(p, "AnnTruncate", "AnnWrite")
AnnWrite == \E p \in Proc :
    /\ Running(p, "Store", "AnnWrite")
    /\ fs' = [fs EXCEPT !.ann = vol[p].annnew] /\ Finish(p, "AnnWrite", "ok")

-----------------------------------------------------------------------------
\* Retrieve = database.retrieve_model_entry(key): snapshot (a reader creates directories, too)

RMkKeyDirs == \E p \in Proc :
    /\ Running(p, "Retrieve", "RMkKeyDirs")
    /\ fs' = [fs EXCEPT !.keydir[cur[p].m] = TRUE] /\ UNCHANGED vol /\ Step(p, "RMkKeyDirs", "RTouchLock")
RTouchLock == \E p \in Proc : Running(p, "Retrieve", "RTouchLock") /\ UNCHANGED <<fs, vol>> /\ Step(p, "RTouchLock", "LockSh")
LockSh == \E p \in Proc :
    /\ Running(p, "Retrieve", "LockSh") /\ NoOtherHolds(p, {"ex"})
    /\ UNCHANGED fs /\ Vol(p, "held", "sh") /\ Step(p, "LockSh", "ReadEntry")
ReadEntry == \E p \in Proc :
    /\ Running(p, "Retrieve", "ReadEntry")   \* PENDING? model file? parse model, datainfo, csv (twice), results.json
    /\ UNCHANGED fs /\ Finish(p, "ReadEntry", WouldRetrieve(cur[p].m).out)

-----------------------------------------------------------------------------
\* Log = Context.log_message -> store_message: append one CSV line

LogTouchLock == \E p \in Proc : Running(p, "Log", "LogTouchLock") /\ UNCHANGED <<fs, vol>> /\ Step(p, "LogTouchLock", "LogLockEx")
LogLockEx == \E p \in Proc :
    /\ Running(p, "Log", "LogLockEx") /\ NoOtherHolds(p, {"log"})
    /\ UNCHANGED fs /\ Vol(p, "held", "log") /\ Step(p, "LogLockEx", "LogOpenAppend")
LogOpenAppend == \E p \in Proc :
    /\ Running(p, "Log", "LogOpenAppend") /\ UNCHANGED fs /\ Vol(p, "openf", "log") /\ Step(p, "LogOpenAppend", "LogWrite")
LogWrite == \E p \in Proc :
    /\ Running(p, "Log", "LogWrite")
    /\ fs' = [fs EXCEPT !.loglines = Append(@, cur[p].g)] /\ Finish(p, "LogWrite", "ok")

-----------------------------------------------------------------------------
\* workload, crash, restart

First(o) == CASE o.op = "Store" -> "MkKeyDirs" [] o.op = "Retrieve" -> "RMkKeyDirs" [] o.op = "Log" -> "LogTouchLock"
Begin == \E p \in Proc :
    /\ proc[p] = "up" /\ cur[p] = NoOp /\ nops < MaxOps
    /\ \E o \in Ops : cur' = [cur EXCEPT ![p] = o] /\ pc' = [pc EXCEPT ![p] = First(o)]
    /\ nops' = nops + 1 /\ steps' = [steps EXCEPT ![p] = <<>>]
    /\ UNCHANGED <<fs, proc, vol, S, viol, hist, ncrash>>

\* fate of the file that was open for writing when the process died
Fates == {"empty", "torn", "ok"}
AfterDeath(p, f) == LET v == vol[p] o == cur[p] IN
    CASE v.openf \in {"none", "tmp"} -> fs         \* a torn temporary file is never looked at: the next writer truncates it
      [] v.openf = "loghdr"  -> [fs EXCEPT !.loghdr = IF f = "ok" THEN "ok" ELSE "empty"]
      [] v.openf = "csv"     -> [fs EXCEPT !.csv[v.n] = IF f = "ok" THEN DataOf[o.m] ELSE f]
      [] v.openf = "dinfo"   -> [fs EXCEPT !.dinfo[v.n] = f]
      [] v.openf = "model"   -> [fs EXCEPT !.mfile[o.m].st = f]
      [] v.openf = "results" -> [fs EXCEPT !.rfile[o.m] = f]
      [] v.openf = "ann"     -> [fs EXCEPT !.ann = IF f = "ok" THEN v.annnew
                                                   ELSE IF f = "empty" THEN [n \in Names |-> "none"]
                                                   ELSE [n \in Names |-> IF n = o.n THEN "none" ELSE v.annnew[n]]]
      [] v.openf = "log"     -> [fs EXCEPT !.loglines = IF f = "ok" THEN Append(@, o.g)
                                                       ELSE IF f = "torn" THEN Append(@, "TORN") ELSE @]
Crash == \E p \in Proc :
    /\ proc[p] = "up" /\ cur[p] # NoOp /\ ncrash < MaxCrashes
    /\ \E f \in (IF vol[p].openf \in {"none", "tmp"} THEN {"ok"} ELSE Fates) : fs' = AfterDeath(p, f)
    /\ proc' = [proc EXCEPT ![p] = "down"] /\ cur' = [cur EXCEPT ![p] = NoOp] /\ pc' = [pc EXCEPT ![p] = "idle"]
    /\ vol' = [vol EXCEPT ![p] = Vol0] /\ steps' = [steps EXCEPT ![p] = <<>>]
    /\ ncrash' = ncrash + 1 /\ UNCHANGED <<nops, viol>>
    /\ hist' = IF TrackHist THEN Append(hist, [op |-> cur[p], out |-> "crash", steps |-> steps[p], before |-> pc[p]]) ELSE hist
    /\ S' = CASE cur[p].op = "Store" -> StoreUpdate(S, cur[p].m, cur[p].n, cur[p].d, "crash", LogLenOfDef[cur[p].m])
              [] cur[p].op = "Log" -> LogUpdate(S, cur[p].g, "crash")
              [] OTHER -> S
Restart == \E p \in Proc :
    /\ proc[p] = "down"
    /\ proc' = [proc EXCEPT ![p] = "up"] /\ cur' = [cur EXCEPT ![p] = OpenOp] /\ pc' = [pc EXCEPT ![p] = "InitDirs"]
    /\ steps' = [steps EXCEPT ![p] = <<>>]
    /\ UNCHANGED <<fs, vol, S, viol, hist, nops, ncrash>>

OpenSteps == InitDirs \/ InitLogTouchLock \/ InitLogLockEx \/ OpenLogTmp \/ CloseLogTmp \/ RenameLog \/ OpenLogHeader \/ WriteLogHeader \/ InitCommon
StoreSteps == \/ MkKeyDirs \/ TouchLock \/ LockEx \/ TouchPending \/ ListHashDir \/ ReadDatainfo \/ MkHashDir
              \/ ScanDatasetNumbers \/ TouchIndex \/ OpenCsv \/ CloseCsv \/ OpenDatainfo \/ CloseDatainfo
              \/ MkModelDir \/ OpenModel \/ CloseModel \/ MkMetaDir \/ OpenResults \/ CloseResults
              \/ UnlinkPending \/ Unlock \/ StatLink \/ Symlink
              \/ AnnTouchLock \/ AnnLockEx \/ AnnReadAll \/ AnnOpenTmp \/ AnnCloseTmp \/ AnnRename \/ AnnTruncate \/ AnnWrite
Next == \/ OpenSteps
        \/ StoreSteps
        \/ RMkKeyDirs \/ RTouchLock \/ LockSh \/ ReadEntry
        \/ LogTouchLock \/ LogLockEx \/ LogOpenAppend \/ LogWrite
        \/ Begin \/ Crash \/ Restart

Spec == Init /\ [][Next]_vars

-----------------------------------------------------------------------------
\* invariants of the protocol itself

Quiescent == \A p \in Proc : proc[p] = "up" /\ cur[p] = NoOp
TypeOK == /\ \A p \in Proc : proc[p] \in {"up", "down"}
          /\ nops \in 0..MaxOps /\ ncrash \in 0..MaxCrashes
          /\ \A m \in Model : fs.mfile[m].st \in {"absent", "empty", "torn", "ok"} /\ fs.mfile[m].n \in 0..MaxN
          /\ \A i \in 1..MaxN : fs.csv[i] \in {"absent", "empty", "torn"} \cup Data
          /\ \A d \in Data : fs.index[d] \in 0..MaxN
\* what PENDING is for: an incomplete model or results file is never visible without the marker
PendingGuards == \A m \in Model : (fs.mfile[m].st \in {"empty", "torn"} \/ fs.rfile[m] \in {"empty", "torn"}) => fs.pending[m]
\* "write datainfo last so that we are sure the dataset is there if datainfo is there"
DatainfoLast == \A i \in 1..MaxN : fs.dinfo[i] # "absent" => fs.csv[i] \in Data
\* repair C16-F1: an index entry implies a complete dataset and datainfo with that content (fails with "IndexFirst")
IndexImpliesComplete == \A d \in Data : fs.index[d] # 0 => fs.csv[fs.index[d]] = d /\ fs.dinfo[fs.index[d]] = "ok"
\* a lock is only held while an operation runs (locks vanish with the process); writers exclude each other
LocksScoped == \A p \in Proc : cur[p] = NoOp => vol[p].held = "none" /\ vol[p].openf = "none"
Exclusion == \A p, q \in Proc : p # q =>
                /\ ~(vol[p].held = "ex" /\ vol[q].held \in {"ex", "sh"})
                /\ ~(vol[p].held = "ann" /\ vol[q].held = "ann") /\ ~(vol[p].held = "log" /\ vol[q].held = "log")
\* a store that was never interrupted and whose dataset was never touched by an interrupted store succeeds
\* (all that holds of (I) before repair C16-F1; implied by InvI afterwards)
CleanStoreWorks == \A v \in viol : v[1] = "I" => v[4]
\* repair C16-F5: once a constructor has returned, log.csv has its header
LogHeaderOK == Quiescent => fs.loghdr = "ok"

-----------------------------------------------------------------------------
\* the property layer over the design: what a reader would obtain is admitted

LetterA(m) == RetrieveVerdict(S, m, WouldRetrieve(m).out, WouldRetrieve(m).c)
InvA == Quiescent => \A m \in Model \ S.committed : LetterA(m) \in {"ok", "U"}          \* no partial visibility
InvD == Quiescent => \A m \in S.committed : LetterA(m) = "ok"                             \* durability + fidelity
InvDOther == Quiescent => \A m \in S.committed \ S.interrupted : LetterA(m) = "ok"          \* ... of keys never interrupted themselves
InvI == \A v \in viol : v[1] # "I"                                                        \* isolation of failures
InvIOther == \A v \in viol : v[1] = "I" => v[3] = "error:StopIteration"                      \* a second kind of (I) counterexample
InvIOpen == \A v \in viol : ~(v[1] = "I" /\ v[2] = "open")                                    \* (I) for constructors (two processes)
InvIStore == \A v \in viol : ~(v[1] = "I" /\ v[2] # "open")                                   \* (I) for stores
InvLog == Quiescent => ReadLogVerdict(S, WouldReadLog.out, WouldReadLog.lines) = "ok"     \* log append-only, verbatim
\* the log as far as process death without torn append is concerned (a torn last LINE is finding C16-F6)
InvLogNoTorn == (Quiescent /\ \A i \in 1..Len(fs.loglines) : fs.loglines[i] # "TORN")
                    => ReadLogVerdict(S, WouldReadLog.out, WouldReadLog.lines) = "ok"
InvAnn == Quiescent => \A n \in Names : AnnVerdict(S, n, WouldReadAnn(n).out, WouldReadAnn(n).d) \in {"ok", "U"}
InvName == Quiescent => \A n \in Names :
              /\ ResolveVerdict(S, n, WouldResolve(n).out, WouldResolve(n).key) \in {"ok", "U"}
              /\ RetrieveNameVerdict(S, n, WouldRetrieveName(n).out, WouldRetrieveName(n).c) \in {"ok", "U"}
InvNameNoCrash == ncrash = 0 => InvName       \* a name is faithful at least when nothing was interrupted

-----------------------------------------------------------------------------
\* operation alphabets and case emission (spec -> code)

St(m, n, d) == [op |-> "Store", m |-> m, n |-> n, d |-> d]
Rt(m) == [op |-> "Retrieve", m |-> m]
Lg(g) == [op |-> "Log", g |-> g]
OpsQuick == {St("m1", "na", "dA"), St("m2", "nb", "dB"), St("m2", "na", "dB"), St("m3", "nc", "dC"),
             St("m1", "nb", "dB"), Lg("gA"), Rt("m1")}
OpsFull == OpsQuick \cup {St("m3", "na", "dC"), Lg("gB"), Rt("m2"), Rt("m3")}
\* two processes: stores that share a dataset, a key or a name, one reader, one log message
OpsTwo == {St("m1", "na", "dA"), St("m2", "nb", "dB"), St("m2", "na", "dB"), St("m3", "nc", "dC"), Lg("gA"), Rt("m1")}
NamesAll == {"na", "nb", "nc"}
LegacyAll == {"IndexFirst", "InPlaceAnn", "InPlaceLogHeader", "StrictSymlink"}
LegacyTwo == {"UnlockedLogTmp", "StrictSymlink"}     \* the code between the repairs C16-F5 and C16-F11/F12

Letters == [A |-> InvA, D |-> InvD, I |-> InvI, Log |-> InvLog, Ann |-> InvAnn, Name |-> InvName]
EmitCase == (TrackHist /\ Quiescent /\ nops >= 1) =>
                PrintT(<<"CASE", ToJson([hist |-> hist, holds |-> Letters])>>)
=============================================================================
