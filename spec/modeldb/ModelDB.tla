------------------------------- MODULE ModelDB -------------------------------
(* C16, DESIGN LAYER: LocalModelDirectoryDatabase + LocalDirectoryContext as a
   protocol machine over an abstract file tree, one action per file-system
   operation IN THE ORDER THE CODE PERFORMS THEM
   (workflows/model_database/local_directory.py, contexts/local_directory.py,
   contexts/baseclass.py:_store_model), with

     Crash    process death between any two of them: volatile state is lost,
              the file that is open for writing becomes empty / torn / complete,
              locks vanish;
     Restart  fresh LocalDirectoryContext (its constructor re-runs the
              "create what is missing" steps of Open).

   Models m1, m2 share dataset d1, m3 has d2 (same columns, so the stored
   datainfo compares equal - as in the driver's models).

   The ghost variable S is the abstract state of the property layer
   (ModelDBAbs.tla); the invariants Inv* say that what a reader WOULD obtain in
   every quiescent state is admitted by the property layer.  On the protocol AS
   WRITTEN some of them are violated (see ModelDBProps.cfg and notes/C16.md);
   those counterexamples are design-level findings which the driver re-enacts
   on the real code.                                                         *)
EXTENDS ModelDBAbs, Json

CONSTANTS Names, Ops, MaxOps, MaxCrashes, MaxN, TrackHist,
          Fix   \* {} = the protocol as written; proposed repairs (proposed_fixes/C16-*.diff), checked in ModelDBFixed.cfg:
                \*   "IndexLast"  the index file is touched after csv and datainfo; a hash directory without index is a miss
                \*   "AtomicAnn"  annotations are written to a temporary file that is renamed over the old one
                \*   "LogHeader"  log.csv is created with its header in a temporary file that is renamed into place

VARIABLES fs,      \* the file tree (record of functions, see FS0)
          proc,    \* "up" | "down"
          cur,     \* running operation (record) or NoOp
          pc,      \* label of the NEXT file-system operation of cur
          vol,     \* volatile state of the process: data number, open file, lock
          steps,   \* labels performed by cur so far (only if TrackHist)
          S,       \* ghost: abstract state of the property layer
          viol,    \* ghost: property letters of operation outcomes the property layer forbids
          hist,    \* finished operations [op, out, steps] (only if TrackHist)
          nops, ncrash

vars == <<fs, proc, cur, pc, vol, steps, S, viol, hist, nops, ncrash>>

Data == {DataOf[m] : m \in Model}
NoOp == [op |-> "none"]
OpenOp == [op |-> "Open"]
Vol0 == [n |-> 0, openf |-> "none", held |-> "none", annnew |-> <<>>]

FS0 == [keydir  |-> [m \in Model |-> FALSE],      \* <key>/ and <key>/.pharmpy
        pending |-> [m \in Model |-> FALSE],      \* <key>/.pharmpy/PENDING
        mfile   |-> [m \in Model |-> [st |-> "absent", n |-> 0]],   \* <key>/model.ctl, refers to .datasets/data<n>.csv
        rfile   |-> [m \in Model |-> "absent"],   \* <key>/.pharmpy/results.json
        hdir    |-> [d \in Data |-> FALSE],       \* .datasets/.hash/<dataset hash>/
        index   |-> [d \in Data |-> 0],           \* .datasets/.hash/<h>/data<n>.csv (0: no index file)
        csv     |-> [i \in 1..MaxN |-> "absent"], \* .datasets/data<i>.csv: absent | empty | torn | dataset id
        dinfo   |-> [i \in 1..MaxN |-> "absent"], \* .datasets/data<i>.datainfo
        ctxdirs |-> FALSE,                        \* <ctx>/, subcontexts/, .modeldb/, annotations, models/
        link    |-> [n \in Names |-> "none"],     \* models/<name> -> key
        ann     |-> [n \in Names |-> "none"],     \* annotations: name -> description
        loghdr  |-> "absent",                     \* log.csv: absent | empty | ok (header line written)
        loglines |-> <<>>]                        \* appended lines; "TORN" = a partial line

Init == /\ fs = FS0 /\ proc = "up" /\ cur = OpenOp /\ pc = "InitDirs" /\ vol = Vol0
        /\ steps = <<>> /\ S = AbsInit /\ viol = {} /\ hist = <<>> /\ nops = 0 /\ ncrash = 0

-----------------------------------------------------------------------------
\* what a reader with fresh objects would obtain from the current tree

NoC == [model |-> "none", data |-> "none", hash |-> "none", res |-> "none"]
Garbled == [model |-> "other", data |-> "other", hash |-> "other", res |-> "other"]

WouldRetrieve(m) ==
    IF fs.pending[m] THEN [out |-> "pending", c |-> NoC]
    ELSE IF fs.mfile[m].st = "absent" THEN [out |-> "notfound", c |-> NoC]
    ELSE IF fs.mfile[m].st # "ok" THEN [out |-> "ok", c |-> Garbled]
    ELSE LET n == fs.mfile[m].n IN
         IF n = 0 \/ fs.csv[n] \notin Data \/ fs.dinfo[n] # "ok" THEN [out |-> "error:Data", c |-> NoC]
         ELSE [out |-> "ok",
               c |-> [model |-> ParamOf[m], data |-> fs.csv[n],
                      hash |-> IF fs.csv[n] = DataOf[m] THEN m ELSE "other",
                      res |-> IF fs.rfile[m] = "ok" THEN m ELSE IF fs.rfile[m] = "absent" THEN "none" ELSE "other"]]

WouldResolve(n) ==
    IF fs.link[n] = "none" THEN [out |-> "notfound", key |-> "none"]
    ELSE IF fs.pending[fs.link[n]] THEN [out |-> "pending", key |-> "none"]
    ELSE [out |-> "ok", key |-> fs.link[n]]

WouldReadAnn(n) == IF fs.ann[n] = "none" THEN [out |-> "notfound", d |-> "none"] ELSE [out |-> "ok", d |-> fs.ann[n]]

WouldRetrieveName(n) ==
    LET r == WouldResolve(n) IN
    IF r.out # "ok" THEN [out |-> r.out, c |-> NoC]
    ELSE LET e == WouldRetrieve(r.key) IN
         IF e.out # "ok" THEN e
         ELSE IF fs.ann[n] = "none" THEN [out |-> "notfound", c |-> NoC]
         ELSE [out |-> "ok", c |-> [model |-> e.c.model, data |-> e.c.data, hash |-> e.c.hash, res |-> e.c.res,
                                    name |-> n, desc |-> fs.ann[n]]]

WouldReadLog ==
    IF fs.loghdr = "ok" /\ \A i \in 1..Len(fs.loglines) : fs.loglines[i] # "TORN"
    THEN [out |-> "ok", lines |-> fs.loglines]
    ELSE [out |-> "error:Parse", lines |-> <<>>]     \* no header line / partial line: pandas cannot return the log

-----------------------------------------------------------------------------
\* bookkeeping shared by all steps

Running(o, l) == proc = "up" /\ cur # NoOp /\ cur.op = o /\ pc = l
Tick(l) == steps' = IF TrackHist THEN Append(steps, l) ELSE steps
Same == UNCHANGED <<proc, cur, S, viol, hist, nops, ncrash>>
Step(l, next) == Tick(l) /\ pc' = next /\ Same        \* fs' and vol' are given by the action

StoreLetter(out) == StoreVerdict(S, cur.m, out)
Finish(l, out) ==
    /\ Tick(l)
    /\ hist' = IF TrackHist THEN Append(hist, [op |-> cur, out |-> out, steps |-> steps']) ELSE hist
    /\ cur' = NoOp /\ pc' = "idle" /\ vol' = Vol0
    /\ UNCHANGED <<proc, nops, ncrash>>
    /\ CASE cur.op = "Store" -> /\ S' = StoreUpdate(S, cur.m, cur.n, cur.d, out)
                                /\ viol' = IF StoreLetter(out) \in {"ok", "U"} THEN viol
                                           ELSE viol \cup {<<StoreLetter(out), cur.m, out,
                                                            \E x \in S.interrupted : DataOf[x] = DataOf[cur.m]>>}
         [] cur.op = "Log" -> /\ S' = LogUpdate(S, cur.g, out)
                              /\ viol' = IF LogVerdict(out) = "ok" THEN viol ELSE viol \cup {<<"L", "log", out>>}
         [] OTHER -> UNCHANGED <<S, viol>>

-----------------------------------------------------------------------------
\* Open: LocalDirectoryContext.__init__ (create what is missing)

InitDirs == /\ Running("Open", "InitDirs")          \* mkdir ctx, subcontexts, .modeldb; touch annotations; mkdir models
            /\ fs' = [fs EXCEPT !.ctxdirs = TRUE] /\ UNCHANGED vol
            /\ Step("InitDirs", IF fs.loghdr = "absent" THEN "OpenLogHeader" ELSE "InitCommon")
OpenLogHeader == /\ Running("Open", "OpenLogHeader")   \* open(log.csv, 'w') if it is not a file   (repaired: a temporary file)
                 /\ IF "LogHeader" \in Fix THEN UNCHANGED <<fs, vol>>
                    ELSE fs' = [fs EXCEPT !.loghdr = "empty"] /\ vol' = [vol EXCEPT !.openf = "loghdr"]
                 /\ Step("OpenLogHeader", "WriteLogHeader")
WriteLogHeader == /\ Running("Open", "WriteLogHeader")  \* close: "path,time,severity,message"   (repaired: + os.replace)
                  /\ fs' = [fs EXCEPT !.loghdr = "ok"] /\ vol' = [vol EXCEPT !.openf = "none"]
                  /\ Step("WriteLogHeader", "InitCommon")
InitCommon == /\ Running("Open", "InitCommon")          \* common_options (not observed)
              /\ UNCHANGED fs /\ Finish("InitCommon", "ok")

-----------------------------------------------------------------------------
\* Store = Context.store_model_entry: transaction(store_model, store_modelfit_results, commit), store_key, store_annotation

MkKeyDirs == /\ Running("Store", "MkKeyDirs")      \* destination.mkdir(parents=True, exist_ok=True)
             /\ fs' = [fs EXCEPT !.keydir[cur.m] = TRUE] /\ UNCHANGED vol
             /\ Step("MkKeyDirs", "TouchLock")
TouchLock == /\ Running("Store", "TouchLock") /\ UNCHANGED <<fs, vol>> /\ Step("TouchLock", "LockEx")
LockEx == /\ Running("Store", "LockEx") /\ UNCHANGED fs /\ vol' = [vol EXCEPT !.held = "ex"]
          /\ Step("LockEx", "TouchPending")
TouchPending ==
    /\ Running("Store", "TouchPending")               \* path.touch(exist_ok=False)
    /\ IF fs.pending[cur.m]
       THEN UNCHANGED fs /\ Finish("TouchPending", "pending")     \* PendingTransactionError
       ELSE /\ fs' = [fs EXCEPT !.pending[cur.m] = TRUE] /\ UNCHANGED vol
            /\ Step("TouchPending",
                    IF fs.mfile[cur.m].st # "absent" THEN "MkMetaDir"              \* model file exists: store_model returns
                    ELSE IF fs.hdir[DataOf[cur.m]] /\ ~("IndexLast" \in Fix /\ fs.index[DataOf[cur.m]] = 0)
                         THEN "ListHashDir" ELSE "MkHashDir")
\* -- dataset known (hash directory exists)
ListHashDir ==
    /\ Running("Store", "ListHashDir")                \* next(h_dir.iterdir())
    /\ UNCHANGED fs
    /\ IF fs.index[DataOf[cur.m]] = 0
       THEN Finish("ListHashDir", "error:StopIteration")
       ELSE vol' = [vol EXCEPT !.n = fs.index[DataOf[cur.m]]] /\ Step("ListHashDir", "ReadDatainfo")
ReadDatainfo ==
    /\ Running("Store", "ReadDatainfo")               \* DataInfo.read_json(dipath); equal column info => re-use the path
    /\ UNCHANGED fs
    /\ IF fs.dinfo[vol.n] = "absent" THEN Finish("ReadDatainfo", "error:FileNotFoundError")
       ELSE IF fs.dinfo[vol.n] # "ok" THEN Finish("ReadDatainfo", "error:JSONDecodeError")
       ELSE UNCHANGED vol /\ Step("ReadDatainfo", "MkModelDir")
\* -- new dataset
MkHashDir == /\ Running("Store", "MkHashDir")          \* h_dir.mkdir(parents=True)
             /\ fs' = [fs EXCEPT !.hdir[DataOf[cur.m]] = TRUE] /\ UNCHANGED vol
             /\ Step("MkHashDir", "ScanDatasetNumbers")
Highest == LET used == {i \in 1..MaxN : fs.csv[i] # "absent"} IN
           IF used = {} THEN 0 ELSE CHOOSE i \in used : \A j \in used : j <= i
ScanDatasetNumbers == /\ Running("Store", "ScanDatasetNumbers")   \* datasets_path.iterdir(): highest data<N>.csv
                      /\ Highest < MaxN
                      /\ UNCHANGED fs /\ vol' = [vol EXCEPT !.n = Highest + 1]
                      /\ Step("ScanDatasetNumbers", IF "IndexLast" \in Fix THEN "OpenCsv" ELSE "TouchIndex")
TouchIndex == /\ Running("Store", "TouchIndex")        \* index_path.touch()
              /\ fs' = [fs EXCEPT !.index[DataOf[cur.m]] = vol.n] /\ UNCHANGED vol
              /\ Step("TouchIndex", IF "IndexLast" \in Fix THEN "MkModelDir" ELSE "OpenCsv")
OpenCsv == /\ Running("Store", "OpenCsv")              \* write_csv(..., force=True): open 'w' truncates
           /\ fs' = [fs EXCEPT !.csv[vol.n] = "empty"] /\ vol' = [vol EXCEPT !.openf = "csv"]
           /\ Step("OpenCsv", "CloseCsv")
CloseCsv == /\ Running("Store", "CloseCsv")
            /\ fs' = [fs EXCEPT !.csv[vol.n] = DataOf[cur.m]] /\ vol' = [vol EXCEPT !.openf = "none"]
            /\ Step("CloseCsv", "OpenDatainfo")
OpenDatainfo == /\ Running("Store", "OpenDatainfo")    \* "write datainfo last"
                /\ fs' = [fs EXCEPT !.dinfo[vol.n] = "empty"] /\ vol' = [vol EXCEPT !.openf = "dinfo"]
                /\ Step("OpenDatainfo", "CloseDatainfo")
CloseDatainfo == /\ Running("Store", "CloseDatainfo")
                 /\ fs' = [fs EXCEPT !.dinfo[vol.n] = "ok"] /\ vol' = [vol EXCEPT !.openf = "none"]
                 /\ Step("CloseDatainfo", IF "IndexLast" \in Fix THEN "TouchIndex" ELSE "MkModelDir")
\* -- the model file
MkModelDir == /\ Running("Store", "MkModelDir") /\ UNCHANGED <<fs, vol>> /\ Step("MkModelDir", "OpenModel")
OpenModel == /\ Running("Store", "OpenModel")
             /\ fs' = [fs EXCEPT !.mfile[cur.m] = [st |-> "empty", n |-> vol.n]]
             /\ vol' = [vol EXCEPT !.openf = "model"]
             /\ Step("OpenModel", "CloseModel")
CloseModel == /\ Running("Store", "CloseModel")
              /\ fs' = [fs EXCEPT !.mfile[cur.m].st = "ok"] /\ vol' = [vol EXCEPT !.openf = "none"]
              /\ Step("CloseModel", "MkMetaDir")
\* -- store_modelfit_results
MkMetaDir == /\ Running("Store", "MkMetaDir") /\ UNCHANGED <<fs, vol>> /\ Step("MkMetaDir", "OpenResults")
OpenResults == /\ Running("Store", "OpenResults")
               /\ fs' = [fs EXCEPT !.rfile[cur.m] = "empty"] /\ vol' = [vol EXCEPT !.openf = "results"]
               /\ Step("OpenResults", "CloseResults")
CloseResults == /\ Running("Store", "CloseResults")
                /\ fs' = [fs EXCEPT !.rfile[cur.m] = "ok"] /\ vol' = [vol EXCEPT !.openf = "none"]
                /\ Step("CloseResults", "UnlinkPending")
\* -- commit
UnlinkPending == /\ Running("Store", "UnlinkPending")
                 /\ fs' = [fs EXCEPT !.pending[cur.m] = FALSE] /\ UNCHANGED vol
                 /\ Step("UnlinkPending", "Unlock")
Unlock == /\ Running("Store", "Unlock") /\ UNCHANGED fs /\ vol' = [vol EXCEPT !.held = "none"]
          /\ Step("Unlock", "SymlinkIfAbsent")
\* -- store_key: only if models/<name> does not exist yet (an existing name is NOT re-pointed)
SymlinkIfAbsent == /\ Running("Store", "SymlinkIfAbsent")
                   /\ fs' = IF fs.link[cur.n] = "none" THEN [fs EXCEPT !.link[cur.n] = cur.m] ELSE fs
                   /\ UNCHANGED vol /\ Step("SymlinkIfAbsent", "AnnTouchLock")
\* -- store_annotation: read all lines, truncate, write all lines
AnnTouchLock == /\ Running("Store", "AnnTouchLock") /\ UNCHANGED <<fs, vol>> /\ Step("AnnTouchLock", "AnnLockEx")
AnnLockEx == /\ Running("Store", "AnnLockEx") /\ UNCHANGED fs /\ vol' = [vol EXCEPT !.held = "ann"]
             /\ Step("AnnLockEx", "AnnReadAll")
AnnReadAll == /\ Running("Store", "AnnReadAll") /\ UNCHANGED fs
              /\ vol' = [vol EXCEPT !.annnew = [fs.ann EXCEPT ![cur.n] = cur.d]]
              /\ Step("AnnReadAll", "AnnTruncate")
AnnTruncate == /\ Running("Store", "AnnTruncate")      \* open(path, 'w')   (repaired: open(temporary file, 'w'))
               /\ IF "AtomicAnn" \in Fix THEN UNCHANGED <<fs, vol>>
                  ELSE fs' = [fs EXCEPT !.ann = [n \in Names |-> "none"]] /\ vol' = [vol EXCEPT !.openf = "ann"]
               /\ Step("AnnTruncate", "AnnWrite")
AnnWrite == /\ Running("Store", "AnnWrite")            \* writelines + close   (repaired: + os.replace)
            /\ fs' = [fs EXCEPT !.ann = vol.annnew]
            /\ Finish("AnnWrite", "ok")

-----------------------------------------------------------------------------
\* Retrieve = database.retrieve_model_entry(key): snapshot (a reader creates directories, too)

RMkKeyDirs == /\ Running("Retrieve", "RMkKeyDirs")
              /\ fs' = [fs EXCEPT !.keydir[cur.m] = TRUE] /\ UNCHANGED vol /\ Step("RMkKeyDirs", "RTouchLock")
RTouchLock == /\ Running("Retrieve", "RTouchLock") /\ UNCHANGED <<fs, vol>> /\ Step("RTouchLock", "LockSh")
LockSh == /\ Running("Retrieve", "LockSh") /\ UNCHANGED fs /\ vol' = [vol EXCEPT !.held = "sh"]
          /\ Step("LockSh", "ReadEntry")
ReadEntry == /\ Running("Retrieve", "ReadEntry")   \* PENDING? model file? parse model, datainfo, csv (twice), results.json
             /\ UNCHANGED fs /\ Finish("ReadEntry", WouldRetrieve(cur.m).out)

-----------------------------------------------------------------------------
\* Log = Context.log_message -> store_message: append one CSV line

LogTouchLock == /\ Running("Log", "LogTouchLock") /\ UNCHANGED <<fs, vol>> /\ Step("LogTouchLock", "LogLockEx")
LogLockEx == /\ Running("Log", "LogLockEx") /\ UNCHANGED fs /\ vol' = [vol EXCEPT !.held = "log"]
             /\ Step("LogLockEx", "LogOpenAppend")
LogOpenAppend == /\ Running("Log", "LogOpenAppend") /\ UNCHANGED fs /\ vol' = [vol EXCEPT !.openf = "log"]
                 /\ Step("LogOpenAppend", "LogWrite")
LogWrite == /\ Running("Log", "LogWrite")
            /\ fs' = [fs EXCEPT !.loglines = Append(@, cur.g)]
            /\ Finish("LogWrite", "ok")

-----------------------------------------------------------------------------
\* workload, crash, restart

First(o) == CASE o.op = "Store" -> "MkKeyDirs" [] o.op = "Retrieve" -> "RMkKeyDirs" [] o.op = "Log" -> "LogTouchLock"
Begin == /\ proc = "up" /\ cur = NoOp /\ nops < MaxOps
         /\ \E o \in Ops : cur' = o /\ pc' = First(o)
         /\ nops' = nops + 1 /\ steps' = <<>>
         /\ UNCHANGED <<fs, proc, vol, S, viol, hist, ncrash>>

\* fate of the file that was open for writing when the process died
Fates == {"empty", "torn", "ok"}
AfterDeath(f) ==
    CASE vol.openf = "none"    -> fs
      [] vol.openf = "loghdr"  -> [fs EXCEPT !.loghdr = IF f = "ok" THEN "ok" ELSE "empty"]
      [] vol.openf = "csv"     -> [fs EXCEPT !.csv[vol.n] = IF f = "ok" THEN DataOf[cur.m] ELSE f]
      [] vol.openf = "dinfo"   -> [fs EXCEPT !.dinfo[vol.n] = f]
      [] vol.openf = "model"   -> [fs EXCEPT !.mfile[cur.m].st = f]
      [] vol.openf = "results" -> [fs EXCEPT !.rfile[cur.m] = f]
      [] vol.openf = "ann"     -> [fs EXCEPT !.ann = IF f = "ok" THEN vol.annnew
                                                     ELSE IF f = "empty" THEN [n \in Names |-> "none"]
                                                     ELSE [n \in Names |-> IF n = cur.n THEN "none" ELSE vol.annnew[n]]]
      [] vol.openf = "log"     -> [fs EXCEPT !.loglines = IF f = "ok" THEN Append(@, cur.g)
                                                         ELSE IF f = "torn" THEN Append(@, "TORN") ELSE @]
Crash ==
    /\ proc = "up" /\ cur # NoOp /\ ncrash < MaxCrashes
    /\ \E f \in (IF vol.openf = "none" THEN {"ok"} ELSE Fates) : fs' = AfterDeath(f)
    /\ proc' = "down" /\ cur' = NoOp /\ pc' = "idle" /\ vol' = Vol0 /\ steps' = <<>>
    /\ ncrash' = ncrash + 1 /\ UNCHANGED <<nops, viol>>
    /\ hist' = IF TrackHist THEN Append(hist, [op |-> cur, out |-> "crash", steps |-> steps, before |-> pc]) ELSE hist
    /\ S' = CASE cur.op = "Store" -> StoreUpdate(S, cur.m, cur.n, cur.d, "crash")
              [] cur.op = "Log" -> LogUpdate(S, cur.g, "crash")
              [] OTHER -> S
Restart == /\ proc = "down"
           /\ proc' = "up" /\ cur' = OpenOp /\ pc' = "InitDirs" /\ steps' = <<>>
           /\ UNCHANGED <<fs, vol, S, viol, hist, nops, ncrash>>

StoreSteps == \/ MkKeyDirs \/ TouchLock \/ LockEx \/ TouchPending \/ ListHashDir \/ ReadDatainfo \/ MkHashDir
              \/ ScanDatasetNumbers \/ TouchIndex \/ OpenCsv \/ CloseCsv \/ OpenDatainfo \/ CloseDatainfo
              \/ MkModelDir \/ OpenModel \/ CloseModel \/ MkMetaDir \/ OpenResults \/ CloseResults
              \/ UnlinkPending \/ Unlock \/ SymlinkIfAbsent
              \/ AnnTouchLock \/ AnnLockEx \/ AnnReadAll \/ AnnTruncate \/ AnnWrite
Next == \/ InitDirs \/ OpenLogHeader \/ WriteLogHeader \/ InitCommon
        \/ StoreSteps
        \/ RMkKeyDirs \/ RTouchLock \/ LockSh \/ ReadEntry
        \/ LogTouchLock \/ LogLockEx \/ LogOpenAppend \/ LogWrite
        \/ Begin \/ Crash \/ Restart

Spec == Init /\ [][Next]_vars

-----------------------------------------------------------------------------
\* invariants that the protocol as written DOES satisfy

Quiescent == proc = "up" /\ cur = NoOp
TypeOK == /\ proc \in {"up", "down"} /\ nops \in 0..MaxOps /\ ncrash \in 0..MaxCrashes
          /\ \A m \in Model : fs.mfile[m].st \in {"absent", "empty", "torn", "ok"} /\ fs.mfile[m].n \in 0..MaxN
          /\ \A i \in 1..MaxN : fs.csv[i] \in {"absent", "empty", "torn"} \cup Data
          /\ \A d \in Data : fs.index[d] \in 0..MaxN
\* what PENDING is for: an incomplete model or results file is never visible without the marker
PendingGuards == \A m \in Model : (fs.mfile[m].st \in {"empty", "torn"} \/ fs.rfile[m] \in {"empty", "torn"}) => fs.pending[m]
\* "write datainfo last so that we are sure the dataset is there if datainfo is there"
DatainfoLast == \A i \in 1..MaxN : fs.dinfo[i] # "absent" => fs.csv[i] \in Data
\* a lock is only held while an operation runs (locks vanish with the process)
LocksScoped == cur = NoOp => vol.held = "none" /\ vol.openf = "none"
LogHeaderOK == Quiescent => fs.loghdr = "ok"     \* holds with the repair "LogHeader" only
\* the log as far as process death without torn append is concerned (a torn last LINE is finding C16-F6)
InvLogNoTorn == (Quiescent /\ \A i \in 1..Len(fs.loglines) : fs.loglines[i] # "TORN")
                    => ReadLogVerdict(S, WouldReadLog.out, WouldReadLog.lines) = "ok"
\* a store that was never interrupted and whose dataset was never touched by an interrupted store succeeds
CleanStoreWorks == \A v \in viol : v[1] = "I" => v[4]

-----------------------------------------------------------------------------
\* the property layer over the design: what a reader would obtain is admitted (checked separately, ModelDBProps.cfg)

LetterA(m) == RetrieveVerdict(S, m, WouldRetrieve(m).out, WouldRetrieve(m).c)
InvA == Quiescent => \A m \in Model \ S.committed : LetterA(m) \in {"ok", "U"}          \* no partial visibility
InvD == Quiescent => \A m \in S.committed : LetterA(m) = "ok"                             \* durability + fidelity
InvDOther == Quiescent => \A m \in S.committed \ S.interrupted : LetterA(m) = "ok"          \* ... of keys never interrupted themselves
InvIOther == \A v \in viol : v[1] = "I" => v[3] = "error:StopIteration"                      \* a second kind of (I) counterexample
InvI == \A v \in viol : v[1] # "I"                                                        \* isolation of failures
InvLog == Quiescent => ReadLogVerdict(S, WouldReadLog.out, WouldReadLog.lines) = "ok"     \* log append-only, verbatim
InvAnn == Quiescent => \A n \in Names : AnnVerdict(S, n, WouldReadAnn(n).out, WouldReadAnn(n).d) \in {"ok", "U"}
InvName == Quiescent => \A n \in Names :
              /\ ResolveVerdict(S, n, WouldResolve(n).out, WouldResolve(n).key) \in {"ok", "U"}
              /\ RetrieveNameVerdict(S, n, WouldRetrieveName(n).out, WouldRetrieveName(n).c) \in {"ok", "U"}
InvNameNoCrash == ncrash = 0 => InvName       \* a name is faithful at least when nothing was interrupted

-----------------------------------------------------------------------------
\* operation alphabets and case emission (spec -> code)

St(m, n, d) == [op |-> "Store", m |-> m, n |-> n, d |-> d]
Rt(m) == [op |-> "Retrieve", m |-> m]
Lg(g) == [op |-> "Log", g |-> g]
OpsQuick == {St("m1", "na", "dA"), St("m2", "nb", "dB"), St("m2", "na", "dB"), St("m3", "nc", "dC"),
             St("m1", "nb", "dB"), Lg("gA"), Rt("m1")}
OpsFull == OpsQuick \cup {St("m3", "na", "dC"), Lg("gB"), Rt("m2"), Rt("m3")}
NamesAll == {"na", "nb", "nc"}

Letters == [A |-> InvA, D |-> InvD, I |-> InvI, Log |-> InvLog, Ann |-> InvAnn, Name |-> InvName]
EmitCase == (TrackHist /\ Quiescent /\ nops >= 1) =>
                PrintT(<<"CASE", ToJson([hist |-> hist, holds |-> Letters])>>)
=============================================================================
