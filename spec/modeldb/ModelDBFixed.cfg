CONSTANTS
  Model = {"m1", "m2", "m3"}
  DataOf <- DataOfDef
  ParamOf <- ParamOfDef
  Names <- NamesAll
  Ops <- OpsQuick
  MaxOps = 3
  MaxCrashes = 1
  MaxN = 3
  TrackHist = FALSE
  Fix = {"IndexLast", "AtomicAnn", "LogHeader"}
INIT Init
NEXT Next
INVARIANT TypeOK
INVARIANT PendingGuards
INVARIANT LocksScoped
INVARIANT LogHeaderOK
INVARIANT InvLogNoTorn
INVARIANT InvI
INVARIANT InvDOther
INVARIANT InvA
INVARIANT InvAnn
CHECK_DEADLOCK FALSE
