----------------------------- MODULE ModelDBText -----------------------------
(* C16, fidelity over inputs: TLC enumerates every text over an alphabet of
   troublesome tokens (concatenations up to MaxLen) for each of the three places
   a caller's text goes through the context: log message, description
   (annotation), model name.  One case per (kind, text); the reference is the
   identity (what is read back equals what was written), decided by
   ModelDBTrace/ModelDBAbs on the trace the driver records.  `specified` = FALSE
   marks texts about which the property is silent for that kind (the driver skips
   and counts them).                                                          *)
EXTENDS Naturals, Sequences, FiniteSets, TLC, Json

CONSTANTS Tokens, MaxLen, Kinds
VARIABLES kind, text
Texts == UNION {[1..k -> Tokens] : k \in 0..MaxLen}
Init == kind \in Kinds /\ text \in Texts
Next == UNCHANGED <<kind, text>>

Has(t, S) == \E i \in 1..Len(t) : t[i] \in S
\* a model name is used as a file name and as the first blank-separated field of the annotations file:
\* the empty name and names with line breaks are outside what the documentation promises
Specified == kind = "name" => (text # <<>> /\ ~Has(text, {"NL", "CR"}))
Features == [empty |-> text = <<>>,
             na_like |-> text \in {<<>>, <<"NA">>},
             line_break |-> Has(text, {"NL", "CR"}),
             blank |-> Has(text, {"SP"}),
             leading_blank |-> text # <<>> /\ text[1] = "SP",
             semicolon |-> Has(text, {"SEMI"}),
             leading_semicolon |-> text # <<>> /\ text[1] = "SEMI",
             \* a number once blanks and line breaks around it are stripped
             numeric_like |-> SelectSeq(text, LAMBDA t : t \notin {"SP", "NL", "CR"}) = <<"NUM">>]
Emit == PrintT(<<"TEXT", ToJson([kind |-> kind, text |-> text, specified |-> Specified, features |-> Features])>>)
=============================================================================
