CONSTANTS
  Model = {"m1", "m2", "m3"}
  DataOf <- DataOfDef
  ParamOf <- ParamOfDef
  Proc = {1, 2}
  Names <- NamesAll
  Ops <- OpsTwo
  MaxOps = 2
  MaxCrashes = 1
  MaxN = 4
  TrackHist = FALSE
  Legacy = {}
INIT Init
NEXT Next
INVARIANT TypeOK
INVARIANT PendingGuards
INVARIANT DatainfoLast
INVARIANT IndexImpliesComplete
INVARIANT LocksScoped
INVARIANT InvDOther
INVARIANT InvA
INVARIANT InvAnn
INVARIANT Exclusion
INVARIANT LogHeaderOK
INVARIANT InvLogNoTorn
INVARIANT InvI
CHECK_DEADLOCK FALSE
