CONSTANTS
  Model = {"m1", "m2", "m3"}
  DataOf <- DataOfDef
  ParamOf <- ParamOfDef
  Proc = {1}
  Names <- NamesAll
  Ops <- OpsQuick
  MaxOps = 3
  MaxCrashes = 0
  MaxN = 4
  TrackHist = TRUE
  Legacy = {}
INIT Init
NEXT Next
INVARIANT TypeOK
INVARIANT EmitCase
CHECK_DEADLOCK FALSE
