CONSTANTS
  Model = {"m1", "m2", "m3"}
  DataOf <- DataOfDef
  ParamOf <- ParamOfDef
  Names <- NamesAll
  Ops <- OpsQuick
  MaxOps = 3
  MaxCrashes = 0
  MaxN = 3
  TrackHist = TRUE
  Fix = {}
INIT Init
NEXT Next
INVARIANT TypeOK
INVARIANT EmitCase
CHECK_DEADLOCK FALSE
