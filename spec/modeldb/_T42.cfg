CONSTANTS
  Model = {"m1", "m2", "m3"}
  DataOf <- DataOfDef
  ParamOf <- ParamOfDef
  Proc = {1}
  Names <- NamesAll
  Ops <- OpsQuick
  MaxOps = 4
  MaxCrashes = 2
  MaxN = 4
  TrackHist = FALSE
  Legacy = {}
INIT Init
NEXT Next
INVARIANT TypeOK
INVARIANT PendingGuards
INVARIANT DatainfoLast
INVARIANT IndexImpliesComplete
INVARIANT LocksScoped
INVARIANT LogHeaderOK
INVARIANT InvI
INVARIANT InvDOther
INVARIANT InvA
INVARIANT InvAnn
INVARIANT InvLogNoTorn
CHECK_DEADLOCK FALSE
