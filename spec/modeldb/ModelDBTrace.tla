---------------------------- MODULE ModelDBTrace ----------------------------
(* C16, code -> spec.  Every trace is what the REAL pharmpy code returned for a
   sequence of operations (workload prefix, process death at a chosen file-system
   operation, then observation with fresh LocalDirectoryContext /
   LocalModelDirectoryDatabase objects).  TLC replays each trace on the abstract
   state of the property layer (ModelDBAbs.tla) and records, per event, the
   property letter when the outcome is not admitted.  Texts (names, descriptions,
   messages) are opaque values compared for equality: ids in crash traces, token
   sequences in fidelity traces.  Many traces per JVM (variable tid).          *)
EXTENDS ModelDBAbs, Json, IOUtils

Traces == JsonDeserialize(IOEnv.TRACES)
VARIABLES tid, l, S, bads
tvars == <<tid, l, S, bads>>

Events == Traces[tid].events
Ev == Events[l]

TraceInit == /\ tid \in 1..Len(Traces) /\ l = 1 /\ S = AbsInit /\ bads = <<>>

Is(k) == l <= Len(Events) /\ Ev.e = k /\ l' = l + 1 /\ UNCHANGED tid
Note(p, exp) == bads' = IF p = "ok" THEN bads ELSE Append(bads, [l |-> l, p |-> p, exp |-> exp])
Cands(n) == BindOf(S, n).cands

EvStore == /\ Is("Store")
           /\ LET p0 == StoreVerdict(S, Ev.m, Ev.out)
                  \* a documented refusal (ValueError) is admitted for texts of the troublesome alphabet only
                  p == IF p0 = "R" THEN (IF Ev.troublesome THEN "ok" ELSE "I") ELSE p0
              IN Note(p, "works")
           /\ S' = StoreUpdate(S, Ev.m, Ev.n, Ev.d, Ev.out, Ev.nlog)
EvRetrieve == /\ Is("Retrieve")
              /\ Note(RetrieveVerdict(S, Ev.m, Ev.out, Ev.c), Expected(S, Ev.m))
              /\ UNCHANGED S
EvResolve == /\ Is("ResolveName")
             /\ Note(ResolveVerdict(S, Ev.n, Ev.out, Ev.key), Cands(Ev.n))
             /\ UNCHANGED S
EvRetrieveName == /\ Is("RetrieveName")
                  /\ Note(RetrieveNameVerdict(S, Ev.n, Ev.out, Ev.c), {ExpectedName(S, Ev.n, x) : x \in Cands(Ev.n)})
                  /\ UNCHANGED S
EvReadAnn == /\ Is("ReadAnn")
             /\ Note(AnnVerdict(S, Ev.n, Ev.out, Ev.d), Cands(Ev.n))
             /\ UNCHANGED S
EvLog == /\ Is("Log")
         /\ Note(LogVerdict(Ev.out), "works")
         /\ S' = LogUpdate(S, Ev.g, Ev.out)
EvReadLog == /\ Is("ReadLog")
             /\ Note(ReadLogVerdict(S, Ev.out, Ev.lines), S.logc)
             /\ UNCHANGED S
EvCrash == Is("Crash") /\ UNCHANGED <<S, bads>>
EvReopen == Is("Reopen") /\ Note(ReopenVerdict(Ev.out), "works") /\ UNCHANGED S

TraceNext == \/ EvStore \/ EvRetrieve \/ EvResolve \/ EvRetrieveName \/ EvReadAnn
             \/ EvLog \/ EvReadLog \/ EvCrash \/ EvReopen
TraceSpec == TraceInit /\ [][TraceNext]_tvars

Done == l = Len(Events) + 1
EmitVerdict == Done => PrintT(<<"VERDICT", ToJson([tid |-> tid, bads |-> bads])>>)
=============================================================================
