CONSTANTS
  Model = {"m1", "m2", "m3"}
  DataOf <- DataOfDef
  ParamOf <- ParamOfDef
  Names <- NamesAll
  Ops <- OpsQuick
  MaxOps = 3
  MaxCrashes = 1
  MaxN = 3
  TrackHist = FALSE
  Fix = {}
INIT Init
NEXT Next
INVARIANT TypeOK
INVARIANT PendingGuards
INVARIANT DatainfoLast
INVARIANT LocksScoped
INVARIANT CleanStoreWorks
CHECK_DEADLOCK FALSE
