----------------------------- MODULE ModelDBAbs -----------------------------
(* C16, PROPERTY LAYER.  What the property statement says about the observable
   operations of the model database / run context, and nothing else:

     Store(m, name, descr) -> ok | crash | inflight | pending | refused | error:<T>
     Retrieve(key m)       -> ok(content) | pending | notfound | error:<T>
     ResolveName(name)     -> ok(key) | pending | notfound | error:<T>
     RetrieveName(name)    -> ok(content) | pending | notfound | error:<T>
     ReadAnn(name)         -> ok(descr) | notfound | error:<T>
     Log(msg)              -> ok | crash | error:<T>
     ReadLog               -> ok(lines) | error:<T>
     Reopen                -> ok | error:<T>     (fresh objects after a crash)

   The abstract state S only remembers which operations RETURNED (committed),
   which were INTERRUPTED (process death or exception), what each name is bound
   to, and the log.  Every operator <Op>Verdict returns
       "ok"  admitted by the property,
       "U"   admitted because the statement is silent (counted as unspecified),
       "A"   partial visibility        "D"  durability / fidelity of a committed entry
       "I"   isolation of failures     "L"  log / annotation
   Both the design layer (ModelDB.tla: invariants over what a reader WOULD get)
   and the trace validator (ModelDBTrace.tla: what the real code DID return) use
   these operators, so "design |= property" and "code |= property" are judged by
   the same text.                                                             *)
EXTENDS Naturals, Sequences, FiniteSets, TLC

CONSTANTS Model,    \* set of model ids (strings)
          DataOf,   \* [Model -> dataset id]     m1, m2 share a dataset
          ParamOf   \* [Model -> parameter-set id]  (what distinguishes m1 from m2)

\* the driver's models: m1, m2 share dataset d1 and differ in an initial estimate; m3 = m1 with another dataset
DataOfDef == [m \in {"m1", "m2", "m3"} |-> IF m = "m3" THEN "d2" ELSE "d1"]
ParamOfDef == [m \in {"m1", "m2", "m3"} |-> IF m = "m2" THEN "p2" ELSE "p1"]
\* entries of the results log the driver stores with each model (string-sorted keys "0".."13" differ from positions above 10)
LogLenOfDef == [m \in {"m1", "m2", "m3"} |-> IF m = "m1" THEN 11 ELSE IF m = "m2" THEN 14 ELSE 1]

NoBind == [certain |-> TRUE, cands |-> {}, absentOK |-> TRUE]
AbsInit == [committed |-> {}, interrupted |-> {}, bind |-> <<>>, logc |-> <<>>, nlog |-> <<>>]
\* number of entries of the log inside the modelfit results that were (last) stored for key m
NLog(S, m) == IF m \in DOMAIN S.nlog THEN S.nlog[m] ELSE 0

BindOf(S, n) == IF n \in DOMAIN S.bind THEN S.bind[n] ELSE NoBind
SetBind(S, n, b) == [x \in (DOMAIN S.bind) \cup {n} |-> IF x = n THEN b ELSE S.bind[x]]

\* equivalence of a retrieved entry with what was stored under key m:
\* model function/parameters, dataset, ModelHash = key, results
\* model function/parameters, dataset, ModelHash = key, results; and the log that belongs to the stored results:
\* c.rlog = for every retrieved log entry the position its (category, message) had in the stored log (0: not stored),
\* so "in order and verbatim" is  c.rlog = <<1, 2, ..., n>>
KeyContentOK(S, c, m) == /\ c.model = ParamOf[m] /\ c.data = DataOf[m]
                         /\ c.hash = m /\ c.res = m
                         /\ c.rlog = [i \in 1..NLog(S, m) |-> i]
Expected(S, m) == [model |-> ParamOf[m], data |-> DataOf[m], hash |-> m, res |-> m, rlog |-> [i \in 1..NLog(S, m) |-> i]]

NonOk(out) == out # "ok"
IsErr(out) == out \notin {"ok", "crash", "pending", "notfound", "refused"}

-----------------------------------------------------------------------------
\* Store

\* "inflight": the store of ANOTHER process has begun and has not returned yet (two-process traces): like an
\* interrupted store it may or may not be visible; its own later event carries the final outcome
StoreVerdict(S, m, out) ==
    IF out \in {"ok", "crash", "inflight"} THEN "ok"
    ELSE IF out = "refused" THEN "R"           \* documented refusal: the caller decides (troublesome text only)
    ELSE IF m \in S.interrupted THEN (IF out = "pending" THEN "ok" ELSE "U")
    ELSE "I"     \* (I) a store of a model whose own stores were never interrupted must work

\* k = number of entries of the results log of the entry that is stored
SetNLog(S, m, k) == [x \in (DOMAIN S.nlog) \cup {m} |-> IF x = m THEN k ELSE S.nlog[x]]
StoreUpdate(S, m, n, d, out, k) ==
    IF out = "ok"
    THEN [S EXCEPT !.committed = @ \cup {m}, !.nlog = SetNLog(S, m, k),
                   !.bind = SetBind(S, n, [certain |-> TRUE, cands |-> {<<m, d>>}, absentOK |-> FALSE])]
    ELSE [S EXCEPT !.interrupted = @ \cup {m}, !.nlog = SetNLog(S, m, k),
                   !.bind = SetBind(S, n, [certain |-> FALSE,
                                          cands |-> BindOf(S, n).cands \cup {<<m, d>>},
                                          absentOK |-> BindOf(S, n).absentOK])]

-----------------------------------------------------------------------------
\* Retrieve by key

RetrieveVerdict(S, m, out, c) ==
    IF m \in S.committed
    THEN (IF out = "ok" /\ KeyContentOK(S, c, m) THEN "ok" ELSE "D")       \* (D)
    ELSE IF out \in {"notfound", "pending"} THEN "ok"
    ELSE IF out = "ok" THEN (IF m \in S.interrupted /\ KeyContentOK(S, c, m) THEN "ok" ELSE "A")   \* (A)
    ELSE IF m \in S.interrupted THEN "U" ELSE "A"

-----------------------------------------------------------------------------
\* names

CandModels(b) == {x[1] : x \in b.cands}
CandDescs(b) == {x[2] : x \in b.cands}

ResolveVerdict(S, n, out, key) ==
    LET b == BindOf(S, n) IN
    IF b.cands = {} THEN (IF out = "notfound" THEN "ok" ELSE "A")
    ELSE IF b.certain THEN (IF out = "ok" /\ key \in CandModels(b) THEN "ok" ELSE "D")
    ELSE IF out = "ok" THEN (IF key \in CandModels(b) THEN "ok" ELSE "A")
    ELSE IF out = "notfound" THEN (IF b.absentOK THEN "ok" ELSE "D")
    ELSE IF out = "pending" THEN "ok"
    ELSE "U"

AnnVerdict(S, n, out, d) ==
    LET b == BindOf(S, n) IN
    IF b.cands = {} THEN (IF out = "notfound" THEN "ok" ELSE "A")
    ELSE IF b.certain THEN (IF out = "ok" /\ d \in CandDescs(b) THEN "ok" ELSE "L")        \* (L) annotations survive
    ELSE IF out = "ok" THEN (IF d \in CandDescs(b) THEN "ok" ELSE "L")
    ELSE IF out = "notfound" THEN (IF b.absentOK THEN "ok" ELSE "L")
    ELSE "U"

ExpectedName(S, n, x) == [model |-> ParamOf[x[1]], data |-> DataOf[x[1]], hash |-> x[1], res |-> x[1],
                          rlog |-> [i \in 1..NLog(S, x[1]) |-> i], name |-> n, desc |-> x[2]]
NameContentOK(S, c, n, x) == KeyContentOK(S, c, x[1]) /\ c.name = n /\ c.desc = x[2]

RetrieveNameVerdict(S, n, out, c) ==
    LET b == BindOf(S, n) IN
    IF b.cands = {} THEN (IF out = "notfound" THEN "ok" ELSE "A")
    ELSE IF b.certain THEN (IF out = "ok" /\ \E x \in b.cands : NameContentOK(S, c, n, x) THEN "ok" ELSE "D")
    ELSE IF out = "ok" THEN (IF \E x \in b.cands : NameContentOK(S, c, n, x) THEN "ok" ELSE "A")   \* no mixtures
    ELSE IF out = "notfound" THEN (IF b.absentOK THEN "ok" ELSE "D")
    ELSE IF out = "pending" THEN "ok"
    ELSE "U"

-----------------------------------------------------------------------------
\* log

LogVerdict(out) == IF out \in {"ok", "crash"} THEN "ok" ELSE "L"
LogUpdate(S, g, out) == [S EXCEPT !.logc = Append(@, [msg |-> g, sure |-> (out = "ok")])]

\* lines = the messages read back; every message whose Log returned must be there, in order,
\* verbatim; a message whose Log was interrupted may be there (complete) or not
RECURSIVE Match(_, _)
Match(lines, lc) ==
    IF lc = <<>> THEN lines = <<>>
    ELSE IF Head(lc).sure
         THEN lines # <<>> /\ Head(lines) = Head(lc).msg /\ Match(Tail(lines), Tail(lc))
         ELSE \/ Match(lines, Tail(lc))
              \/ lines # <<>> /\ Head(lines) = Head(lc).msg /\ Match(Tail(lines), Tail(lc))

ReadLogVerdict(S, out, lines) == IF out = "ok" /\ Match(lines, S.logc) THEN "ok" ELSE "L"

ReopenVerdict(out) == IF out = "ok" THEN "ok" ELSE "I"
=============================================================================
