CONSTANTS
  Tokens = {"DQ", "COMMA", "NL", "CR", "SP", "NA", "NUM", "A", "SEMI"}
  MaxLen = 2
  Kinds = {"log", "desc", "name"}
INIT Init
NEXT Next
INVARIANT Emit
CHECK_DEADLOCK FALSE
