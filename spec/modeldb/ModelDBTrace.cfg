CONSTANTS
  Model = {"m1", "m2", "m3"}
  DataOf <- DataOfDef
  ParamOf <- ParamOfDef
INIT TraceInit
NEXT TraceNext
INVARIANT EmitVerdict
CHECK_DEADLOCK FALSE
